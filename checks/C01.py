"""C01 — dense matrices act as the linear map they store, in every representation (DESIGN.md section 4, C01)."""
import os, sys, re, json
import vcheck as V

META = {
    "level": "proof",
    "technique": "Coq proof (list-level loop model of the dense kernels over an abstract commutative ring with conjugation refines the "
                 "textbook sums, all shapes/entries/scalars) + extracted-model vs C++ differential correspondence over every kernel x "
                 "representation x shape x field, with the extracted spec as oracle",
    "text": "Theorems in coq/Properties_C01.v: every matrix-vector kernel (mv..usmhv), product, left/right multiplication, transposition and "
            "vector-space operation of the Gallina transcription of densematrix.hh/densevector.hh/fmatrix.hh/diagonalmatrix.hh/transpose.hh "
            "equals its algebraic definition (sums over lists) for all shapes and entries of any commutative ring with a conjugation; diagonal, "
            "1x1 and transposed-wrapper code paths agree with the dense ones.  The model is tied to the headers on every run: FieldMatrix<K,r,c> "
            "(1<=r,c<=4), DynamicMatrix, DiagonalMatrix, ScalarMatrixView/ScalarVectorView, transposedView wrappers over K in {int, double, "
            "complex<double>, GF(7), GF(13)} are compiled from the working tree and run on the same cases as the extracted model; results AND "
            "operands after the call are compared and judged by the extracted spec.",
    "note": "Trusted: Coq kernel, extraction, OCaml driver, C++ harness (harness/C01/impl.hh, gfp.hh), g++.  Not modelled: PromotionTraits "
            "type computation, norms, stream output, floating-point rounding (doubles hold small integers only).",
    "design_ref": "DESIGN.md section 4 C01",
}

H = os.path.join(V.VERIF, "harness", "C01")
FIELDS = {"Z": 0, "D": 1, "C": 2, "F7": 7, "F13": 13}
FIELDS_THOROUGH = {"L": 3, "S": 4}      # long, float (holding small integers): further members of the field-type family, thorough tier only
ALLFIELDS = dict(FIELDS, **FIELDS_THOROUGH)


def fields_of(ctx):
    return list(FIELDS) + ([] if ctx.quick else list(FIELDS_THOROUGH))
KERNELS = ["mv", "mtv", "umv", "umtv", "umhv", "mmv", "mmtv", "mmhv", "usmv", "usmtv", "usmhv"]
NK = {"mv", "umv", "mmv", "usmv"}
MAXN = 4


# --------------------------------------------------------------------------- values
class Gen:
    def __init__(self, rng, field):
        self.rng, self.f = rng, field

    def small(self):
        r = self.rng
        z = r.random()
        if z < 0.18:
            return 0
        if z < 0.30:
            return 1
        if z < 0.40:
            return -1
        return r.choice([-5, -4, -3, -2, 2, 3, 4, 5, 6, 7])

    def elem(self, mark=None):
        """one entry; mark = a prime making this entry recognisable in any sum"""
        if self.f == "C":
            if mark is not None:
                return "%d:%d" % self.rng.choice([(mark, 0), (0, mark), (2, mark), (-mark, 1)])
            a, b = self.small(), self.small()
            if self.rng.random() < 0.25:
                b = 0
            return "%d:%d" % (a, b)
        if mark is not None:
            return str(mark if self.rng.random() < 0.7 else -mark)
        return str(self.small())

    def vec(self, n, mark):
        k = self.rng.randrange(n) if (n and mark and self.rng.random() < 0.8) else -1
        return [self.elem(mark if i == k else None) for i in range(n)]

    def scalar(self):
        if self.f == "C":
            return "%d:%d" % self.rng.choice([(2, 1), (0, 1), (1, -1), (3, 2), (-2, 0), (1, 0), (0, 0), (-1, 3), (2, -3)])
        return str(self.rng.choice([2, 3, -1, -2, 5, 1, 0, 7, -3]))

    def divisor(self):
        """a scalar by which exact division is modelled (and exact in floating point for D / C)"""
        if self.f == "C":
            return self.rng.choice([(1, 0), (0, 1), (-1, 0), (2, 0), (0, -2), (1, 1), (1, -1), (2, 1), (1, 2), (-2, 1), (4, 0), (2, 2)])
        if self.f.startswith("F"):
            p = int(self.f[1:])
            return (self.rng.randrange(1, p), 0)
        return (self.rng.choice([1, -1, 2, -2, 3, 4, 5, -7]), 0)

    def times(self, e, d):
        """the entry e*d (so that (e*d)/d is exact)"""
        if self.f == "C":
            a, b = [int(t) for t in e.split(":")]
            return "%d:%d" % (a * d[0] - b * d[1], a * d[1] + b * d[0])
        return str(int(e) * d[0])

    def dstr(self, d):
        return "%d:%d" % d if self.f == "C" else str(d[0])


def tu_of(f, op, rep, rep2, r, c, p):
    """the translation unit (static row count) able to run the case"""
    if op == "mul" and rep == "DM" and rep2 in ("TF", "TG"):
        return p
    if op in ("leftmultiply", "rightmultiply") and rep == "DM" and rep2 == "FM":
        return r if op == "leftmultiply" else c
    if op.startswith("xr_") or op.startswith("xw_"):
        return 1
    if op == "xasgm":          # round 6: fully dynamic pairs run in any translation unit
        return (r - 1) % MAXN + 1 if (rep == "DM" and rep2 in ("DM", "TD", "XD", "K")) else r
    if op == "xasgv":
        return (r - 1) % MAXN + 1 if (rep == "DV" and rep2 in ("DV", "XW", "K")) else r
    static = any(x in ("FM", "DG", "FV", "SV", "SW", "TF", "TG", "SC", "FD", "DF") for x in (rep, rep2))
    if static:
        return r
    return (r - 1) % MAXN + 1


def gen(ctx):
    quick = ctx.quick
    draws = 2 if quick else 10
    cases = []
    cp = os.path.join(V.VERIF, "corpus", "C01", "cases.txt")
    if os.path.exists(cp):
        cases += [l.strip() for l in open(cp) if l.strip() and not l.startswith("#")]
    S = range(1, MAXN + 1)
    dyn_shapes = [(1, 1), (1, 3), (2, 2), (2, 5), (3, 1), (3, 4), (4, 2), (5, 3), (6, 6), (5, 1), (1, 6), (4, 4)]
    if not quick:
        dyn_shapes += [(r, c) for r in range(1, 8) for c in range(1, 8) if (r, c) not in dyn_shapes and (r + c) % 3 == 0]
    for f in fields_of(ctx):
        rng = ctx.rng("gen", f)
        g = Gen(rng, f)

        def M(r, c, mark):
            k = rng.randrange(r * c) if (mark and rng.random() < 0.85) else -1
            return [g.elem(mark if i == k else None) for i in range(r * c)]

        def emit(op, rep, rep2, r, c, p, toks):
            cases.append(" ".join([f, op, rep, rep2, str(r), str(c), str(p)] + toks))

        for d in range(draws):
            # ---------------- matrix-vector kernels
            for op in KERNELS:
                n_kind = op in NK
                for r in S:
                    for c in S:
                        xs, ys = (c, r) if n_kind else (r, c)
                        for rep2 in (("FV", "DV") if (d % 2 == 0 or not quick) else ("FV",)):
                            emit(op, "FM", rep2, r, c, 0, [g.scalar()] + M(r, c, 97) + g.vec(xs, 101) + g.vec(ys, 103))
                        if r == c:
                            emit(op, "DG", "FV", r, r, 0, [g.scalar()] + g.vec(r, 97) + g.vec(r, 101) + g.vec(r, 103))
                            if d == 0:
                                emit(op, "DG", "DV", r, r, 0, [g.scalar()] + g.vec(r, 97) + g.vec(r, 101) + g.vec(r, 103))
                        if r == 1 and c == 1:
                            emit(op, "SV", "FV", 1, 1, 0, [g.scalar(), g.elem(97), g.elem(101), g.elem(103)])
                            emit(op, "SV", "SC", 1, 1, 0, [g.scalar(), g.elem(97), g.elem(101), g.elem(103)])
                            emit(op, "FM", "SC", 1, 1, 0, [g.scalar(), g.elem(97), g.elem(101), g.elem(103)])
                        if r <= 2 or c <= 2 or d == 0:
                            emit(op, "DM", "FV", r, c, 0, [g.scalar()] + M(r, c, 97) + g.vec(xs, 101) + g.vec(ys, 103))
                for (r, c) in dyn_shapes:
                    xs, ys = (c, r) if n_kind else (r, c)
                    emit(op, "DM", "DV", r, c, 0, [g.scalar()] + M(r, c, 97) + g.vec(xs, 101) + g.vec(ys, 103))
            # transposed wrappers: mv = wrapped mtv, mtv = wrapped mv
            for op in ("mv", "mtv"):
                for r in S:
                    for c in S:
                        xs, ys = (r, c) if op == "mv" else (c, r)
                        for rep2 in ("FV", "DV"):
                            emit(op, "TF", rep2, r, c, 0, [g.scalar()] + M(r, c, 97) + g.vec(xs, 101) + g.vec(ys, 103))
                    emit(op, "TG", "FV", r, r, 0, [g.scalar()] + g.vec(r, 97) + g.vec(r, 101) + g.vec(r, 103))
                for (r, c) in dyn_shapes:
                    xs, ys = (r, c) if op == "mv" else (c, r)
                    emit(op, "TD", "DV", r, c, 0, [g.scalar()] + M(r, c, 97) + g.vec(xs, 101) + g.vec(ys, 103))
            # ---------------- vectors
            vops = ["vadd", "vsub", "vplus", "vminus", "vneg", "vadds", "vsubs", "vscale", "vaxpy", "veq", "vdotT", "vdot"]
            for n in list(S) + ([6] if d == 0 else []):
                reps = [("DV", "DV")] if n > MAXN else [("FV", "FV"), ("FV", "DV"), ("DV", "DV"), ("DV", "FV")]
                for (rep, rep2) in reps:
                    for op in vops + (["fvmuls", "fvsmul"] if rep == "FV" else []):
                        x = g.vec(n, 101)
                        y = list(x) if (op == "veq" and rng.random() < 0.5) else g.vec(n, 103)
                        if op == "veq" and rng.random() < 0.3 and n > 1:
                            y = list(x); y[-1] = g.elem(103)
                        emit(op, rep, rep2, n, 0, 0, [g.scalar()] + x + y)
                    for op in ["vdiv"] + (["fvdivs"] if rep == "FV" else []):
                        dv = g.divisor()
                        x = [g.times(e, dv) for e in g.vec(n, 101)]
                        emit(op, rep, rep2, n, 0, 0, [g.dstr(dv)] + x + g.vec(n, 103))
            for op in ["vadd", "vsub", "vadds", "vsubs", "vscale", "vaxpy", "veq", "vdotT", "vdot", "vplus", "vminus"]:
                emit(op, "SW", "FV", 1, 0, 0, [g.scalar(), g.elem(101), g.elem(103)])
            dv = g.divisor()
            emit("vdiv", "SW", "FV", 1, 0, 0, [g.dstr(dv), g.times(g.elem(101), dv), g.elem(103)])
            # ---------------- matrices: vector space part, transposition, conversion
            mops = ["madd", "msub", "mscale", "maxpy", "meq", "mneg", "transposed"]
            for r in S:
                for c in S:
                    for (rep, rep2) in [("FM", "FM"), ("FM", "DM"), ("DM", "DM"), ("DM", "FM")]:
                        if rep == "FM" and rep2 == "DM" and r == 1 and c == 1:
                            continue        # does not compile: FieldMatrix<K,1,1>::operator+=(K) hides the matrix overload (see report)
                        if quick and rep != rep2 and (r + c + d) % 2:
                            continue
                        for op in mops + (["fmplus", "fmminus", "fmmuls", "fmsmul"] if (rep, rep2) == ("FM", "FM") else []):
                            a = M(r, c, 97)
                            b = list(a) if (op == "meq" and rng.random() < 0.5) else M(r, c, 103)
                            if op == "meq" and rng.random() < 0.3:
                                b = list(a); b[-1] = g.elem(103)
                            emit(op, rep, rep2, r, c, 0, [g.scalar()] + a + b)
                        for op in ["mdiv"] + (["fmdivs"] if (rep, rep2) == ("FM", "FM") else []):
                            dv = g.divisor()
                            emit(op, rep, rep2, r, c, 0, [g.dstr(dv)] + [g.times(e, dv) for e in M(r, c, 97)] + M(r, c, 103))
                    for (dst, src) in [("FM", "DM"), ("DM", "FM"), ("FM", "FM"), ("DM", "DM")]:
                        a = M(r, c, 97)
                        emit("assign", dst, src, r, c, 0, [g.scalar()] + a + a)
                    for rep in ("TF", "TD"):
                        a = M(r, c, 97)
                        emit("asdense", rep, rep, r, c, 0, [g.scalar()] + a + a)
                n = r
                for op in ["dgadd", "dgsub", "dgscale", "dgeq", "transposed"]:
                    a = g.vec(n, 97)
                    b = list(a) if (op == "dgeq" and rng.random() < 0.5) else g.vec(n, 103)
                    emit(op, "DG", "DG", n, n, 0, [g.scalar()] + a + b)
                dv = g.divisor()
                emit("dgdiv", "DG", "DG", n, n, 0, [g.dstr(dv)] + [g.times(e, dv) for e in g.vec(n, 97)] + g.vec(n, 103))
                a = g.vec(n, 97)
                emit("assign", "FM", "DG", n, n, 0, [g.scalar()] + a + a)
                emit("assign", "DM", "DG", n, n, 0, [g.scalar()] + a + a)
                emit("asdense", "TG", "TG", n, n, 0, [g.scalar()] + a + a)
            for op in ["madd", "msub", "mscale", "maxpy", "meq"]:
                emit(op, "SV", "FM", 1, 1, 0, [g.scalar(), g.elem(97), g.elem(103)])
            for (r, c) in dyn_shapes:
                if r > MAXN or c > MAXN:
                    for op in mops:
                        emit(op, "DM", "DM", r, c, 0, [g.scalar()] + M(r, c, 97) + M(r, c, 103))
            # ---------------- products
            for r in S:
                for c in S:
                    for p in S:
                        emit("mul", "FM", "FM", r, c, p, M(r, c, 97) + M(c, p, 101))
                        emit("mul", "FM", "TF", r, c, p, M(r, c, 97) + M(p, c, 101))
                        emit("leftmultiplyany", "FM", "FM", r, c, p, M(r, c, 97) + M(p, r, 101))
                        emit("rightmultiplyany", "FM", "FM", r, c, p, M(r, c, 97) + M(c, p, 101))
                        if (r + c + p + d) % 2 == 0 or not quick:
                            emit("mul", "FM", "TD", r, c, p, M(r, c, 97) + M(p, c, 101))
                            emit("mul", "DM", "TD", r, c, p, M(r, c, 97) + M(p, c, 101))
                            emit("mul", "DM", "TF", r, c, p, M(r, c, 97) + M(p, c, 101))
                    emit("mul", "FM", "DG", r, c, c, M(r, c, 97) + g.vec(c, 101))
                    emit("mul", "FM", "TG", r, c, c, M(r, c, 97) + g.vec(c, 101))
                    emit("mul", "DM", "TG", r, c, c, M(r, c, 97) + g.vec(c, 101))
                    emit("mul", "DG", "FM", r, r, c, g.vec(r, 97) + M(r, c, 101))
                    for (rep, rep2) in [("FM", "FM"), ("FM", "DM"), ("DM", "DM"), ("DM", "FM")]:
                        emit("leftmultiply", rep, rep2, r, c, 0, M(r, c, 97) + M(r, r, 101))
                        emit("rightmultiply", rep, rep2, r, c, 0, M(r, c, 97) + M(c, c, 101))
                emit("mul", "DG", "DG", r, r, r, g.vec(r, 97) + g.vec(r, 101))
            for (r, c) in dyn_shapes:
                if r > MAXN or c > MAXN:
                    emit("leftmultiply", "DM", "DM", r, c, 0, M(r, c, 97) + M(r, r, 101))
                    emit("rightmultiply", "DM", "DM", r, c, 0, M(r, c, 97) + M(c, c, 101))
                    emit("mul", "DM", "TD", r, c, (r + d) % 5 + 1, M(r, c, 97) + M((r + d) % 5 + 1, c, 101))
    cases += gen_extra(ctx)
    return cases


def gen_extra(ctx):
    """streams for the members / overloads / constructors / conversions / free functions that the kernel streams do not
    reach (mutants/C01/API_COVERAGE.md); harness/C01/impl_extra.hh, ops prefixed with x"""
    quick = ctx.quick
    draws = 1 if quick else 4
    cases = []
    S = range(1, MAXN + 1)
    for f in fields_of(ctx):
        rng = ctx.rng("genx", f)
        g = Gen(rng, f)
        src = Gen(rng, "Z")           # entries of the source field of cross-field operations (real / integer)

        def sel(e):
            return (e + ":0") if f == "C" else e

        def M(r, c, mark):
            k = rng.randrange(r * c) if (r * c and mark and rng.random() < 0.85) else -1
            return [g.elem(mark if i == k else None) for i in range(r * c)]

        def MS(r, c, mark):
            k = rng.randrange(r * c) if (r * c and mark) else -1
            return [sel(src.elem(mark if i == k else None)) for i in range(r * c)]

        def emit(op, rep, rep2, r, c, p, toks):
            cases.append(" ".join([f, op, rep, rep2, str(r), str(c), str(p)] + toks))

        dynv = [0, 1, 2, 5, 17, 40]
        dynm = [(1, 1), (2, 3), (3, 2), (1, 7), (6, 1), (9, 12), (12, 9), (2, 0)]
        for d in range(draws):
            # kernels on degenerate / large dynamic shapes (columns 0, 9x12, 12x9)
            for (r, c) in [(2, 0), (9, 12), (12, 9), (1, 15)]:
                for op in KERNELS:
                    xs, ys = (c, r) if op in NK else (r, c)
                    emit(op, "DM", "DV", r, c, 0, [g.scalar()] + M(r, c, 97) + g.vec(xs, 101) + g.vec(ys, 103))
                for op in ("mv", "mtv"):
                    xs, ys = (r, c) if op == "mv" else (c, r)
                    emit(op, "TD", "DV", r, c, 0, [g.scalar()] + M(r, c, 97) + g.vec(xs, 101) + g.vec(ys, 103))
            for n in [0, 17, 40]:
                for op in ["vadd", "vsub", "vplus", "vminus", "vneg", "vadds", "vsubs", "vscale", "vaxpy", "veq", "vdotT", "vdot"]:
                    emit(op, "DV", "DV", n, 0, 0, [g.scalar()] + g.vec(n, 101) + g.vec(n, 103))
            for (r, c) in [(9, 12), (12, 9), (2, 0)]:
                for op in ["madd", "msub", "mscale", "maxpy", "meq", "mneg"] + (["transposed"] if c else []):
                    emit(op, "DM", "DM", r, c, 0, [g.scalar()] + M(r, c, 97) + M(r, c, 103))
            for n in list(S) + [6]:
                for op in ("xselfleft", "xselfright"):
                    emit(op, "DM", "DM", n, n, 0, M(n, n, 97))
                    if n <= MAXN:
                        emit(op, "FM", "FM", n, n, 0, M(n, n, 97))
            emit("leftmultiply", "DM", "DM", 9, 12, 0, M(9, 12, 97) + M(9, 9, 101))
            emit("rightmultiply", "DM", "DM", 12, 9, 0, M(12, 9, 97) + M(9, 9, 101))
            # every pair of representations through the generic DenseMatrix paths, non-square receivers
            for r in S:
                for c in S:
                    if r != c:
                        for (rep, rep2) in [("FM", "FM"), ("FM", "DM"), ("DM", "DM"), ("DM", "FM")]:
                            emit("leftmultiply", rep, rep2, r, c, 0, M(r, c, 97) + M(r, r, 101))
                            emit("rightmultiply", rep, rep2, r, c, 0, M(r, c, 97) + M(c, c, 101))
            # fill / copy / move / conversion
            for n in S:
                emit("xfill", "FV", "FV", n, 0, 0, [g.scalar()] + g.vec(n, 101))
                emit("xfill", "DG", "DG", n, n, 0, [g.scalar()] + g.vec(n, 97))
                for (rep, rep2) in [("FV", "FV"), ("FV", "DV"), ("DV", "FV")]:
                    emit("xcopy", rep, rep2, n, 0, 0, [g.scalar()] + g.vec(n, 101))
                emit("xmcopy", "DG", "DG", n, n, 0, [g.scalar()] + g.vec(n, 97))
                emit("xdgadds", "DG", "DG", n, n, 0, [g.scalar()] + g.vec(n, 97))
                emit("xdgsubs", "DG", "DG", n, n, 0, [g.scalar()] + g.vec(n, 97))
                emit("xvaccess", "FV", "FV", n, 0, 0, [g.scalar()] + g.vec(n, 101) + g.vec(n, 103))
                emit("xmaccess", "DG", "DG", n, n, 0, [g.scalar()] + g.vec(n, 97) + g.vec(n, 103))
                emit("xdotfree", "FV", "FV", n, 0, 0, [g.scalar()] + g.vec(n, 101) + g.vec(n, 103))
                if f in ("Z", "D", "C"):
                    emit("xnorm", "FV", "FV", n, 0, 0, [g.scalar()] + g.vec(n, 101))
                    emit("xnorm", "DG", "DG", n, n, 0, [g.scalar()] + g.vec(n, 97))
                if f in ("D", "C"):
                    emit("xfield", "FV", "FV", n, 0, 0, [g.scalar()] + MS(1, n, 101))
                    for op in ["xmixdot", "xmixdotT", "xmixvadd", "xmixaxpy"] + (["xmixscale"] if not (f == "C" and n == 1) else []):
                        emit(op, "FV", "FV", n, 0, 0, [g.scalar()] + MS(1, n, 101) + g.vec(n, 103))
                    emit("xmixdg", "DG", "DG", n, n, 0, [g.scalar()] + MS(1, n, 97) + g.vec(n, 101))
                for c in S:
                    emit("xfill", "FM", "FM", n, c, 0, [g.scalar()] + M(n, c, 97))
                    emit("xmcopy", "FM", "FM", n, c, 0, [g.scalar()] + M(n, c, 97))
                    emit("xmaccess", "FM", "FM", n, c, 0, [g.scalar()] + M(n, c, 97) + M(n, c, 103))
                    emit("xtw", "FM", "FM", n, c, 0, [g.scalar()] + M(n, c, 97) + g.vec(n, 101) + g.vec(c, 103))
                    emit("xhelpmv", "FM", "FM", n, c, 0, [g.scalar()] + M(n, c, 97) + g.vec(c, 101) + g.vec(n, 103))
                    emit("xhelpmtv", "FM", "FM", n, c, 0, [g.scalar()] + M(n, c, 97) + g.vec(n, 101) + g.vec(c, 103))
                    emit("xhelpmtm", "FM", "FM", n, c, 0, [g.scalar()] + M(n, c, 97) + M(c, c, 103))
                    if f in ("Z", "D", "C"):
                        emit("xnorm", "FM", "FM", n, c, 0, [g.scalar()] + M(n, c, 97))
                    if f in ("D", "C"):
                        emit("xfield", "FM", "FM", n, c, 0, [g.scalar()] + MS(n, c, 97))
                        emit("xmixadd", "FM", "FM", n, c, 0, [g.scalar()] + MS(n, c, 97) + M(n, c, 103))
                        emit("xmixsub", "FM", "FM", n, c, 0, [g.scalar()] + MS(n, c, 97) + M(n, c, 103))
                        emit("xmixmscale", "FM", "FM", n, c, 0, [g.scalar()] + MS(n, c, 97))
                        emit("xmixumv", "FM", "FM", n, c, 0, [g.scalar()] + MS(n, c, 97) + MS(1, c, 101) + g.vec(n, 103))
                    for p in S:
                        if (n + c + p + d) % 2 == 0 or not quick:
                            emit("xhelpmult", "FM", "FM", n, c, p, [g.scalar()] + M(n, c, 97) + M(c, p, 101) + M(n, p, 103))
                            if f in ("D", "C"):
                                emit("xmixmul", "FM", "FM", n, c, p, [g.scalar()] + MS(n, c, 97) + M(c, p, 101))
            for n in dynv:
                emit("xvself", "DV", "DV", n, 0, 0, [g.scalar()] + g.vec(n, 101))
                if 1 <= n <= MAXN:
                    emit("xvself", "FV", "FV", n, 0, 0, [g.scalar()] + g.vec(n, 101))
                emit("xfill", "DV", "DV", n, 0, 0, [g.scalar()] + g.vec(n, 101))
                emit("xcopy", "DV", "DV", n, 0, 0, [g.scalar()] + g.vec(n, 101))
                emit("xvaccess", "DV", "DV", n, 0, 0, [g.scalar()] + g.vec(n, 101) + g.vec(n, 103))
                for m in [0, 1, n, n + 3]:
                    emit("xresize", "DV", "DV", n, m, 0, [g.scalar()] + g.vec(n, 101))
                if n:
                    emit("xdotfree", "DV", "DV", n, 0, 0, [g.scalar()] + g.vec(n, 101) + g.vec(n, 103))
                if f in ("Z", "D", "C"):
                    emit("xnorm", "DV", "DV", n, 0, 0, [g.scalar()] + g.vec(n, 101))
                if f in ("D", "C"):
                    emit("xfield", "DV", "DV", n, 0, 0, [g.scalar()] + MS(1, n, 101))
            for (r, c) in dynm:
                emit("xfill", "DM", "DM", r, c, 0, [g.scalar()] + M(r, c, 97))
                if c:
                    emit("xmcopy", "DM", "DM", r, c, 0, [g.scalar()] + M(r, c, 97))
                    emit("xmaccess", "DM", "DM", r, c, 0, [g.scalar()] + M(r, c, 97) + M(r, c, 103))
                    emit("xtw", "DM", "DM", r, c, 0, [g.scalar()] + M(r, c, 97) + g.vec(r, 101) + g.vec(c, 103))
                    emit("xhelpmvd", "DM", "DM", r, c, 0, [g.scalar()] + M(r, c, 97) + g.vec(c, 101) + g.vec(r, 103))
                    if f in ("Z", "D", "C"):
                        emit("xnorm", "DM", "DM", r, c, 0, [g.scalar()] + M(r, c, 97))
                    if f in ("D", "C"):
                        emit("xfield", "DM", "DM", r, c, 0, [g.scalar()] + MS(r, c, 97))
            # ---- dimension audit (mutants/C01/API_COVERAGE.md "Dimension audit")
            # aliasing: the scalar argument is an entry of the receiver; the matrix itself as the argument of += -= axpy ==
            for n in list(S) + [7]:
                for i0 in sorted(set([0, n - 1, rng.randrange(n)])):
                    dv = g.divisor()
                    e = g.vec(n, 101); e[i0] = "1:0" if f == "C" else "1"
                    x = [g.times(t, dv) for t in e]
                    if n <= MAXN:
                        emit("xvelem", "FV", "FV", n, 0, i0, [g.scalar()] + g.vec(n, 103) + x)
                        if n >= 2:
                            emit("xdelem", "DG", "DG", n, n, i0, [g.scalar()] + x)
                    emit("xvelem", "DV", "DV", n, 0, i0, [g.scalar()] + g.vec(n, 103) + x)
            for (r, c) in [(1, 1), (2, 2), (2, 3), (3, 2), (4, 4), (1, 4), (3, 1)]:
                p0 = rng.randrange(r * c)
                dv = g.divisor()
                e = M(r, c, 97); e[p0] = "1:0" if f == "C" else "1"
                a = [g.times(t, dv) for t in e]
                for rep in ("FM", "DM"):
                    emit("xmelem", rep, rep, r, c, p0, [g.scalar()] + M(r, c, 103) + a)
                    emit("xkelemN", rep, rep, r, c, rng.randrange(r), [g.scalar()] + M(r, c, 97) + g.vec(c, 101) + g.vec(r, 103))
                    emit("xkelemT", rep, rep, r, c, rng.randrange(c), [g.scalar()] + M(r, c, 97) + g.vec(r, 101) + g.vec(c, 103))
                    emit("xmself", rep, rep, r, c, 0, [g.scalar()] + M(r, c, 97))
                if r == c and r >= 2:
                    emit("xkelemN", "DG", "DG", r, r, rng.randrange(r), [g.scalar()] + g.vec(r, 97) + g.vec(r, 101) + g.vec(r, 103))
                    emit("xkelemT", "DG", "DG", r, r, rng.randrange(r), [g.scalar()] + g.vec(r, 97) + g.vec(r, 101) + g.vec(r, 103))
                    emit("xmself", "DG", "DG", r, r, 0, [g.scalar()] + g.vec(r, 97))
            # roles: x and y of different vector classes in every kernel
            for op in KERNELS:
                for (r, c) in [(1, 1), (2, 3), (3, 2), (4, 4)]:
                    xs, ys = (c, r) if op in NK else (r, c)
                    for rep2 in ("FD", "DF"):
                        emit(op, "FM", rep2, r, c, 0, [g.scalar()] + M(r, c, 97) + g.vec(xs, 101) + g.vec(ys, 103))
                        emit(op, "DM", rep2, r, c, 0, [g.scalar()] + M(r, c, 97) + g.vec(xs, 101) + g.vec(ys, 103))
                        if r == c:
                            emit(op, "DG", rep2, r, r, 0, [g.scalar()] + g.vec(r, 97) + g.vec(xs, 101) + g.vec(ys, 103))
            # histories (re-use after resize / move / refill, default arguments), allocator family
            for n in (1, 2, 5):
                emit("xhist", "DV", "DV", n, 0, 0, [g.scalar()] + g.vec(n, 101) + g.vec(n, 103))
                emit("xalloc", "DV", "DV", n, 0, 0, [g.scalar()] + g.vec(n, 101))
            for (r, c) in [(1, 1), (2, 3), (3, 2), (4, 1)]:
                emit("xhist", "DM", "DM", r, c, 0, [g.scalar()] + M(r, c, 97) + g.vec(c, 101) + g.vec(r, 103))
            # every in-place / mutating operation with every 1x1 / size-1 representation as the RECEIVER and as the argument
            # (owning FM/DM/FV/DV, views SV/SW, SC = view of a const scalar, SS = a second view of the receiver's own scalar)
            for rep in ("SV", "FM", "DM"):
                for rep2 in ("SV", "FM", "DM", "SC") + (("SS",) if rep == "SV" else ()):
                    for op in ("leftmultiply", "rightmultiply", "madd", "msub", "mscale", "maxpy", "meq", "mneg"):
                        emit("xr_" + op, rep, rep2, 1, 1, 0, [g.scalar(), g.elem(97), g.elem(101)])
                    dv = g.divisor()
                    emit("xr_mdiv", rep, rep2, 1, 1, 0, [g.dstr(dv), g.times(g.elem(97), dv), g.elem(101)])
            for rep in ("SW", "FV", "DV"):
                for rep2 in ("SW", "FV", "DV", "SC") + (("SS",) if rep == "SW" else ()):
                    for op in ("vadd", "vsub", "vaxpy", "vadds", "vsubs", "vscale", "veq", "vdotT", "vdot", "vplus", "vminus", "vneg"):
                        emit("xw_" + op, rep, rep2, 1, 0, 0, [g.scalar(), g.elem(101), g.elem(103)])
                    dv = g.divisor()
                    emit("xw_vdiv", rep, rep2, 1, 0, 0, [g.dstr(dv), g.times(g.elem(101), dv), g.elem(103)])
            # ---- round 6: the PRE-EXISTING STATE OF THE TARGET of an assignment / conversion (mutants/C01/API_COVERAGE.md "Round 6"):
            # every target class x every source class, the target holding other NON-ZERO entries everywhere and, for
            # DynamicMatrix / DynamicVector targets, another shape (more / fewer rows, more / fewer columns, 1x1, empty, transposed shape)
            cross = f in ("D", "C")

            def nz():
                if f == "C":
                    return "%d:%d" % (rng.choice([2, 3, 4, 5, 6, -2, -3]), rng.choice([1, 2, 3, -1, -2]))
                return str(rng.choice([1, 2, 3, 4, 5, 6, -1, -2, -3, -4, -5, -6]))

            def dirty(n):
                return [nz() for _ in range(n)]

            def preshapes(r, c):
                return [(r, c), (r + 1, c), (r, c + 2), (1, 1), (0, 0), (c + 1, r + 1), (max(r - 1, 1), c), (r, max(c - 1, 1)), (r + 2, c + 3), (2, 0)]
            rot = [0]

            def some_pre(r, c):
                ps = preshapes(r, c)
                if not quick:
                    return sorted(set(ps))
                rot[0] += 1
                return sorted(set([ps[0], ps[1 + rot[0] % 3], ps[4 + rot[0] % 6]]))
            for r in S:
                for c in S:
                    srcs = [("FM", lambda: M(r, c, 97)), ("DM", lambda: M(r, c, 97))]
                    if (r + c + d) % 2 == 0 or not quick:
                        srcs += [("TF", lambda: M(c, r, 97)), ("TD", lambda: M(c, r, 97))]
                    if cross:
                        srcs += [("XF", lambda: MS(r, c, 97)), ("XD", lambda: MS(r, c, 97))]
                    if r == c:
                        srcs += [("DG", lambda: g.vec(r, 97))] + ([("XG", lambda: MS(1, r, 97))] if cross else [])
                        if r >= 2:     # a diagonal with a zero entry and a target with exactly one non-zero off-diagonal entry
                            t0 = ["0:0" if f == "C" else "0"] * (r * r); t0[1] = nz()
                            dz = g.vec(r, 97); dz[rng.randrange(r)] = "0:0" if f == "C" else "0"
                            emit("xasgm", "FM", "DG", r, r, 0, [g.scalar()] + t0 + dz)
                    if r == 1 and c == 1:
                        srcs += [("SV", lambda: [g.elem(97)]), ("SC", lambda: [g.elem(97)])]
                    for (sk, mk) in srcs:
                        emit("xasgm", "FM", sk, r, c, 0, [g.scalar()] + dirty(r * c) + mk())
                        for (r0, c0) in some_pre(r, c):
                            emit("xasgm", "DM", sk, r, c, 100 * r0 + c0, [g.scalar()] + dirty(r0 * c0) + mk())
                    emit("xasgm", "FM", "K", r, c, 0, [g.scalar()] + dirty(r * c))
                    emit("xasgm", "DM", "K", r, c, 100 * r + c, [g.scalar()] + dirty(r * c))
                emit("xasgm", "DG", "DG", r, r, 0, [g.scalar()] + dirty(r) + g.vec(r, 97))
                emit("xasgm", "DG", "K", r, r, 0, [g.scalar()] + dirty(r))
            for ((r, c), (r0, c0)) in [((6, 6), (2, 3)), ((2, 0), (3, 3)), ((5, 1), (1, 5)), ((1, 7), (9, 7)), ((9, 12), (12, 9)), ((3, 3), (0, 0))]:
                emit("xasgm", "DM", "DM", r, c, 100 * r0 + c0, [g.scalar()] + dirty(r0 * c0) + M(r, c, 97))
                if c:
                    emit("xasgm", "DM", "TD", r, c, 100 * r0 + c0, [g.scalar()] + dirty(r0 * c0) + M(c, r, 97))
                    if cross:
                        emit("xasgm", "DM", "XD", r, c, 100 * r0 + c0, [g.scalar()] + dirty(r0 * c0) + MS(r, c, 97))
            emit("xasgm", "DM", "K", 2, 0, 200, [g.scalar()])
            emit("xasgm", "DM", "K", 0, 0, 0, [g.scalar()])
            for sk in ("K", "SV", "SC", "FM"):
                emit("xasgm", "SV", sk, 1, 1, 0, [g.scalar(), nz()] + ([] if sk == "K" else [g.elem(97)]))
                emit("xasgv", "SW", "FV" if sk == "FM" else ("SW" if sk == "SV" else sk), 1, 0, 0, [g.scalar(), nz()] + ([] if sk == "K" else [g.elem(101)]))
            for n in S:
                vs = [("FV", lambda: g.vec(n, 101)), ("DV", lambda: g.vec(n, 101))] + ([("XV", lambda: MS(1, n, 101)), ("XW", lambda: MS(1, n, 101))] if cross else [])
                if n == 1:
                    vs += [("SW", lambda: [g.elem(101)])]
                for (sk, mk) in vs:
                    emit("xasgv", "FV", sk, n, 0, 0, [g.scalar()] + dirty(n) + mk())
                    if sk != "XV":
                        for n0 in ([n, n + 2, 1, 0] if sk == "DV" else [n]):
                            emit("xasgv", "DV", sk, n, 0, n0, [g.scalar()] + dirty(n0) + mk())
                emit("xasgv", "FV", "K", n, 0, 0, [g.scalar()] + dirty(n))
                emit("xasgv", "DV", "K", n, 0, n, [g.scalar()] + dirty(n))
            for (n, n0) in [(0, 5), (7, 0), (17, 20), (20, 17), (5, 5)]:
                emit("xasgv", "DV", "DV", n, 0, n0, [g.scalar()] + dirty(n0) + g.vec(n, 101))
                if cross and n == n0:
                    emit("xasgv", "DV", "XW", n, 0, n0, [g.scalar()] + dirty(n0) + MS(1, n, 101))
            # 1x1 matrices / size-1 vectors used like scalars, scalar views
            for _ in range(3):
                for op in ["xfm11adds", "xfm11sadd", "xfm11subs", "xfm11ssub", "xfm11pluseq", "xfm11minuseq", "xfm11timeseq", "xfm11mpluseq", "xfm11conv"]:
                    emit(op, "FM", "FM", 1, 1, 0, [g.scalar(), g.elem(97), g.elem(103)])
                for op in ["xfv1adds", "xfv1sadd", "xfv1subs", "xfv1ssub", "xfv1muls", "xfv1smul", "xfv1conv"]:
                    emit(op, "FV", "FV", 1, 0, 0, [g.scalar(), g.elem(101), g.elem(103)])
                a = g.elem(101)
                emit("xfv1eq", "FV", "FV", 1, 0, 0, [rng.choice([a, g.scalar()]), a, rng.choice([a, g.elem(103)])])
                if f in ("Z", "D"):
                    a = g.elem()
                    emit("xfv1cmp", "FV", "FV", 1, 0, 0, [rng.choice([a, g.elem()]), a, rng.choice([a, g.elem(), g.elem(103)])])
                dv = g.divisor()
                emit("xfm11diveq", "FM", "FM", 1, 1, 0, [g.dstr(dv), g.times(g.elem(97), dv), g.elem(103)])
                emit("xfv1divs", "FV", "FV", 1, 0, 0, [g.dstr(dv), g.times(g.elem(101), dv), g.elem(103)])
                emit("xfv1sdiv", "FV", "FV", 1, 0, 0, [g.times(g.elem(101), dv), g.dstr(dv), g.elem(103)])
                emit("xview", "SV", "SV", 1, 1, 0, [g.scalar(), g.elem(97), g.elem(101), g.elem(103)])
                emit("xfill", "SW", "SW", 1, 0, 0, [g.scalar(), g.elem(101), g.elem(103)])
                emit("xfill", "SV", "SV", 1, 1, 0, [g.scalar(), g.elem(97), g.elem(103)])
    return cases


def parse_case(line):
    t = line.split()
    return t[0], t[1], t[2], t[3], int(t[4]), int(t[5]), int(t[6])


def sig_of(line):
    f, op, rep, rep2, r, c, p = parse_case(line)
    return "C01:%s:%s:%s" % (op, rep, rep2)


def size_of(line):
    f, op, rep, rep2, r, c, p = parse_case(line)
    if op.startswith("xasg"):          # p encodes the previous shape of the target
        return max(r, 1) * max(c, 1) + (p // 100) * (p % 100)
    return max(r, 1) * max(c, 1) * max(p, 1)


def oracle_line(impl, spec):
    """None if the algebraic definition (extracted spec) accepts the impl's observation, else the reason."""
    if impl == spec:
        return None
    mi = re.match(r"R=(\S*) A=(\S*) B=(\S*)$", impl)
    ms = re.match(r"R=(\S*) A=(\S*) B=(\S*)$", spec)
    if not mi:
        return "impl did not produce a result: %s" % impl[:200]
    if not ms:
        return "no spec value (%s)" % spec[:100]
    why = []
    if mi.group(1) != ms.group(1):
        why.append("result %s differs from the algebraic definition %s" % (mi.group(1), ms.group(1)))
    if mi.group(2) != ms.group(2):
        why.append("first operand after the call is %s, expected %s" % (mi.group(2), ms.group(2)))
    if mi.group(3) != ms.group(3):
        why.append("second (input-only) operand altered: %s, was %s" % (mi.group(3), ms.group(3)))
    return "; ".join(why)


def write_tu(ctx, fname, fid, r):
    gd = ctx.path("gen")
    os.makedirs(gd, exist_ok=True)
    p = os.path.join(gd, "tu_%s_%d.cc" % (fname, r))
    txt = "// generated by checks/C01.py\n#define C01_FIELD %d\n#define C01_ROWS %d\n#define C01_MAXN %d\n#include \"impl.hh\"\n" % (fid, r, MAXN)
    if not os.path.exists(p) or open(p).read() != txt:
        open(p, "w").write(txt)
    return p


def build_impls(ctx, keys, san=False):
    jobs, outs = [], {}
    for (f, r) in sorted(keys):
        src = write_tu(ctx, f, ALLFIELDS[f], r)
        out = ctx.path("impl%s_%s_%d" % ("_san" if san else "", f, r))
        outs[(f, r)] = out
        jobs.append(dict(srcs=[src], out=out, flags=["-I" + H], san=san, opt="-O0" if (ctx.quick and not san) else "-O1"))
    V.cxx_many(ctx, jobs)
    return outs


def run_split(ctx, exes, cases, tag):
    """run every case on the executable of its translation unit; returns the observation list in case order"""
    from concurrent.futures import ThreadPoolExecutor
    groups = {}
    for i, c in enumerate(cases):
        f, op, rep, rep2, r, cc, p = parse_case(c)
        groups.setdefault((f, tu_of(f, op, rep, rep2, r, cc, p)), []).append(i)
    res = [None] * len(cases)

    def one(key):
        idx = groups[key]
        if key not in exes:
            return key, ["NOT-RUN(no executable)"] * len(idx)
        return key, V.run_cases(ctx, [exes[key]], [cases[i] for i in idx], tag="%s_%s_%d" % (tag, key[0], key[1]), timeout=120)
    with ThreadPoolExecutor(max_workers=V.NCPU) as ex:
        for key, out in ex.map(one, sorted(groups)):
            for i, o in zip(groups[key], out):
                res[i] = o
    return res


def params_hook(ctx):
    V.sh([sys.executable, os.path.join(V.VERIF, "tools", "extract_params.py"), ctx.repo], check=True)


def run(ctx):
    ctx.params_hook = params_hook      # tokens of the kernels re-read from the source (tools/params.d/C01.py)
    V.coq_stage(ctx)
    model = V.build_model(ctx)
    cases = gen(ctx)
    ctx.log("generated %d cases" % len(cases))
    keys = set()
    for c in cases:
        f, op, rep, rep2, r, cc, p = parse_case(c)
        keys.add((f, tu_of(f, op, rep, rep2, r, cc, p)))
    exes = build_impls(ctx, keys)
    ctx.log("built %d impl translation units" % len(exes))
    probes = run_probes(ctx)
    san_keys = set() if ctx.quick else set(keys)      # ASan/UBSan variants of every translation unit in the thorough tier only
    san_exes = build_impls(ctx, san_keys, san=True)
    mo = V.run_cases(ctx, [model], cases, tag="model", timeout=900)
    io = run_split(ctx, exes, cases, "impl")
    san_idx = [i for i, c in enumerate(cases)
               if (lambda t: (t[0], tu_of(*t)) in san_keys)(parse_case(c))]
    so = run_split(ctx, san_exes, [cases[i] for i in san_idx], "san")

    ops, reps, fields, shapes = {}, {}, {}, {}
    viol = {}          # signature -> (size, replay)
    ndis = nrej = ndrift = 0
    for c, m, a in zip(cases, mo, io):
        f, op, rep, rep2, r, cc, p = parse_case(c)
        ops[op] = ops.get(op, 0) + 1
        reps[rep + "/" + rep2] = reps.get(rep + "/" + rep2, 0) + 1
        fields[f] = fields.get(f, 0) + 1
        shapes["%dx%dx%d" % (r, cc, p)] = shapes.get("%dx%dx%d" % (r, cc, p), 0) + 1
        mm, _, spec = m.partition(" | ")
        if mm != spec and a != mm:
            # the model differs from the definition AND does not predict the implementation: the model itself is off
            # (where the model is the literal transcription of a known defect, e.g. the view operator+ of F-C01-4, it differs
            # from the spec but agrees with the implementation: that case is judged by the oracle below like any other)
            ndrift += 1
            if ndrift <= 5:
                ctx.notes.append("model/spec mismatch on %s: %s vs %s" % (c, mm, spec))
                ctx.violation("corr:C01/model-vs-spec:%s" % op, {"broken": "theorem reading: extracted model and extracted spec differ",
                                                                   "case": c, "impl": a, "model": mm, "spec": spec}, found_input=False)
            if oracle_line(a, spec) is None:
                continue
        reason = oracle_line(a, spec)
        if reason is not None:
            nrej += 1
            sig = sig_of(c)
            if sig not in viol or size_of(c) < viol[sig][0]:
                viol[sig] = (size_of(c), {"case": c, "impl": a, "model": mm, "spec": spec, "oracle": reason,
                                          "replay_cmd": "bin/check C01 --replay <this file>"})
        elif a != mm:
            ndis += 1
            ctx.violation("corr:C01/%s" % op, {"broken": "corr:C01/%s" % op, "case": c, "impl": a, "model": mm, "oracle": "accepts impl output"},
                          found_input=False)
    # smallest failing shape per (op, representation pair); wrong results before crashes (a crash caused by heap
    # corruption may surface at a later case than the one that corrupted the heap)
    for sig, (sz, rep) in sorted(viol.items(), key=lambda kv: (not kv[1][1]["impl"].startswith("R="), kv[0])):
        ctx.violation(sig, rep)
    nsan = 0
    for j, i in enumerate(san_idx):
        a, s = io[i], so[j]
        if a != s and not (a.startswith("CRASH") and s.startswith("CRASH")):
            nsan += 1
            if nsan <= 20:
                ctx.violation(sig_of(cases[i]) + ":sanitizer", {"case": cases[i], "impl": a, "impl_sanitized_build": s,
                                                                "oracle": "ASan/UBSan build behaves differently or aborts"})
    distinct = len(set(c for c in cases if re.search(r"[1-9]", " ".join(c.split()[7:]))))
    ctx.coverage.update({
        "evaluations": len(cases), "distinct_nontrivial": distinct,
        "rule": "cases = corpus + for each field in %s, each operation of the shared interface, each representation (pair) and each shape "
                "r,c,p in 1..%d (DynamicMatrix/DynamicVector also up to 7): %d seeded value draws (small entries with forced zeros/units/negatives, "
                "one entry per operand marked by a distinct prime 97/101/103, exact-division operands for the division ops); "
                "plus the x-streams of the API-coverage audit (mutants/C01/API_COVERAGE.md): fill/copy/move/conversion between representations "
                "and field types, mixed-field arithmetic, 1x1 / size-1 scalar overloads, FMatrixHelp, integer-exact norms, const/non-const access "
                "and iterators, views, wrapper by value vs by reference, dynamic sizes 0/1/2/17/40 and 2x0/9x12/12x9; "
                "round 6 (xasgm / xasgv): every assignment / conversion target class x source class (incl. scalars, views, DiagonalMatrix, asDense() results, "
                "the other field type) INTO AN EXISTING OBJECT holding non-zero entries everywhere and, for DynamicMatrix / DynamicVector, another shape; "
                "non-trivial = some data entry non-zero; distinct = distinct case lines" % (sorted(FIELDS), MAXN, 2 if ctx.quick else 10),
        "samples": cases[:2] + cases[len(cases) // 3: len(cases) // 3 + 2] + cases[-2:],
        "op_distribution": ops, "representation_pairs": reps, "fields": fields, "shapes_hit": len(shapes),
        "translation_units": len(exes), "sanitizer_translation_units": len(san_exes), "sanitizer_cases": len(san_idx),
        "impl_model_disagreements": ndis, "oracle_rejections": nrej, "model_spec_mismatches": ndrift,
        "compile_probes": probes,
        "source_tokens": {k: v for k, v in json.load(open(os.path.join(V.VERIF, "build", "params_report.json"))).items() if k.startswith("c01_")},
        "exhaustive": False, "traces_validated_against_impl": len(cases),
    })
    ctx.assumptions += ["doubles / complex<double> hold integers of magnitude < 2^53 so that floating-point arithmetic is exact on the generated cases",
                        "the GF(p) number class harness/C01/gfp.hh is a faithful prime field",
                        "operands are loaded and results read through operator[] / diagonal() of the Dune classes"]


# --------------------------------------------------------------------------- compile probes
# Statements of the shared interface that must be accepted by the compiler in every representation (interchangeability
# at the type level).  ctl_* are positive controls of the probe machinery itself.
PROBES = [
    ("ctl_fm_assign_same_field", "FieldMatrix<double,2,3> A(0.0), B(1.0); A = B;"),
    ("ctl_fv_assign_other_field", "FieldVector<double,3> a(0.0); FieldVector<int,3> b(1); a = b;"),
    ("ctl_fm22_pluseq_dynamic", "FieldMatrix<int,2,2> A(0); DynamicMatrix<int> B(2,2,1); A += B; A -= B;"),
    ("ctl_fm_assign_dynamic_other_field", "FieldMatrix<double,2,3> A(0.0); DynamicMatrix<int> B(2,3,1); A = B;"),
    ("fm_assign_other_field", "FieldMatrix<double,2,3> A(0.0); FieldMatrix<int,2,3> B(1); A = B;"),
    ("fm11_pluseq_dynamic", "FieldMatrix<int,1,1> A(0); DynamicMatrix<int> B(1,1,1); A += B; A -= B;"),
    ("fm11_pluseq_fm11", "FieldMatrix<int,1,1> A(0), B(1); A += B; A -= B; A += 2; A -= 1;"),
    ("ctl_fv2_times_other_scalar", "FieldVector<double,2> x(1.0); std::complex<double> k(2,1); auto z = x * k; auto w = k * x; auto q = x / k;"),
    ("fv1_times_other_scalar", "FieldVector<double,1> x(1.0); std::complex<double> k(2,1); auto z = x * k; auto w = k * x; auto q = x / k;"),
    ("ctl_fv1_times_same_scalar", "FieldVector<double,1> x(1.0); FieldVector<double,1> z = x * 2.0; z = 2.0 * x; z = x / 2.0; double d = x * 2.0;"),
]


def run_probes(ctx):
    from concurrent.futures import ThreadPoolExecutor
    gd = ctx.path("gen")
    os.makedirs(gd, exist_ok=True)

    def one(pr):
        name, code = pr
        src = os.path.join(gd, "probe_%s.cc" % name)
        txt = ("#include <config.h>\n#include <complex>\n#include <dune/common/fvector.hh>\n#include <dune/common/fmatrix.hh>\n#include <dune/common/dynvector.hh>\n"
               "#include <dune/common/dynmatrix.hh>\n#include <dune/common/diagonalmatrix.hh>\nusing namespace Dune;\nvoid probe() { %s }\n" % code)
        open(src, "w").write(txt)
        try:
            V.cxx(ctx, [src], os.path.join(gd, "probe_%s.o" % name), repo_srcs=[], flags=["-fsyntax-only"], opt="-O0", timeout=300)
            return name, code, "COMPILES", ""
        except V.BuildError as e:
            m = re.search(r"error: (.*)", str(e))
            return name, code, "NOCOMPILE", (m.group(1)[:300] if m else str(e)[-300:])
    with ThreadPoolExecutor(max_workers=len(PROBES)) as ex:
        res = list(ex.map(one, PROBES))
    for name, code, o, err in res:
        if o != "COMPILES":
            if name.startswith("ctl_"):
                raise V.BuildError("compile probe control %s does not compile: %s" % (name, err))
            ctx.violation("C01:compile:%s" % name, {"case": "compile-probe " + name, "statement": code, "impl": o, "model": "COMPILES", "spec": "COMPILES",
                                                    "oracle": "a statement of the shared interface is rejected by the compiler: " + err})
    return {name: o for name, code, o, err in res}


def replay(ctx, path):
    rep = json.load(open(path))
    case = rep["case"]
    if case.startswith("compile-probe "):
        res = run_probes(ctx)
        name = case.split()[1]
        print("case  :", case); print("impl  :", res.get(name)); print("spec  : COMPILES")
        print("oracle:", "accepts" if res.get(name) == "COMPILES" else "rejects")
        return 0 if res.get(name) == "COMPILES" else 1
    f, op, r1, r2, r, c, p = parse_case(case)
    key = (f, tu_of(f, op, r1, r2, r, c, p))
    model = V.build_model(ctx)
    exes = build_impls(ctx, {key})
    mo = V.run_cases(ctx, [model], [case], tag="rmodel")
    io = V.run_cases(ctx, [exes[key]], [case], tag="rimpl", timeout=60)
    mm, _, spec = mo[0].partition(" | ")
    print("case  :", case); print("impl  :", io[0]); print("model :", mm); print("spec  :", spec)
    rr = oracle_line(io[0], spec)
    print("oracle:", rr or "accepts")
    return 1 if rr else 0
