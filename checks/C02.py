"""C02 — solve / invert / determinant return the solution, inverse and determinant (DESIGN.md section 4, C02)."""
import os, sys, re, json, itertools
import vcheck as V

META = {
    "level": "proof",
    "technique": "Coq proof (mathcomp: list-level LU model refines A*x=b / A*B=1 / \\det over every field, size and pivot rule) "
                 "+ extracted model (instantiated at Z mod p) vs C++ FieldMatrix/DynamicMatrix/DiagonalMatrix/FMatrixHelp over a GF(p) "
                 "number class, differential correspondence with an independent spec oracle",
    "text": "Theorems in coq/Properties_C02.v about the executable model coq/C02_Model.v (transcription of luDecomposition with its three "
            "functors, the closed forms n<=3, FMatrixHelp, DiagonalMatrix).  The model is tied to the current tree on every run: the same "
            "polymorphic model code instantiated with integers mod p in {7,13,31} is extracted and run against the C++ templates "
            "instantiated with a GF(p) class whose abs() is the representative (so pivot choices coincide), on constructed pivot/rank "
            "patterns, exhaustive small scopes and random matrices; oracle: A*x=b, A*B=B*A=I, determinant (independent Python "
            "elimination cross-checked against the Coq cofactor expansion), FMatrixError iff singular for n>=4, inputs unchanged.  "
            "Magnitude stream: the same model at the rationals (pivot test re-read from the source) against double / long double / float / "
            "complex<double> on matrices diag(2^e) A diag(2^f) on which the floating-point computation is exact, judged in exact rational "
            "arithmetic, plus bit-exact metamorphic scaling pairs (theorems C02_scaling_*).",
    "note": "Trusted: Coq kernel, extraction, OCaml driver, the GF(p) class and C++ harness, g++.  Floating-point backward error is a "
            "labelled TEST (thorough tier), not a theorem.  SIMD lanes are C09.",
    "design_ref": "DESIGN.md section 4 C02",
}

PS = [7, 13, 31]
H = os.path.join(V.VERIF, "harness", "C02")


# ----------------------------------------------------------------------------- independent oracle (Python, mod p)
def det_mod(A, p):
    """determinant by Gaussian elimination mod p (first non-zero pivot; independent of the model's max-abs rule)"""
    n = len(A); M = [r[:] for r in A]; d = 1
    for c in range(n):
        r = next((k for k in range(c, n) if M[k][c] % p), None)
        if r is None:
            return 0
        if r != c:
            M[c], M[r] = M[r], M[c]; d = -d
        d = d * M[c][c] % p
        inv = pow(M[c][c], p - 2, p)
        for k in range(c + 1, n):
            f = M[k][c] * inv % p
            if f:
                M[k] = [(x - f * y) % p for x, y in zip(M[k], M[c])]
    return d % p


def lead_minors_ok(A, p, upto):
    return all(det_mod([r[:k] for r in A[:k]], p) != 0 for k in range(1, upto + 1))


def mulmv(A, x, p):
    return [sum(a * b for a, b in zip(r, x)) % p for r in A]


def mulmm(A, B, p):
    n = len(A)
    return [[sum(A[i][k] * B[k][j] for k in range(n)) % p for j in range(n)] for i in range(n)]


def parse_case(c):
    t = c.split()
    p, kind, op, n, piv = int(t[0]), t[1], t[2], int(t[3]), int(t[4])
    v = [int(x) % p for x in t[5:]]
    if piv == 2:
        piv = 1                                       # 2 = the call uses the default argument doPivoting = true
    if kind in ("X", "Y", "Z", "W", "R", "V"):
        # matrices obtained by conversion / copy / move / swap (X, Y, Z, W), a resized DynamicMatrix with a history (R),
        # a ScalarMatrixView (V): same expectations as a plain FieldMatrix / DynamicMatrix
        kind = "F" if kind in ("X", "Z", "V") else "D"
    return p, kind, op, n, piv, v


def oracle(case, obs, chk=False):
    """None if the property accepts the observation `obs` of the impl on `case`, else (class, reason).
    chk: the build with DUNE_FMatrix_WITH_CHECKING (singular matrices must be reported for n <= 3 too)."""
    p, kind, op, n, piv, v = parse_case(case)
    if op == "nsq":
        return None                                   # non-square: outside the property (model comparison only)
    main, _, flag = obs.partition(" | ")
    if obs.startswith(("CRASH", "HANG", "NOT-RUN", "BAD-CASE", "UNKNOWN")):
        return ("crash", "impl did not return: %s" % obs)
    if op in ("solve", "det", "hinv", "hinvT", "solvedyn") and flag.strip() != "U":
        return ("inputs-modified", "A or b modified by %s: %s" % (op, obs))
    ok = main.startswith("OK")
    try:
        nums = [int(x) for x in main[2:].replace(";", " ").split()] if ok and op not in ("seqthrow", "hinvalias") else []
    except ValueError:
        return ("format", "unparsable: %s" % obs)
    if any(x < 0 or x >= p for x in nums):
        return ("format", "value outside [0,p): %s" % obs)
    if kind == "G":
        d = v[:n]; nz = all(x != 0 for x in d)
        if op == "det":
            e = 1
            for x in d: e = e * x % p
            return None if ok and nums == [e] else ("wrong-det", "diagonal determinant %s, expected %d" % (main, e))
        if not nz:
            return None                               # singular diagonal matrix: division by zero, property silent
        if not ok or len(nums) != n:
            return ("nonsingular-error", "nonsingular diagonal matrix but %s" % main)
        if op in ("solve", "solvedyn", "solvealias"):
            b = v[n:2 * n]
            return None if all(d[i] * nums[i] % p == b[i] for i in range(n)) else ("wrong-solution", "D x != b: x=%s" % nums)
        if op == "invert":
            return None if all(d[i] * nums[i] % p == 1 for i in range(n)) else ("wrong-inverse", "D * B != I: %s" % nums)
        return ("format", "unknown op")
    A = [v[i * n:(i + 1) * n] for i in range(n)]
    dA = det_mod(A, p)
    sing = dA == 0
    if op == "seq":
        return oracle_seq(p, n, piv, A, v[n * n:n * n + n], dA, obs, chk)
    if op == "hinvalias":
        return None                                   # invertMatrix(M, M): outside the documented contract, observed only
    if op == "seqthrow":
        return oracle_seqthrow(p, n, piv, A, v[n * n:n * n + n], dA, obs)
    if op in ("solvealias", "solverow"):
        # A.solve(x, x) / A.solve(x, A[0]): A x = (the right-hand side that was passed); A unchanged
        if flag.strip() != "U":
            return ("inputs-modified", "A modified by %s: %s" % (op, obs))
        b = v[n * n:n * n + n] if op == "solvealias" else A[0]
        if sing:
            if n >= 4:
                return None if main == "EXC FMatrixError" else ("singular-not-reported", "singular %dx%d matrix but %s" % (n, n, main))
            return None
        defined = piv or n <= 3 or lead_minors_ok(A, p, n)
        if not ok:
            if defined:
                return ("nonsingular-error", "nonsingular (det %d) and elimination defined, but %s" % (dA, main))
            return None if main == "EXC FMatrixError" else ("nonsingular-error", main)
        return None if len(nums) == n and mulmv(A, nums, p) == b else ("wrong-solution", "%s: A*x != b (x = %s, b = %s)" % (op, nums, b))
    if kind == "H":
        if sing:
            return None
        if not ok or len(nums) != 1 + n * n:
            return ("nonsingular-error", "nonsingular but %s" % main)
        B = [nums[1 + i * n:1 + (i + 1) * n] for i in range(n)]
        if op == "hinvT":
            B = [list(r) for r in zip(*B)]
        I = [[int(i == j) for j in range(n)] for i in range(n)]
        if nums[0] != dA:
            return ("wrong-det", "returned determinant %d, det A = %d" % (nums[0], dA))
        return None if mulmm(A, B, p) == I and mulmm(B, A, p) == I else ("wrong-inverse", "A*B != I")
    if op == "det":
        defined = piv or n <= 3 or lead_minors_ok(A, p, n - 1)
        if not defined:
            return None                               # unpivoted elimination undefined: property silent
        return None if ok and nums == [dA] else ("wrong-det", "determinant %s, det A = %d" % (main, dA))
    # solve / invert
    if sing:
        if n >= 4:
            return None if main == "EXC FMatrixError" else ("singular-not-reported", "singular %dx%d matrix but %s" % (n, n, main))
        return None                                   # n <= 3 singular: property silent (also for the optional checking build)
    defined = piv or n <= 3 or lead_minors_ok(A, p, n)
    if not ok:
        if defined:
            return ("nonsingular-error", "nonsingular (det %d) and elimination defined, but %s" % (dA, main))
        return None if main == "EXC FMatrixError" else ("nonsingular-error", "undefined unpivoted elimination gave %s" % main)
    if op == "solve":
        b = v[n * n:n * n + n]
        if len(nums) != n:
            return ("format", "wrong length")
        return None if mulmv(A, nums, p) == b else ("wrong-solution", "A*x != b (x = %s)" % nums)
    if op == "invert":
        if len(nums) != n * n:
            return ("format", "wrong length")
        B = [nums[i * n:(i + 1) * n] for i in range(n)]
        I = [[int(i == j) for j in range(n)] for i in range(n)]
        if mulmm(A, B, p) != I:
            return ("wrong-inverse", "A*B != I")
        return None if mulmm(B, A, p) == I else ("wrong-inverse", "B*A != I")
    return ("format", "unknown op")


def inv_mod(A, p):
    n = len(A); M = [r[:] + [int(i == j) for j in range(n)] for i, r in enumerate(A)]
    for c in range(n):
        r = next((k for k in range(c, n) if M[k][c] % p), None)
        if r is None:
            return None
        M[c], M[r] = M[r], M[c]
        iv = pow(M[c][c], p - 2, p)
        M[c] = [x * iv % p for x in M[c]]
        for k in range(n):
            if k != c and M[k][c]:
                f = M[k][c]
                M[k] = [(x - f * y) % p for x, y in zip(M[k], M[c])]
    return [r[n:] for r in M]


def oracle_seqthrow(p, n, piv, A, b, dA, obs):
    """invert (may throw), then determinant and solve on the same object"""
    parts = [q.strip() for q in obs.split(";")]
    if len(parts) != 3:
        return ("format", obs[:80])
    sing = dA == 0
    defined = piv or n <= 3 or lead_minors_ok(A, p, n)
    if parts[0].startswith("EXC"):
        if not sing and defined:
            return ("nonsingular-error", "seqthrow: nonsingular (det %d) but invert: %s" % (dA, parts[0]))
        if sing and n >= 4:
            if not parts[0].startswith("EXC FMatrixError"):
                return ("singular-not-reported", "seqthrow: singular but invert: %s" % parts[0])
            # the object must still be A: determinant 0, solve reports the singularity again
            if parts[1] != "OK 0":
                return ("wrong-det", "seqthrow: after the failed invert determinant gives %s (singular matrix: 0)" % parts[1])
            if parts[2] != "EXC FMatrixError":
                return ("singular-not-reported", "seqthrow: after the failed invert solve gives %s" % parts[2])
        return None
    if sing:
        return ("singular-not-reported", "seqthrow: singular matrix inverted: %s" % parts[0][:60]) if n >= 4 else None
    try:
        B = [int(x) for x in parts[0][2:].split()]
        Bm = [B[i * n:(i + 1) * n] for i in range(n)]
    except Exception:
        return ("format", obs[:80])
    I = [[int(i == j) for j in range(n)] for i in range(n)]
    if len(B) != n * n or mulmm(A, Bm, p) != I:
        return ("wrong-inverse", "seqthrow: A*B != I")
    if piv or n <= 3 or lead_minors_ok(Bm, p, n - 1):
        if parts[1] != "OK %d" % pow(dA, p - 2, p):
            return ("wrong-det", "seqthrow: determinant of the inverse %s, expected %d" % (parts[1], pow(dA, p - 2, p)))
    if parts[2].startswith("OK"):
        x = [int(t) for t in parts[2][2:].split()]
        if mulmv(Bm, x, p) != b:
            return ("wrong-solution", "seqthrow: solve with the inverted object: B*x != b")
    elif piv or n <= 3 or lead_minors_ok(Bm, p, n):
        return ("nonsingular-error", "seqthrow: solve with the (regular) inverted object: %s" % parts[2])
    return None


def oracle_seq(p, n, piv, A, b, dA, obs, chk):
    """det, solve, invert, det of the inverse, invert back, solve again on one object"""
    main, _, flag = obs.partition(" | ")
    sing = dA == 0
    defined = piv or n <= 3 or lead_minors_ok(A, p, n)
    if main.startswith("EXC"):
        if sing:
            if n >= 4:
                return None if main == "EXC FMatrixError @solve" else ("singular-not-reported", "singular: expected FMatrixError from solve, got %s" % main)
            return None
        if defined:
            Bi = inv_mod(A, p)
            if main == "EXC FMatrixError @invert2" and not piv and n >= 4 and not lead_minors_ok(Bi, p, n):
                return None                           # unpivoted elimination of A^-1 undefined: property silent
            return ("nonsingular-error", "nonsingular (det %d), elimination defined, but %s" % (dA, main))
        return None if main.startswith("EXC FMatrixError") else ("nonsingular-error", main)
    if sing:
        return ("singular-not-reported", "singular matrix went through: %s" % main) if n >= 4 else None
    try:
        parts = [[int(x) for x in q.split()] for q in main[2:].split(";")]
        d, x, B, d2, x2 = parts[0], parts[1], parts[2], parts[3], parts[4]
    except Exception:
        return ("format", "unparsable seq: %s" % obs)
    if not defined and not lead_minors_ok(A, p, n - 1):
        d = [dA]                                      # unpivoted determinant undefined: property silent
    I = [[int(i == j) for j in range(n)] for i in range(n)]
    Bm = [B[i * n:(i + 1) * n] for i in range(n)]
    if d != [dA]:
        return ("wrong-det", "seq: det %s, det A = %d" % (d, dA))
    if mulmv(A, x, p) != b:
        return ("wrong-solution", "seq: A*x != b")
    if len(B) != n * n or mulmm(A, Bm, p) != I or mulmm(Bm, A, p) != I:
        return ("wrong-inverse", "seq: A*B != I")
    if piv or lead_minors_ok(Bm, p, n - 1) or n <= 3:
        if (d2[0] * dA) % p != 1 % p:
            return ("wrong-det", "seq: det(A^-1) * det A != 1")
    if mulmv(A, x2, p) != b:
        return ("wrong-solution", "seq: after invert;invert the solution of A x = b is wrong (object state corrupted)")
    if flag.strip() != "U":
        return ("state", "seq: invert;invert did not restore A (or b modified)")
    return None


def sig_of(case, cls):
    p, kind, op, n, piv, v = parse_case(case)
    size = "n<=3" if n <= 3 else "n>=4"
    return "C02:%s:%s:%s:%s" % (op, case.split()[1], size, cls)


# ----------------------------------------------------------------------------- generator
def fmt(p, kind, op, n, piv, vals):
    return "%d %s %s %d %d %s" % (p, kind, op, n, piv, " ".join(str(x % p) for x in vals))


def plu(rng, n, p, perm, zero_diag, sparse=0.0):
    """P^T * L * U with unit lower L, upper U whose diagonal is zero exactly at the positions zero_diag."""
    L = [[(1 if i == j else (rng.randrange(p) if j < i and rng.random() >= sparse else 0)) for j in range(n)] for i in range(n)]
    U = [[(0 if j < i else (0 if (i == j and i in zero_diag) else (rng.randrange(1, p) if i == j else (rng.randrange(p) if rng.random() >= sparse else 0))))
          for j in range(n)] for i in range(n)]
    M = mulmm(L, U, p)
    return [M[perm[i]] for i in range(n)]


def gen(ctx):
    quick = ctx.quick
    cases = []
    cp = os.path.join(V.VERIF, "corpus", "C02", "cases.txt")
    if os.path.exists(cp):
        cases += [l.strip() for l in open(cp) if l.strip() and not l.startswith("#")]
    rng = ctx.rng("gen")
    flat = lambda A: [x for r in A for x in r]

    def dense_ops(p, kind, n, A, pivs=(0, 1)):
        out = []
        for piv in pivs:
            b = [rng.randrange(p) for _ in range(n)]
            out.append(fmt(p, kind, "solve", n, piv, flat(A) + b))
            out.append(fmt(p, kind, "invert", n, piv, flat(A)))
            out.append(fmt(p, kind, "det", n, piv, flat(A)))
        return out
    # (1) exhaustive small scopes: n = 1 all of GF(7); n = 2 all matrices over GF(7) (quick: over {0,1,2,6}); n = 3 over {0,1} (thorough {0,1,6})
    for a in range(7):
        cases += dense_ops(7, "F", 1, [[a]], pivs=(1,))
        cases += [fmt(7, "H", "hinv", 1, 0, [a]), fmt(7, "H", "hinvT", 1, 0, [a])]
    al2 = [0, 1, 2, 6] if quick else list(range(7))
    for t in itertools.product(al2, repeat=4):
        A = [list(t[:2]), list(t[2:])]
        cases += dense_ops(7, "F" if sum(t) % 2 else "D", 2, A, pivs=(1,))
        cases += [fmt(7, "H", "hinv", 2, 0, t), fmt(7, "H", "hinvT", 2, 0, t)]
    al3 = [0, 1] if quick else [0, 1, 6]
    for t in itertools.product(al3, repeat=9):
        A = [list(t[0:3]), list(t[3:6]), list(t[6:9])]
        cases += dense_ops(7, "F" if sum(t) % 2 else "D", 3, A, pivs=(sum(t) % 2,))
        cases += [fmt(7, "H", "hinv" if t[0] else "hinvT", 3, 0, t)]
    # (2) n = 4: every row permutation x rank pattern (zero pivots at chosen elimination steps), dense and sparse factors
    zsets = [(), (0,), (1,), (2,), (3,), (1, 3), (0, 2)] if quick else [z for k in range(0, 3) for z in itertools.combinations(range(4), k)]
    for perm in itertools.permutations(range(4)):
        for z in zsets:
            for rep in range(1 if quick else 3):
                p = PS[(sum(perm) + len(z) + rep + perm[0]) % 3]
                A = plu(rng, 4, p, perm, set(z), sparse=0.0 if rep == 0 else 0.5)
                cases += dense_ops(p, "F" if (perm[0] + rep) % 2 else "D", 4, A)
    # (3) n = 4 matrices over {0,1} (many zero pivots, many singular): sample / all
    al4 = list(itertools.product([0, 1], repeat=16))
    pick = rng.sample(al4, 1500) if quick else al4[::3]
    for t in pick:
        A = [list(t[4 * i:4 * i + 4]) for i in range(4)]
        kind = "F" if t[5] else "D"
        op = ("solve", "invert", "det")[sum(t) % 3]
        piv = t[3] ^ t[12]
        cases.append(fmt(7, kind, op, 4, piv, list(t) + ([rng.randrange(7) for _ in range(4)] if op == "solve" else [])))
    # (4) random and constructed n = 1..N over the three fields
    N = 6 if quick else 8
    R = 60 if quick else 500
    for n in range(1, N + 1):
        for p in PS:
            for r in range(R):
                z = rng.random()
                if z < 0.35:
                    A = [[rng.randrange(p) for _ in range(n)] for _ in range(n)]
                elif z < 0.55:                     # sparse
                    A = [[(rng.randrange(p) if rng.random() < 0.4 else 0) for _ in range(n)] for _ in range(n)]
                elif z < 0.85:                     # constructed P^T L U with a chosen set of zero pivots
                    perm = list(range(n)); rng.shuffle(perm)
                    zs = set(i for i in range(n) if rng.random() < (0.25 if rng.random() < 0.5 else 0.0))
                    A = plu(rng, n, p, perm, zs, sparse=rng.choice([0.0, 0.3, 0.6]))
                elif z < 0.93:                     # rank-deficient by a repeated / combined row
                    A = [[rng.randrange(p) for _ in range(n)] for _ in range(n)]
                    if n > 1:
                        i, j = rng.sample(range(n), 2)
                        c = rng.randrange(p)
                        A[i] = [(c * x) % p for x in A[j]]
                else:                              # scaled permutation matrix
                    perm = list(range(n)); rng.shuffle(perm)
                    A = [[(rng.randrange(1, p) if perm[i] == j else 0) for j in range(n)] for i in range(n)]
                kind = "D" if (n > 6 or rng.random() < 0.5) else "F"
                cases += dense_ops(p, kind, n, A)
                if n <= 3 and r % 3 == 0:
                    cases += [fmt(p, "H", "hinv", n, 0, flat(A)), fmt(p, "H", "hinvT", n, 0, flat(A))]
    # (5) DiagonalMatrix
    for n in range(1, 7):
        for p in PS:
            for r in range(10 if quick else 60):
                d = [(0 if rng.random() < 0.08 else rng.randrange(1, p)) for _ in range(n)]
                b = [rng.randrange(p) for _ in range(n)]
                cases += [fmt(p, "G", "solve", n, 0, d + b), fmt(p, "G", "invert", n, 0, d), fmt(p, "G", "det", n, 0, d)]
    # (6) non-square DynamicMatrix: FMatrixError from all three
    for r, c in [(2, 3), (4, 5), (5, 4), (1, 2)]:
        cases.append("7 D nsq %d %d" % (r, c))
    for r, c in [(2, 3), (3, 2), (1, 2), (4, 5)]:
        cases.append("7 F nsq %d %d" % (r, c))

    # ---- API-coverage streams (mutants/C02/API_COVERAGE.md)
    def rmat(n, p):
        z = rng.random()
        if z < 0.4:
            return [[rng.randrange(p) for _ in range(n)] for _ in range(n)]
        if z < 0.6:
            return [[(rng.randrange(p) if rng.random() < 0.4 else 0) for _ in range(n)] for _ in range(n)]
        perm = list(range(n)); rng.shuffle(perm)
        zs = set(i for i in range(n) if rng.random() < (0.25 if rng.random() < 0.4 else 0.0))
        return plu(rng, n, p, perm, zs, sparse=rng.choice([0.0, 0.3, 0.6]))
    R2 = 12 if quick else 80
    for n in range(1, 7):
        for p in PS:
            for r in range(R2):
                A = rmat(n, p)
                # (7) calls that use the DEFAULT argument (piv token 2)
                cases += dense_ops(p, "F" if r % 2 else "D", n, A, pivs=(2,))
                # (8) matrices obtained by converting constructor / assignment / copy, mixed vector types in solve
                cases += dense_ops(p, "X" if r % 2 else "Y", n, rmat(n, p))
                # (9) multi-step history on one object: det, solve, invert, det, invert, solve
                for kind in ("F", "D", "X", "Y")[r % 4:r % 4 + 1]:
                    A2 = rmat(n, p)
                    for piv in (0, 1):
                        cases.append(fmt(p, kind, "seq", n, piv, flat(A2) + [rng.randrange(p) for _ in range(n)]))
    # ---- dimension audit streams (mutants/C02/API_COVERAGE.md, "Dimension audit")
    R3 = 8 if quick else 60
    for n in range(1, 7):
        for p in PS:
            for r in range(R3):
                A = rmat(n, p); b = [rng.randrange(p) for _ in range(n)]
                kF, kD = ("F", "D") if r % 2 else ("D", "F")
                for piv in (0, 1):
                    # (11) aliasing: A.solve(x, x); the right-hand side is a row of the receiver
                    cases.append(fmt(p, kF, "solvealias", n, piv, flat(A) + b))
                    cases.append(fmt(p, kD, "solverow", n, piv, flat(A)))
                # (12) special members: self-assignment, move construction / assignment, swap
                cases += dense_ops(p, "Z" if r % 2 else "W", n, rmat(n, p), pivs=(r % 2,))
                # (13) histories: a DynamicMatrix used at size 3, resized, refilled; an object re-used after a throwing invert
                cases += dense_ops(p, "R", n, rmat(n, p), pivs=(1 - r % 2,))
                A3 = rmat(n, p)
                cases.append(fmt(p, kF, "seqthrow", n, r % 2, flat(A3) + [rng.randrange(p) for _ in range(n)]))
    for p in PS:                                       # (14) roles: ScalarMatrixView as receiver; DiagonalMatrix with DynamicVector / aliased
        for a in range(p if p == 7 else 4):
            cases += [fmt(p, "V", "solve", 1, 1, [a, rng.randrange(p)]), fmt(p, "V", "invert", 1, 1, [a]), fmt(p, "V", "det", 1, 1, [a]),
                      fmt(p, "V", "solvealias", 1, 1, [a, rng.randrange(p)])]
        for n in range(1, 7):
            for r in range(3 if quick else 20):
                d = [(0 if rng.random() < 0.08 else rng.randrange(1, p)) for _ in range(n)]
                bb = [rng.randrange(p) for _ in range(n)]
                cases += [fmt(p, "G", "solvedyn", n, 0, d + bb), fmt(p, "G", "solvealias", n, 0, d + bb)]
        for n in (1, 2, 3):
            for r in range(4):
                cases.append(fmt(p, "H", "hinvalias", n, 0, flat(rmat(n, p))))
    # (10) larger sizes (DynamicMatrix): n = 12, 16
    for n in (12, 16):
        for r in range(4 if quick else 20):
            p = PS[r % 3]
            A = rmat(n, p)
            cases += dense_ops(p, "D", n, A)
            cases.append(fmt(p, "D", "seq", n, 1, flat(A) + [rng.randrange(p) for _ in range(n)]))
    return cases


def build(ctx, san=False):
    sc = lambda out, opt, extra: dict(srcs=[os.path.join(H, "scale.cc")], out=ctx.path(out), opt=opt, flags=["-I" + H] + extra)
    jobs = [dict(srcs=[os.path.join(H, "impl.cc")], out=ctx.path("impl"), opt="-O2", flags=["-I" + H]),
            dict(srcs=[os.path.join(H, "impl.cc")], out=ctx.path("impl_chk"), opt="-O1", flags=["-I" + H, "-DDUNE_FMatrix_WITH_CHECKING"])]
    if san:
        jobs.append(dict(srcs=[os.path.join(H, "impl.cc")], out=ctx.path("impl_san"), san=True, flags=["-I" + H]))
    # all translation units are independent: one pool (the impl drivers first, callers index them from the front)
    jobs += [sc("scale", "-O2", []),
             dict(srcs=[os.path.join(H, "simd.cc")], out=ctx.path("simd"), opt="-O1", flags=["-I" + H]),
             sc("scale_chk", "-O1", ["-DDUNE_FMatrix_WITH_CHECKING"])]
    from concurrent.futures import ThreadPoolExecutor
    deep = None
    with ThreadPoolExecutor(max_workers=1) as ex:
        fdeep = ex.submit(V.cxx, ctx, [os.path.join(H, "deep.cc")], ctx.path("deep"), opt="-O1", flags=["-I" + H])
        outs = V.cxx_many(ctx, jobs)
        ctx.simd_exe = outs[-2]
        ctx.scale_exes = [outs[-3], outs[-1]]
        try:
            deep = fdeep.result()
        except V.BuildError as e:
            ctx.notes.append("deep harness (luDecomposition internals) does not compile against this tree: deep stream skipped")
    return outs, deep


def lu_case(c):
    """the deep-stream case (op lu) for a dense case"""
    t = c.split()
    n = int(t[3])
    return " ".join(t[:2] + ["lu"] + t[3:5] + t[5:5 + n * n])


def judge(ctx, cases, mo, io, limit=200, chk=False):
    stats = {"oracle_rejections": 0, "impl_model_disagreements": 0, "spec_cross_check_mismatch": 0}
    if chk:
        stats["singular_n<=3_observed_not_judged"] = {}
    for c, m, a in zip(cases, mo, io):
        mm, _, rest = m.partition(" # ")
        specdet, _, asis = rest.partition(" # asis ")
        if asis and not chk:
            stats["aliased_solve_cases"] = stats.get("aliased_solve_cases", 0) + 1
            if a.split(" | ")[0] == asis:
                stats["aliased_solve_impl_equals_asis_model"] = stats.get("aliased_solve_impl_equals_asis_model", 0) + 1
            if a.split(" | ")[0] == mm.split(" | ")[0]:
                stats["aliased_solve_impl_equals_patched_model"] = stats.get("aliased_solve_impl_equals_patched_model", 0) + 1
        if c.split()[2] == "hinvalias":
            h = stats.setdefault("hinvalias_observed_not_judged", {})
            k = "n=%s %s" % (c.split()[3], "EXC" if a.startswith("EXC") else "numbers")
            h[k] = h.get(k, 0) + 1
            continue
        if chk:
            # the optional DUNE_FMatrix_WITH_CHECKING mode for n <= 3 is outside the property: singular inputs of size <= 3
            # are recorded (what the impl did), never judged and never compared with the model
            p_, k_, op_, n_, piv_, v_ = parse_case(c)
            if n_ <= 3 and det_mod([v_[i * n_:(i + 1) * n_] for i in range(n_)], p_) == 0:
                key = "%s n=%d: %s" % (op_, n_, " ".join(a.split(" | ")[0].split()[:2]) if a.startswith("EXC") else "numbers")
                h = stats["singular_n<=3_observed_not_judged"]
                h[key] = h.get(key, 0) + 1
                continue
        r = oracle(c, a, chk)
        if r is not None:
            stats["oracle_rejections"] += 1
            if stats["oracle_rejections"] <= limit:
                ctx.violation(sig_of(c, r[0]), {"case": c, "impl": a, "model": mm, "oracle": r[1], "mode": "chk" if chk else "default",
                                                "replay_cmd": "bin/check C02 --replay <this file>"})
        elif a != mm:
            stats["impl_model_disagreements"] += 1
            if stats["impl_model_disagreements"] <= 20:
                ctx.violation("corr:C02/%s" % c.split()[2], {"broken": "corr:C02/%s" % c.split()[2], "case": c, "impl": a, "model": mm,
                                                             "oracle": "accepts impl output"}, found_input=False)
        # the model itself must satisfy the oracle (sanity of the reading of the theorems) and the Coq spec
        # determinant must agree with the Python one
        rm = oracle(c, mm, chk)
        if rm is not None:
            ctx.notes.append("MODEL rejected by oracle on %s: %s" % (c, rm[1]))
            ctx.violation("model:C02/oracle", {"broken": "model violates the spec oracle", "case": c, "model": mm, "oracle": rm[1]}, found_input=False)
        if specdet and specdet.strip() != "-":
            p, kind, op, n, piv, v = parse_case(c)
            A = [[(v[i] if i == j else 0) for j in range(n)] for i in range(n)] if kind == "G" else [v[i * n:(i + 1) * n] for i in range(n)]
            if int(specdet) != det_mod(A, p):
                stats["spec_cross_check_mismatch"] += 1
                ctx.violation("oracle:C02/specdet", {"broken": "Python oracle determinant != Coq cofactor spec", "case": c, "coq": specdet}, found_input=False)
    return stats



# ----------------------------------------------------------------------------- the field-level instance of the model
# The theorems are about the model instantiated with a mathcomp fieldType (c02_fops); the bulk correspondence runs the
# same Gallina code instantiated with integers mod p (c02_zp, extracted).  This stage evaluates the FIELD-LEVEL instance
# itself ('F_p, absr = representative) by vm_compute on a boundary-directed subsample and compares it with the extracted
# instance: a per-run test of the parametricity link between the two instances.
def field_cases_v(sel):
    """sel: list of case lines (kinds F/D/X/Y, ops solve/invert/det, p in 7,13,31)"""
    L = ["From mathcomp Require Import all_ssreflect all_algebra.",
         "From DuneV Require Import C02_Model C02_Spec.", "Import GRing.Theory.", "Local Open Scope ring_scope.",
         "Definition c02f_abs (p : nat) (x : 'F_p) : nat := x.",
         "Definition c02f_M (p : nat) (l : seq (seq nat)) : seq (seq 'F_p) := map (map (fun k : nat => k%:R)) l.",
         "Definition c02f_V (p : nat) (l : seq nat) : seq 'F_p := map (fun k : nat => k%:R) l.",
         "Definition c02f_ov (p : nat) (r : c02_res (seq 'F_p)) : nat * seq nat := match r with C02_Ok x => (0%N, map (@nat_of_ord _) x) | C02_FMatrixError => (1%N, [::]) | C02_DivByZero => (2%N, [::]) end.",
         "Definition c02f_om (p : nat) (r : c02_res (seq (seq 'F_p))) : nat * seq nat := match r with C02_Ok x => (0%N, map (@nat_of_ord _) (flatten x)) | C02_FMatrixError => (1%N, [::]) | C02_DivByZero => (2%N, [::]) end.",
         "Definition c02f_o1 (p : nat) (r : c02_res 'F_p) : nat * seq nat := match r with C02_Ok x => (0%N, [:: nat_of_ord x]) | C02_FMatrixError => (1%N, [::]) | C02_DivByZero => (2%N, [::]) end."]
    for c in sel:
        t = c.split(); p, op, n, piv = int(t[0]), t[2], int(t[3]), t[4] != "0"
        v = [int(x) % p for x in t[5:]]
        A = "[:: " + "; ".join("[:: " + "; ".join(str(x) for x in v[i * n:(i + 1) * n]) + "]" for i in range(n)) + "]%N"
        b = "[:: " + "; ".join(str(x) for x in v[n * n:n * n + n]) + "]%N"
        pv = "true" if piv else "false"
        ops = "(c02_fops (@c02f_abs %d))" % p
        if op == "solve":
            L.append("Eval vm_compute in c02f_ov %d (c02_solve %s (c02f_M %d %s) (c02f_V %d %s) %s)." % (p, ops, p, A, p, b, pv))
        elif op == "invert":
            L.append("Eval vm_compute in c02f_om %d (c02_invert %s (c02f_M %d %s) %s)." % (p, ops, p, A, pv))
        else:
            L.append("Eval vm_compute in c02f_o1 %d (c02_determinant %s (c02f_M %d %s) %s)." % (p, ops, p, A, pv))
    return "\n".join(L) + "\n"
def parse_out(out):
    res = []
    for m in re.finditer(r"=\s*\((\d+),\s*(\[::[^\]]*\]|\[::\]|nil)\)", out.replace("\n", " ").replace("%N", "")):
        nums = [int(x) for x in re.findall(r"\d+", m.group(2).replace("[::", ""))]
        res.append((int(m.group(1)), nums))
    return res
def model_obs(line):
    main = line.split(" # ")[0].split(" | ")[0]
    if main.startswith("OK"): return (0, [int(x) for x in main[2:].split()])
    return (1, []) if "FMatrixError" in main else (2, [])


def field_instance_stage(ctx, cases, mo):
    idx = [i for i, c in enumerate(cases) if c.split()[1] in "FDXY" and c.split()[2] in ("solve", "invert", "det")
           and c.split()[4] in "01" and int(c.split()[3]) <= 6]
    # boundary-directed: all corpus cases, then an even spread preferring n >= 4
    big = [i for i in idx if int(cases[i].split()[3]) >= 4]
    small = [i for i in idx if int(cases[i].split()[3]) < 4]
    k1, k2 = (150, 60) if ctx.quick else (1200, 300)
    pick = sorted(set(idx[:13] + big[::max(1, len(big) // k1)] + small[::max(1, len(small) // k2)]))
    vf = ctx.path("field_cases.v")
    open(vf, "w").write(field_cases_v([cases[i] for i in pick]))
    for attempt in range(4):
        rc, out = V.sh(["coqc", "-Q", V.COQ, "DuneV", "-w", "none", vf], cwd=ctx.build, timeout=900)
        if rc == 0 or "inconsistent assumptions" not in out:
            break
        # a concurrent check of ANOTHER tree regenerated coq/Params_gen.v between our Coq stage and this one (shared coq/
        # directory): regenerate it for our tree, rebuild the model and try again — this is not a verdict about the property
        ctx.notes.append("field-instance stage: Params_gen.vo changed under us (concurrent run), rebuilt and retried (%d)" % (attempt + 1))
        params_hook(ctx)
        V.coq_make(["C02_Spec.vo"])
    got = parse_out(out) if rc == 0 else []
    bad = 0
    if rc != 0 or len(got) != len(pick):
        ctx.violation("corr:C02/field-instance", {"broken": "corr:C02/field-instance (coqc on the generated field_cases.v failed or printed %d of %d results)" % (len(got), len(pick)),
                                                  "log": out[-1500:]}, found_input=False)
    else:
        for i, g in zip(pick, got):
            if g != model_obs(mo[i]):
                bad += 1
                if bad <= 3:
                    ctx.violation("corr:C02/field-instance", {"broken": "corr:C02/field-instance: the model at 'F_p (theorem instance) and at Z mod p (extracted instance) differ",
                                                              "case": cases[i], "field_instance": str(g), "zp_instance": mo[i]}, found_input=False)
    ctx.coverage["field_instance_cases"] = len(pick)
    ctx.coverage["field_instance_disagreements"] = bad
    return len(pick)


# ----------------------------------------------------------------------------- SIMD field types (lanes)
# FieldMatrix<LoopSIMD<double,L>,n,n> / DynamicMatrix<LoopSIMD<double,4>>, n = 4..6: the property applied lane-wise.
# Lanes are small-integer matrices on which the scalar elimination (same pivot rule) is EXACT in binary floating point
# (every pivot met is +-2^k, checked by simulating the algorithm in rational arithmetic), so the doubles printed by the
# harness are compared exactly with rational arithmetic: any exactly singular lane => FMatrixError from solve / invert,
# determinant 0 in singular lanes and the exact determinant in the others, regular-lane results exact, inputs unchanged.
from fractions import Fraction


def _pow2(fr):
    a, d = abs(fr.numerator), fr.denominator
    return a != 0 and (a & (a - 1)) == 0 and (d & (d - 1)) == 0


def lu_sim(A, piv):
    """the scalar algorithm of luDecomposition in exact rational arithmetic: ('ok' | ('zero', step), exact_in_double)"""
    n = len(A); M = [[Fraction(x) for x in r] for r in A]; exact = True
    for i in range(n):
        if piv:
            im, pm = i, abs(M[i][i])
            for k in range(i + 1, n):
                if abs(M[k][i]) > pm:
                    pm, im = abs(M[k][i]), k
            M[i], M[im] = M[im], M[i]
        if M[i][i] == 0:
            return ("zero", i), exact
        if not _pow2(M[i][i]):
            exact = False
        for k in range(i + 1, n):
            f = M[k][i] / M[i][i]
            for j in range(i + 1, n):
                M[k][j] -= f * M[i][j]
            M[k][i] = f
    if any(abs(x.numerator) >= 2 ** 40 or x.denominator >= 2 ** 40 for r in M for x in r):
        exact = False
    return "ok", exact


def frac_solve(A, B):
    """exact Gauss-Jordan: returns (det, X) with A X = B (X None when singular); B: list of columns as rows of length n each"""
    n = len(A); M = [[Fraction(x) for x in r] + [Fraction(B[i][j]) for j in range(len(B[0]))] for i, r in enumerate(A)]
    det = Fraction(1)
    for c in range(n):
        r = next((k for k in range(c, n) if M[k][c] != 0), None)
        if r is None:
            return Fraction(0), None
        if r != c:
            M[c], M[r] = M[r], M[c]; det = -det
        det *= M[c][c]
        pv = M[c][c]; M[c] = [x / pv for x in M[c]]
        for k in range(n):
            if k != c and M[k][c] != 0:
                f = M[k][c]; M[k] = [x - f * y for x, y in zip(M[k], M[c])]
    return det, [r[n:] for r in M]


def simd_parse(case):
    t = case.split(); kind, op, n, piv = t[1], t[2], int(t[3]), int(t[4])
    L = 2 if kind == "S2" else 4
    v = [int(x) for x in t[5:]]; per = n * n + (n if op == "solve" else 0)
    lanes = []
    for l in range(L):
        w = v[l * per:(l + 1) * per]
        lanes.append(([w[i * n:(i + 1) * n] for i in range(n)], w[n * n:]))
    return kind, op, n, piv, L, lanes


def simd_oracle(case, obs):
    kind, op, n, piv, L, lanes = simd_parse(case)
    if obs.startswith(("CRASH", "HANG", "NOT-RUN", "BAD-CASE")):
        return ("crash", "impl did not return: %s" % obs)
    main, _, flag = obs.partition(" | ")
    if flag.strip() != "U":
        return ("inputs-modified", "A or b modified: %s" % obs[:80])
    info = []
    for A, b in lanes:
        d, _ = frac_solve(A, [[0] for _ in range(n)])
        info.append((d, lu_sim(A, piv)[0]))
    anysing = any(d == 0 for d, st in info)
    anyzero = any(st != "ok" for d, st in info)
    if op in ("solve", "invert") and n >= 4:
        if anysing:
            return None if main == "EXC FMatrixError" else ("simd-singular-lane-not-reported",
                   "lane(s) %s exactly singular (n = %d) but %s" % ([i for i, (d, st) in enumerate(info) if d == 0], n, main[:120]))
        if main == "EXC FMatrixError":
            return None if anyzero else ("nonsingular-error", "all lanes regular and elimination defined, but FMatrixError")
    if not main.startswith("OK"):
        return ("format", obs[:80])
    try:
        got = [[Fraction(float(x)) for x in q.split()] for q in main[2:].split(";")]
    except Exception:
        return ("simd-wrong-lane-result", "non-finite or unparsable lane values: %s" % main[:160])
    if len(got) != L:
        return ("format", "lane count")
    for l, (A, b) in enumerate(lanes):
        d, st = info[l]
        if op == "det":
            if d == 0:
                want = [Fraction(0)]
            elif st == "ok":
                want = [d]
            else:
                continue                               # regular lane, unpivoted elimination undefined: property silent
        elif op == "solve":
            want = [r[0] for r in frac_solve(A, [[x] for x in b])[1]]
        else:
            I = [[int(i == j) for j in range(n)] for i in range(n)]
            want = [x for r in frac_solve(A, I)[1] for x in r]
        if got[l] != want:
            return ("simd-wrong-lane-result", "lane %d: got %s, exact %s" % (l, [float(x) for x in got[l]][:8], [float(x) for x in want][:8]))
    return None


def simd_gen(ctx):
    rng = ctx.rng("simd")
    cases = []
    # closed forms n = 1, 2, 3 with SIMD lanes (FieldMatrix<LoopSIMD,1,1> specialisation included): regular lanes whose
    # determinant is +-2^k, so every division of the closed forms is exact
    for n in (1, 2, 3):
        pool = []
        for _ in range(4000):
            A = [[rng.randrange(-3, 4) for _ in range(n)] for _ in range(n)]
            d = frac_solve(A, [[0] for _ in range(n)])[0]
            if d != 0 and _pow2(d):
                pool.append(A)
            if len(pool) >= 16:
                break
        for kind in ("S2", "S4", "T4"):
            L = 2 if kind == "S2" else 4
            for rep in range(3):
                lanesA = [rng.choice(pool) for _ in range(L)]
                for op in ("solve", "invert", "det"):
                    vals = []
                    for A in lanesA:
                        vals += [x for r in A for x in r]
                        if op == "solve":
                            vals += [rng.randrange(-3, 4) for _ in range(n)]
                    cases.append("0 %s %s %d %d %s" % (kind, op, n, rep % 2, " ".join(map(str, vals))))
    for n in (4, 5, 6):
        for piv in (0, 1):
            reg, sing = [], {s: [] for s in range(n)}
            tries = 0
            while tries < 6000 and (len(reg) < 24 or any(len(sing[s]) < 3 for s in range(n))):
                tries += 1
                perm = list(range(n)); rng.shuffle(perm)
                zs = set() if rng.random() < 0.45 else {rng.randrange(n)}
                Lm = [[(1 if i == j else (rng.choice([-1, 0, 0, 1]) if j < i else 0)) for j in range(n)] for i in range(n)]
                U = [[(0 if j < i else ((0 if i in zs else rng.choice([-2, -1, 1, 2])) if i == j else rng.choice([-2, -1, 0, 0, 1, 2]))) for j in range(n)] for i in range(n)]
                M = [[sum(Lm[i][k] * U[k][j] for k in range(n)) for j in range(n)] for i in range(n)]
                A = [M[perm[i]] for i in range(n)] if (piv or rng.random() < 0.3) else M
                st, ex = lu_sim(A, piv)
                if not ex or max(abs(x) for r in A for x in r) > 9:
                    continue
                if st == "ok":
                    if len(reg) < 24:
                        reg.append(A)
                elif frac_solve(A, [[0] for _ in range(n)])[0] == 0 and len(sing[st[1]]) < 3:
                    sing[st[1]].append(A)
            if len(reg) < 4:
                continue
            kinds = ["S2", "S4", "T4"] if n == 4 or not ctx.quick else (["S2", "S4"] if n == 5 else ["S4", "T4"])
            for kind in kinds:
                L = 2 if kind == "S2" else 4
                pats = [[None] * L, [None] * L]                                   # all lanes regular
                for s in range(n):                                                 # exactly one singular lane, at every step
                    if sing[s]:
                        pat = [None] * L; pat[(s + n) % L] = s; pats.append(pat)
                allsing = [s for s in range(n) if sing[s]]
                if allsing:
                    pats.append([rng.choice(allsing) for _ in range(L)])           # all lanes singular
                    pat = [None] * L; pat[0] = allsing[0]; pat[L - 1] = allsing[-1]; pats.append(pat)
                for pat in pats:
                    lanesA = [(rng.choice(sing[s]) if s is not None else rng.choice(reg)) for s in pat]
                    for op in ("solve", "invert", "det"):
                        vals = []
                        for A in lanesA:
                            vals += [x for r in A for x in r]
                            if op == "solve":
                                vals += [rng.randrange(-3, 4) for _ in range(n)]
                        cases.append("0 %s %s %d %d %s" % (kind, op, n, piv, " ".join(map(str, vals))))
    return cases


def simd_stage(ctx, exe):
    cases = simd_gen(ctx)
    cp = os.path.join(V.VERIF, "corpus", "C02", "simd.txt")
    if os.path.exists(cp):
        cases = [l.strip() for l in open(cp) if l.strip() and not l.startswith("#")] + cases
    out = V.run_cases(ctx, [exe], cases, tag="simd", timeout=120)
    rej = 0; pat = {}
    for c, a in zip(cases, out):
        r = simd_oracle(c, a)
        k = a.split(" | ")[0].split()[0:2]; k = " ".join(k) if k and k[0] == "EXC" else "OK"
        pat[k] = pat.get(k, 0) + 1
        if r is not None:
            rej += 1
            if rej <= 20:
                t = c.split()
                ctx.violation("C02:%s:%s:n>=4:%s" % (t[2], t[1], r[0]), {"case": c, "impl": a, "oracle": r[1], "mode": "simd",
                                                                          "replay_cmd": "bin/check C02 --replay <this file>"})
    ctx.coverage["simd_stream"] = {"cases": len(cases), "oracle_rejections": rej, "impl_outcomes": pat,
                                   "what": "FieldMatrix<LoopSIMD<double,2|4>,n,n>, DynamicMatrix<LoopSIMD<double,4>>, n=4..6, lanes with different pivot patterns: "
                                           "all regular / one exactly singular lane at every elimination step / several / all singular; pivoting on and off"}
    return len(cases)


# ----------------------------------------------------------------------------- round 6: the MAGNITUDE dimension
# Floating-point field types (double, long double, float, complex<double>) on matrices A' = diag(2^e) * A * diag(2^f) with
# small-integer A (harness/C02/scale.cc).  Scaling by powers of two is exact in binary floating point, so
#   stream x: cases on which EVERY intermediate result of the algorithm is representable in the type (checked by running
#             the algorithm in rational arithmetic, sim_*): the IEEE computation is then the exact one; the impl's output is
#             judged by the spec in exact rational arithmetic (A' x = b', A' B = B A' = I, det, FMatrixError iff singular for
#             n >= 4) and compared with the Gallina model instantiated at the rationals (c02_q, pivot test re-read from the source);
#   stream m: arbitrary small-integer matrices, uniform scaling 2^k: the impl's results for 2^k * A must be bit-exactly the
#             rescaled results for A (metamorphic; no over/underflow by the choice of k).
FP = {"d": (53, -1022, 1023), "l": (64, -16382, 16383), "f": (24, -126, 127), "c": (53, -1022, 1023), "i": (53, -1022, 1023)}


def _dy(fr):
    """(odd mantissa, exponent) of a non-zero dyadic rational, else None"""
    a, d = abs(fr.numerator), fr.denominator
    if d & (d - 1):
        return None
    tz = (a & -a).bit_length() - 1
    return a >> tz, tz - (d.bit_length() - 1)


def fp_repr(fr, T):
    if fr == 0:
        return True
    q = _dy(fr)
    if q is None:
        return False
    prec, emin, emax = FP[T]
    return q[0].bit_length() <= prec and emin <= q[1] + q[0].bit_length() - 1 <= emax


def fp_str(fr):
    if fr == 0:
        return "0"
    q = _dy(fr)
    sg = "-" if fr < 0 else ""
    if q is None:
        return "%sR%x/%x" % (sg, abs(fr.numerator), fr.denominator)
    return "%s%xp%d" % (sg, q[0], q[1])


def fp_parse(tok):
    """exact value printed by scale.cc / the model driver; None for inf / nan"""
    if tok in ("inf", "-inf", "nan"):
        return None
    if tok == "0":
        return Fraction(0)
    sg = -1 if tok[0] == "-" else 1
    tok = tok.lstrip("-")
    if tok[0] == "R":
        a, b = tok[1:].split("/")
        return sg * Fraction(int(a, 16), int(b, 16))
    m, e = tok.split("p")
    return sg * Fraction(int(m, 16)) * Fraction(2) ** int(e)


def q_parse(case):
    t = case.split()
    kind, op, n, piv = t[1], t[2], int(t[3]), int(t[4])
    v = [int(x) for x in t[5:]]
    e, f, g = v[:n], v[n:2 * n], v[2 * n]
    a = v[2 * n + 1:2 * n + 1 + n * n]
    A0 = [a[i * n:(i + 1) * n] for i in range(n)]
    b0 = v[2 * n + 1 + n * n:]
    two = Fraction(2)
    A = [[Fraction(A0[i][j]) * two ** (e[i] + f[j]) for j in range(n)] for i in range(n)]
    b = [Fraction(x) * two ** g for x in b0]
    return kind, op, n, (1 if piv else 0), e, f, g, A0, b0, A, b


class _Sim:
    """the algorithm of densematrix.hh in rational arithmetic; ok stays True while every result is representable in T"""
    def __init__(self, T):
        self.T = T; self.ok = True

    def r(self, v):
        if not fp_repr(v, self.T):
            self.ok = False
        return v

    def lu(self, M, n, piv, swap, elim):
        r = self.r
        for i in range(n):
            pm, im = abs(M[i][i]), i
            if piv:
                for k in range(i + 1, n):
                    if abs(M[k][i]) > pm:
                        pm, im = abs(M[k][i]), k
                M[i], M[im] = M[im], M[i]
                swap(i, im)
            if pm == 0:
                return i
            for k in range(i + 1, n):
                f = r(M[k][i] / M[i][i]); M[k][i] = f
                for j in range(i + 1, n):
                    M[k][j] = r(M[k][j] - r(f * M[i][j]))
                elim(f, k, i)
        return None


def sim_case(T, op, n, piv, A, b, e, f, g, A0):
    """(status, exact): status 'ok' | 'zero' (a zero pivot is met: FMatrixError) ; exact: every intermediate representable"""
    S = _Sim(T); r = S.r
    for row in A:
        for x in row:
            r(x)
    for x in b:
        r(x)
    if n <= 3:
        # closed forms, operation by operation in the order of the code (densematrix.hh / c02_solve, c02_invert, c02_det3)
        d0 = frac_solve(A0, [[0] for _ in range(n)])[0]
        if d0 == 0:
            return "zero", False
        mul = lambda x, y: r(x * y); sub = lambda x, y: r(x - y); add = lambda x, y: r(x + y)
        m3 = lambda x, y, z: mul(mul(x, y), z)
        a = A
        def det3():
            t4 = mul(a[0][0], a[1][1]); t6 = mul(a[0][0], a[1][2]); t8 = mul(a[0][1], a[1][0])
            t10 = mul(a[0][2], a[1][0]); t12 = mul(a[0][1], a[2][0]); t14 = mul(a[0][2], a[2][0])
            return (sub(add(add(sub(sub(mul(t4, a[2][2]), mul(t6, a[2][1])), mul(t8, a[2][2])), mul(t10, a[2][1])), mul(t12, a[1][2])), mul(t14, a[1][1])),
                    t4, t6, t8, t10, t12, t14)
        if n == 1:
            if op == "solve": r(b[0] / a[0][0])
            elif op == "invert": r(1 / a[0][0])
        elif n == 2:
            det = sub(mul(a[0][0], a[1][1]), mul(a[0][1], a[1][0]))
            if op != "det":
                if det == 0:
                    return "ok", False
                di = r(1 / det)
                if op == "solve":
                    mul(di, sub(mul(a[1][1], b[0]), mul(a[0][1], b[1]))); mul(di, sub(mul(a[0][0], b[1]), mul(a[1][0], b[0])))
                else:
                    for x in (a[1][1], a[0][1], a[1][0], a[0][0]):
                        mul(x, di)
        else:
            det, t4, t6, t8, t10, t12, t14 = det3()
            if op != "det" and det == 0:
                return "ok", False
            if op == "solve":
                def six(p1, m1, m2, p2, p3, m3_):
                    return sub(add(add(sub(sub(p1, m1), m2), p2), p3), m3_)
                n0 = six(m3(b[0], a[1][1], a[2][2]), m3(b[0], a[2][1], a[1][2]), m3(b[1], a[0][1], a[2][2]), m3(b[1], a[2][1], a[0][2]), m3(b[2], a[0][1], a[1][2]), m3(b[2], a[1][1], a[0][2]))
                n1 = six(m3(a[0][0], b[1], a[2][2]), m3(a[0][0], b[2], a[1][2]), m3(a[1][0], b[0], a[2][2]), m3(a[1][0], b[2], a[0][2]), m3(a[2][0], b[0], a[1][2]), m3(a[2][0], b[1], a[0][2]))
                n2 = six(m3(a[0][0], a[1][1], b[2]), m3(a[0][0], a[2][1], b[1]), m3(a[1][0], a[0][1], b[2]), m3(a[1][0], a[2][1], b[0]), m3(a[2][0], a[0][1], b[1]), m3(a[2][0], a[1][1], b[0]))
                for x in (n0, n1, n2):
                    r(x / det)
            elif op == "invert":
                t17 = r(1 / det)
                for x in (sub(mul(a[1][1], a[2][2]), mul(a[1][2], a[2][1])), sub(mul(a[0][1], a[2][2]), mul(a[0][2], a[2][1])), sub(mul(a[0][1], a[1][2]), mul(a[0][2], a[1][1])),
                          sub(mul(a[1][0], a[2][2]), mul(a[1][2], a[2][0])), sub(mul(a[0][0], a[2][2]), t14), sub(t6, t10),
                          sub(mul(a[1][0], a[2][1]), mul(a[1][1], a[2][0])), sub(mul(a[0][0], a[2][1]), t12), sub(t4, t8)):
                    mul(x, t17)
        return "ok", S.ok
    M = [row[:] for row in A]
    if op == "solve":
        rhs = b[:]
        def sw(i, j): rhs[i], rhs[j] = rhs[j], rhs[i]
        def el(fa, k, i): rhs[k] = r(rhs[k] - r(fa * rhs[i]))
        z = S.lu(M, n, piv, sw, el)
        if z is not None:
            return "zero", S.ok
        for i in range(n - 1, -1, -1):
            for j in range(i + 1, n):
                rhs[i] = r(rhs[i] - r(M[i][j] * rhs[j]))
            rhs[i] = r(rhs[i] / M[i][i])
        return "ok", S.ok
    if op == "det":
        z = S.lu(M, n, piv, lambda i, j: None, lambda fa, k, i: None)
        if z is not None:
            return "zero", S.ok
        d = Fraction(1)
        for i in range(n):
            d = r(d * M[i][i])
        return "ok", S.ok
    z = S.lu(M, n, piv, lambda i, j: None, lambda fa, k, i: None)
    if z is not None:
        return "zero", S.ok
    B = [[Fraction(int(i == j)) for j in range(n)] for i in range(n)]
    for i in range(n):
        for j in range(i):
            for k in range(n):
                B[i][k] = r(B[i][k] - r(M[i][j] * B[j][k]))
    for i in range(n - 1, -1, -1):
        for k in range(n):
            for j in range(i + 1, n):
                B[i][k] = r(B[i][k] - r(M[i][j] * B[j][k]))
            B[i][k] = r(B[i][k] / M[i][i])
    return "ok", S.ok


def q_values(T, main):
    """the numbers of an 'OK ...' line as exact rationals (complex types: list of (re, im)); None if inf/nan/unparsable"""
    try:
        out = []
        for tok in main[2:].split():
            if T in "ci":
                a, b = tok.split(",")
                a, b = fp_parse(a), fp_parse(b)
                if a is None or b is None:
                    return None
                out.append((a, b))
            else:
                a = fp_parse(tok)
                if a is None:
                    return None
                out.append((a, Fraction(0)))
        return out
    except Exception:
        return None


def q_oracle(case, obs, chk=False):
    """stream x (exact cases): the spec applied to the impl's own output in exact rational (Gaussian rational) arithmetic"""
    kind, op, n, piv, e, f, g, A0, b0, A, b = q_parse(case)
    T = kind[0]
    if obs.startswith(("CRASH", "HANG", "NOT-RUN", "BAD-CASE", "UNKNOWN")):
        return ("crash", "impl did not return: %s" % obs)
    main, _, flag = obs.partition(" | ")
    if flag.strip() != "U":
        return ("inputs-modified", "A or b modified: %s" % obs[:100])
    d, _x = frac_solve(A, [[0] for _ in range(n)])
    status, exact = sim_case(T, op, n, piv, A, b, e, f, g, A0)
    if chk and n <= 3:
        dd = abs(d)
        if dd < Fraction(1, 10 ** 80):
            return None                                # checking build, |det| below the documented limit: outside the property
    if d == 0:
        if n >= 4:
            if op == "det":
                return None if main == "OK 0" or main == "OK 0,0" else ("wrong-det", "exactly singular, determinant %s" % main[:80])
            return None if main == "EXC FMatrixError" else ("singular-not-reported", "exactly singular %dx%d matrix but %s" % (n, n, main[:80]))
        return None
    if status == "zero":                               # regular, unpivoted elimination undefined: property silent
        return None
    if not main.startswith("OK"):
        return ("nonsingular-error", "nonsingular (det = %s, <hex mantissa>p<binary exponent>) and elimination defined, but %s" % (fp_str(d), main[:80]))
    vals = q_values(T, main)
    if vals is None:
        return ("nonsingular-error", "nonsingular but non-finite / unparsable result: %s" % main[:120])
    # the complex types hold u * A' with u = 1 (c) or u = i (i): compare with the real computation
    u = (Fraction(0), Fraction(1)) if T == "i" else (Fraction(1), Fraction(0))
    cm = lambda p_, q_: (p_[0] * q_[0] - p_[1] * q_[1], p_[0] * q_[1] + p_[1] * q_[0])
    if op == "det":
        want = (d, Fraction(0))
        for _ in range(n):
            want = cm(want, u)
        return None if vals == [want] else ("wrong-det", "determinant %s, exact %s" % (main[:80], fp_str(want[0]) + "," + fp_str(want[1])))
    if op == "solve":
        if len(vals) != n:
            return ("format", "wrong length")
        for i in range(n):                             # (u A') x = b'
            acc = (Fraction(0), Fraction(0))
            for j in range(n):
                t_ = cm(cm(u, (A[i][j], Fraction(0))), vals[j]); acc = (acc[0] + t_[0], acc[1] + t_[1])
            if acc != (b[i], Fraction(0)):
                return ("wrong-solution", "A*x != b in exact arithmetic (row %d): x = %s" % (i, main[:120]))
        return None
    if len(vals) != n * n:
        return ("format", "wrong length")
    for i in range(n):                                 # (u A') B = I and B (u A') = I
        for k in range(n):
            a1 = (Fraction(0), Fraction(0)); a2 = (Fraction(0), Fraction(0))
            for j in range(n):
                t_ = cm(cm(u, (A[i][j], Fraction(0))), vals[j * n + k]); a1 = (a1[0] + t_[0], a1[1] + t_[1])
                t_ = cm(vals[i * n + j], cm(u, (A[j][k], Fraction(0)))); a2 = (a2[0] + t_[0], a2[1] + t_[1])
            if a1 != (Fraction(int(i == k)), Fraction(0)) or a2 != (Fraction(int(i == k)), Fraction(0)):
                return ("wrong-inverse", "A*B != I or B*A != I in exact arithmetic at (%d,%d): %s" % (i, k, main[:100]))
    return None


def m_oracle(case, obs, base_obs):
    """stream m: the result for 2^k * A (b' = 2^g b) must be the exactly rescaled result for A (k = g = 0)"""
    kind, op, n, piv, e, f, g, A0, b0, A, b = q_parse(case)
    T = kind[0]; k = e[0]
    if obs.startswith(("CRASH", "HANG", "NOT-RUN", "BAD-CASE", "UNKNOWN")):
        return ("crash", "impl did not return: %s" % obs)
    main, _, flag = obs.partition(" | ")
    bmain = base_obs.partition(" | ")[0]
    if flag.strip() != "U":
        return ("inputs-modified", "A or b modified: %s" % obs[:100])
    if not bmain.startswith("OK"):
        return None if main.split()[:2] == bmain.split()[:2] else ("scaling-changes-outcome", "A gives %s, 2^%d * A gives %s" % (bmain[:40], k, main[:60]))
    if not main.startswith("OK"):
        return ("nonsingular-error", "A is solved/inverted (%s ...) but 2^%d * A gives %s" % (bmain[:30], k, main[:60]))
    v0, v1 = q_values(T, bmain), q_values(T, main)
    if v0 is None:
        return None
    sc = Fraction(2) ** (k * n if op == "det" else (g - k if op == "solve" else -k))
    want = [(a * sc, b_ * sc) for a, b_ in v0]
    return None if v1 == want else ("scaling-law", "result for 2^%d * A is not the exactly rescaled result for A: %s vs %s" % (k, main[:80], bmain[:80]))


def q_fmt(kind, op, n, piv, e, f, g, A0, b0):
    return "Q %s %s %d %d %s %s %d %s%s" % (kind, op, n, piv, " ".join(map(str, e)), " ".join(map(str, f)), g,
                                           " ".join(str(x) for r in A0 for x in r), (" " + " ".join(map(str, b0))) if op == "solve" else "")


def q_gen(ctx):
    rng = ctx.rng("scale")
    quick = ctx.quick
    xs, ms = [], []
    cp = os.path.join(V.VERIF, "corpus", "C02", "scale.txt")
    if os.path.exists(cp):
        xs += [l.strip() for l in open(cp) if l.strip() and not l.startswith("#")]
    # base matrices: P^T L U with unit lower L over {-1,0,1}, U with diagonal +-2^j (singular: one zero), n = 1..8
    def base(n, sing):
        for _ in range(200):
            perm = list(range(n)); rng.shuffle(perm)
            zs = {rng.randrange(n)} if sing else set()
            Lm = [[(1 if i == j else (rng.choice([-1, 0, 0, 1]) if j < i else 0)) for j in range(n)] for i in range(n)]
            U = [[(0 if j < i else ((0 if i in zs else rng.choice([-4, -2, -1, 1, 1, 2])) if i == j else rng.choice([-2, -1, 0, 0, 1, 2, 3]))) for j in range(n)] for i in range(n)]
            M = [[sum(Lm[i][k] * U[k][j] for k in range(n)) for j in range(n)] for i in range(n)]
            A0 = [M[perm[i]] for i in range(n)]
            if max(abs(x) for r in A0 for x in r) <= 12 and any(A0[i][i] for i in range(n)):
                return A0
        return None
    uni = {"d": [0, -1, 60, -60, -264, -265, -266, -267, -300, 300, -330, 500, -500],
           "l": [0, 70, -266, -300, 1000, -1000, -4000, 4000],
           "f": [0, 20, -20, 36, -36],
           "c": [0, -266, -300, 300], "i": [0, -1, -266, -300, 200]}
    big = {"d": 300, "l": 1000, "f": 30, "c": 300, "i": 250}
    types = ["d", "l", "f", "c", "i"]
    reps = 2 if quick else 10
    for n in range(1, 9):
        for T in types:
            for K in ("F", "D"):
                if K == "F" and n > 6:
                    continue
                for rep in range(reps):
                    sing = n >= 4 and rep % 3 == 2
                    A0 = base(n, sing)
                    if A0 is None:
                        continue
                    scal = [([k] * n, [0] * n) for k in uni[T]]
                    Bg = big[T]
                    # row-wise / column-wise / both: D1 * A * D2, e.g. columns scaled by (2^-B, 1, ..., 1, 2^B) (determinant unchanged)
                    scal.append(([0] * n, [-Bg] + [0] * (n - 2) + ([Bg] if n > 1 else [])))
                    scal.append(([Bg] + [0] * (n - 2) + ([-Bg] if n > 1 else []), [0] * n))
                    scal.append(([rng.choice([-Bg, 0, Bg // 3]) for _ in range(n)], [rng.choice([-Bg // 2, 0, Bg // 2]) for _ in range(n)]))
                    scal.append(([rng.randrange(-Bg, Bg) for _ in range(n)], [0] * n))
                    scal.append(([0] * n, [rng.randrange(-Bg, Bg) for _ in range(n)]))
                    for op in ("solve", "invert", "det"):
                        got = 0
                        for (e, f) in scal:
                            if got >= (5 if quick else 9):
                                break
                            if quick and rng.random() < 0.35 and e[0] not in (-300, -266, -1000, -36) :
                                continue
                            piv = rng.choice([0, 1, 1, 2])
                            g = rng.choice([0, e[0], -e[0] // 2]) if op == "solve" else 0
                            b0 = [rng.randrange(-3, 4) for _ in range(n)] if op == "solve" else []
                            c = q_fmt(T + K + "x", op, n, piv, e, f, g, A0, b0)
                            kind, op_, n_, piv_, e_, f_, g_, A0_, b0_, A, b = q_parse(c)
                            st, ex = sim_case(T, op, n, piv_, A, b, e, f, g, A0)
                            if not ex:
                                continue
                            if n <= 3 and st != "ok":
                                continue
                            xs.append(c); got += 1
    # stream m: arbitrary small-integer matrices (pivots that are not powers of two), uniform scaling
    mk = {"d": [60, -60, 200, -200, -270, -300, 300], "l": [1000, -1000, -4000, 4000, -270], "f": [20, -20, 30, -30], "c": [-270, 200, -300]}
    for n in range(1, 9):
        for T in ("d", "l", "f", "c"):
            for K in ("F", "D"):
                if K == "F" and n > 6:
                    continue
                for rep in range(1 if quick else 6):
                    A0 = [[rng.randrange(-9, 10) for _ in range(n)] for _ in range(n)]
                    if rep % 4 == 3 and n >= 4:
                        A0[rng.randrange(1, n)] = A0[0][:]      # exactly singular (duplicate row)
                    elif frac_solve(A0, [[0] for _ in range(n)])[0] == 0:
                        continue
                    for op in ("solve", "invert", "det"):
                        piv = rng.choice([0, 1, 1, 2])
                        if not piv and lu_sim(A0, 0)[0] != "ok":
                            piv = 1
                        b0 = [rng.randrange(-5, 6) for _ in range(n)] if op == "solve" else []
                        ks = []
                        prec, emin, emax = FP[T]
                        for k in mk[T]:
                            lim = min(-emin, emax) - 3 * prec - 16
                            need = abs(k) * (n if op == "det" or n <= 3 else 2)
                            if need <= lim:
                                ks.append(k)
                        if not ks:
                            continue
                        basec = q_fmt(T + K + "m", op, n, piv, [0] * n, [0] * n, 0, A0, b0)
                        for k in (ks if not quick else rng.sample(ks, min(2, len(ks)))):
                            g = rng.choice([0, k]) if op == "solve" else 0
                            ms.append((basec, q_fmt(T + K + "m", op, n, piv, [k] * n, [0] * n, g, A0, b0)))
    return xs, ms


def scale_stage(ctx, model, exe, exe_chk):
    xs, ms = q_gen(ctx)
    io = V.run_cases(ctx, [exe], xs, tag="qimpl", timeout=120)
    mo = V.run_cases(ctx, [model], xs, tag="qmodel", timeout=600)
    rej = dis = 0
    hist = {}
    def report(c, a, m, r, mode):
        t = c.split()
        ctx.violation("C02:%s:%s:%s:%s" % (t[2], t[1], "n<=3" if int(t[3]) <= 3 else "n>=4", r[0]),
                      {"case": c, "impl": a, "model": m, "oracle": r[1], "mode": mode, "replay_cmd": "bin/check C02 --replay <this file>"})
    for c, a, m in zip(xs, io, mo):
        t = c.split()
        key = "%s/%s/n%s/%s" % (t[1][0], t[2], t[3], "OK" if a.startswith("OK") else " ".join(a.split()[:2]))
        hist[key] = hist.get(key, 0) + 1
        r = q_oracle(c, a)
        if r is not None:
            rej += 1
            if rej <= 25:
                report(c, a, m, r, "scale")
        elif a != m:
            dis += 1
            if dis <= 10:
                ctx.violation("corr:C02/scale-%s" % t[2], {"broken": "corr:C02/scale (rational instance of the model vs floating-point impl on an exact case)",
                                                            "case": c, "impl": a, "model": m, "oracle": "accepts impl output"}, found_input=False)
        rm = q_oracle(c, m)
        if rm is not None:
            ctx.notes.append("MODEL (rational instance) rejected by oracle on %s: %s" % (c, rm[1]))
            ctx.violation("model:C02/oracle", {"broken": "model (rational instance, pivot test as re-read from the source) violates the spec oracle",
                                               "case": c, "model": m, "oracle": rm[1]}, found_input=False)
    # metamorphic stream
    allm = sorted(set([b for b, _ in ms] + [c for _, c in ms]))
    mio = dict(zip(allm, V.run_cases(ctx, [exe], allm, tag="mimpl", timeout=120)))
    mrej = 0
    for bc, c in ms:
        r = m_oracle(c, mio[c], mio[bc])
        if r is not None:
            mrej += 1
            if mrej <= 15:
                report(c, mio[c], "base case %s -> %s" % (bc, mio[bc][:200]), r, "scale-m")
    # checking build: exact cases n <= 4 (the documented threshold of the closed forms n <= 3 becomes visible in this dimension)
    cx = [c for c in xs if int(c.split()[3]) <= 4]
    cio = V.run_cases(ctx, [exe_chk], cx, tag="qcimpl", timeout=120)
    cmo = V.run_cases(ctx, [model, "chk"], cx, tag="qcmodel", timeout=600)
    crej = cdis = below = 0
    for c, a, m in zip(cx, cio, cmo):
        r = q_oracle(c, a, chk=True)
        if a.startswith("EXC FMatrixError") and int(c.split()[3]) <= 3:
            below += 1
        if r is not None:
            crej += 1
            if crej <= 10:
                report(c, a, m, r, "scale-chk")
        elif a != m:
            cdis += 1
            if cdis <= 5:
                ctx.violation("corr:C02/scale-chk-%s" % c.split()[2], {"broken": "corr:C02/scale-chk (checking build: threshold test of the closed forms vs the model's c02_*_chk at the rationals)",
                                                                        "case": c, "impl": a, "model": m, "oracle": "accepts impl output"}, found_input=False)
    ctx.coverage["magnitude_stream"] = {
        "exact_cases": len(xs), "exact_oracle_rejections": rej, "exact_impl_model_disagreements": dis,
        "metamorphic_pairs": len(ms), "metamorphic_rejections": mrej,
        "checking_build_cases": len(cx), "checking_build_rejections": crej, "checking_build_impl_model_disagreements": cdis,
        "checking_build_n<=3_below_limit_FMatrixError_observed_not_judged": below,
        "type_op_size_outcome": hist,
        "what": "double / long double / float / complex<double>, FieldMatrix and DynamicMatrix, n = 1..8, A' = diag(2^e) A diag(2^f): uniform "
                "(k up to +-500, +-4000 long double, around the 1e-80 = 2^-265.75 limit) and row/column scalings; exact cases judged in "
                "rational arithmetic and compared with the rational instance of the model; metamorphic pairs compared bit-exactly"}
    return len(xs) + len(allm) + len(cx)


def params_hook(ctx):
    V.sh([sys.executable, os.path.join(V.VERIF, "tools", "extract_params.py"), ctx.repo], check=True)


def run(ctx):
    ctx.params_hook = params_hook
    V.coq_stage(ctx)
    model = V.build_model(ctx)
    (outs, deep) = build(ctx, san=True)
    impl, impl_chk, impl_san = outs[0], outs[1], outs[2]
    cases = gen(ctx)
    ctx.log("generated %d cases" % len(cases))
    mo = V.run_cases(ctx, [model], cases, tag="model", timeout=900)
    io = V.run_cases(ctx, [impl], cases, tag="impl", timeout=60 if ctx.quick else 300)
    stats = judge(ctx, cases, mo, io)
    nfield = field_instance_stage(ctx, cases, mo)
    nsimd = simd_stage(ctx, ctx.simd_exe)
    nsimd += scale_stage(ctx, model, ctx.scale_exes[0], ctx.scale_exes[1])
    # the build with DUNE_FMatrix_WITH_CHECKING (non-default mode): all dense cases of size <= 4
    cc = [c for c in cases if c.split()[1] in "FDXY" and c.split()[2] in ("solve", "invert", "det", "seq") and int(c.split()[3]) <= 4]
    cmo = V.run_cases(ctx, [model, "chk"], cc, tag="cmodel", timeout=600)
    cio = V.run_cases(ctx, [impl_chk], cc, tag="cimpl", timeout=60 if ctx.quick else 300)
    cstats = judge(ctx, cc, cmo, cio, chk=True)
    ctx.notes.append("checking build (DUNE_FMatrix_WITH_CHECKING), singular inputs n<=3, observed only (outside property C02): %s"
                     % json.dumps(cstats.get("singular_n<=3_observed_not_judged", {}), sort_keys=True))
    # sanitizer variant on a subsample
    sub = list(range(0, len(cases), 5 if ctx.quick else 3))
    so = V.run_cases(ctx, [impl_san], [cases[i] for i in sub], tag="san", timeout=300 if ctx.quick else 900)
    for j, i in enumerate(sub):
        if j < len(so) and so[j] != io[i]:
            ctx.violation(sig_of(cases[i], "sanitizer"), {"case": cases[i], "impl": io[i], "impl_sanitized_build": so[j],
                                                          "oracle": "ASan/UBSan build behaves differently or aborts"})
    # deep stream: pivot vector and packed LU of luDecomposition itself (model drift is a note, not a violation)
    deep_n = deep_dis = 0
    pivpat = {}
    if deep:
        dc = sorted(set(lu_case(c) for c in cases if c.split()[1] in "FD" and c.split()[2] in ("solve", "invert", "det") and 4 <= int(c.split()[3]) <= 8))
        dm = V.run_cases(ctx, [model], dc, tag="dmodel", timeout=600)
        di = V.run_cases(ctx, [deep], dc, tag="dimpl", timeout=120)
        deep_n = len(dc)
        for c, m, a in zip(dc, dm, di):
            if m != a:
                deep_dis += 1
                if deep_dis <= 3:
                    ctx.notes.append("deep stream drift on %s: impl %s model %s" % (c, a, m))
            if a.startswith("OK") and c.split()[3] == "4" and c.split()[4] == "1":
                k = a[3:].split(" ; ")[0]
                pivpat[k] = pivpat.get(k, 0) + 1
        if deep_dis:
            ctx.violation("corr:C02/deep-lu", {"broken": "corr:C02/deep (pivot vector / packed LU of luDecomposition differ from the model)",
                                               "count": deep_dis, "first": ctx.notes[-1]}, found_input=False)
    fp_test(ctx)
    dist = {}
    nontriv = set()
    nsing = 0
    for c in cases:
        p, kind, op, n, piv, v = parse_case(c)
        key = "%s/%s/n%d/piv%d" % (kind, op, n, piv)
        dist[key] = dist.get(key, 0) + 1
        if any(v):
            nontriv.add(c)
    outcome = {}
    for a in io:
        k = a.split(" | ")[0].split()
        k = " ".join(k[:2]) if k and k[0] == "EXC" else (k[0] if k else "")
        outcome[k] = outcome.get(k, 0) + 1
    ctx.coverage.update({
        "evaluations": len(cases) + deep_n, "distinct_nontrivial": len(nontriv),
        "rule": "cases = corpus + exhaustive n=1 over GF(7), n=2 over an alphabet^4, n=3 over {0,1}^9 (thorough: larger alphabets) + n=4: all 24 row "
                "permutations x zero-pivot sets of P^T*L*U + sampled {0,1}^16 + random/sparse/constructed/rank-deficient/permutation matrices "
                "n<=%d over GF(7),GF(13),GF(31), FieldMatrix and DynamicMatrix, pivoting on/off, x solve/invert/det + FMatrixHelp n<=3 + "
                "DiagonalMatrix n<=6; non-trivial = matrix or rhs has a non-zero entry; distinct = distinct case lines" % (6 if ctx.quick else 8),
        "samples": cases[:2] + cases[len(cases) // 2: len(cases) // 2 + 2] + cases[-3:-1],
        "kind_op_size_distribution": dist, "impl_outcomes": outcome,
        "n4_pivot_vectors_seen_with_pivoting": len(pivpat), "n4_pivot_vectors_possible": 24, "n4_pivot_vector_histogram": pivpat,
        "deep_stream_cases": deep_n, "deep_stream_disagreements": deep_dis, "sanitizer_cases": len(sub),
        "exhaustive": False, "traces_validated_against_impl": len(cases) + deep_n,
    })
    ctx.coverage.update(stats)
    try:
        rep = json.load(open(os.path.join(V.VERIF, "build", "params_report.json")))
        ctx.coverage["translated_constants"] = {k: v for k, v in rep.items() if k.startswith("c02_")}
    except Exception:
        pass
    ctx.coverage["with_checking_build"] = dict(cases=len(cc), **cstats)
    ctx.coverage["evaluations"] += len(cc) + nfield + nsimd
    ctx.coverage["traces_validated_against_impl"] += len(cc)
    ctx.assumptions += [
        "the model code is polymorphic in the record of field operations; theorems are about its instance at a mathcomp fieldType, the "
        "bulk correspondence runs its instance at Z mod p (c02_zp, extracted) — the two are linked by parametricity of the same Gallina code "
        "(not a theorem) and, on every run, by evaluating the field-level instance at 'F_p with vm_compute on a boundary-directed subsample "
        "and comparing it with the extracted instance (coverage.field_instance_cases)",
        "harness/C02/gfp.hh (GF(p) number class: abs = representative, division by zero throws) is trusted",
        "floating-point behaviour (rounding, backward error) is not covered by the theorems; thorough tier runs a labelled residual TEST",
    ]


# ----------------------------------------------------------------------------- floating point: a TEST, not a proof
def fp_test(ctx):
    try:
        exe = V.cxx(ctx, [os.path.join(H, "fptest.cc")], ctx.path("fptest"), opt="-O2", flags=["-I" + H])
    except V.BuildError as e:
        ctx.notes.append("fptest does not build: %s" % str(e)[-300:])
        return
    rc, out = V.sh([exe, str(ctx.seed)], timeout=300)
    ctx.coverage["floating_point_TEST"] = {"what": "labelled test, not a theorem: residual ||A x - b|| <= 64 n eps (||A|| ||x|| + ||b||) and ||A B - I|| small "
                                                   "for double / long double / complex<double>, n <= 12, prescribed condition number <= 1e6",
                                           "rc": rc, "summary": out.strip().split("\n")[-1][:300] if out.strip() else ""}
    seen = set()
    for l in out.strip().split("\n"):
        if l.startswith("FAIL"):
            t = l.split()
            m = re.search(r"n=(\d+)", l)
            sig = "C02:fp-test:%s:%s" % (t[1], "n<=3" if m and int(m.group(1)) <= 3 else "n>=4")
            if sig not in seen:
                seen.add(sig)
                ctx.violation(sig, {"case": l, "oracle": "floating-point residual TEST failed (test, not proof); reproduce: build/C02/fptest %d" % ctx.seed})


def replay(ctx, path):
    rep = json.load(open(path))
    case = rep["case"]
    if rep.get("mode") == "simd" or case.split()[1] in ("S2", "S4", "T4"):
        exe = V.cxx(ctx, [os.path.join(H, "simd.cc")], ctx.path("simd"), opt="-O1", flags=["-I" + H])
        io = V.run_cases(ctx, [exe], [case], tag="rsimd", timeout=20)
        r = simd_oracle(case, io[0])
        print("case  :", case, "(SIMD lanes)"); print("impl  :", io[0]); print("oracle:", r[1] if r else "accepts")
        return 1 if r else 0
    if case.split()[0] == "Q":
        mode = rep.get("mode", "scale")
        chk = mode == "scale-chk"
        exe = V.cxx(ctx, [os.path.join(H, "scale.cc")], ctx.path("scale_chk" if chk else "scale"), opt="-O1",
                    flags=["-I" + H] + (["-DDUNE_FMatrix_WITH_CHECKING"] if chk else []))
        if mode == "scale-m":
            t = case.split(); n = int(t[3])
            basec = " ".join(t[:5] + ["0"] * (2 * n + 1) + t[5 + 2 * n + 1:])
            io = V.run_cases(ctx, [exe], [case, basec], tag="rscale", timeout=20)
            r = m_oracle(case, io[0], io[1])
            print("case  :", case); print("impl  :", io[0]); print("base  :", basec, "->", io[1]); print("oracle:", r[1] if r else "accepts")
            return 1 if r else 0
        io = V.run_cases(ctx, [exe], [case], tag="rscale", timeout=20)
        r = q_oracle(case, io[0], chk)
        print("case  :", case, "(DUNE_FMatrix_WITH_CHECKING build)" if chk else ""); print("impl  :", io[0]); print("oracle:", r[1] if r else "accepts")
        return 1 if r else 0
    model = V.build_model(ctx)
    chk = rep.get("mode") == "chk"
    impl = V.cxx(ctx, [os.path.join(H, "impl.cc")], ctx.path("impl_chk" if chk else "impl"), opt="-O1",
                 flags=["-I" + H] + (["-DDUNE_FMatrix_WITH_CHECKING"] if chk else []))
    mo = V.run_cases(ctx, [model] + (["chk"] if chk else []), [case], tag="rmodel")
    io = V.run_cases(ctx, [impl], [case], tag="rimpl", timeout=20)
    print("case  :", case, "(DUNE_FMatrix_WITH_CHECKING build)" if chk else ""); print("impl  :", io[0]); print("model :", mo[0])
    r = oracle(case, io[0], chk)
    print("oracle:", r[1] if r else "accepts")
    return 1 if r else 0
