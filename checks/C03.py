"""C03 — ParallelIndexSet is the sorted global->local map its resize history describes (DESIGN.md section 4, C03)."""
import os, sys, re, json, itertools
import vcheck as V

META = {
    "level": "proof",
    "technique": "Coq proof (list model of the GROUND/RESIZE state machine, three-way merge, int binary search and reverse table "
                 "refines a sorted-list finite-map spec machine for all histories) + extracted model/spec vs C++ differential "
                 "correspondence over exhaustive small and random long resize histories, 6 chunk sizes, with and without NDEBUG",
    "text": "Theorems in coq/Properties_C03.v: for every history of beginResize/add/markAsDeleted/endResize/renumberLocal/lookups "
            "(wrong-state calls included, checking enabled) the model's outputs equal those of the spec machine whose set is "
            "sort(new ++ not-deleted old) with linear-scan lookups; the set is always key-sorted, a permutation of adds minus deletes, "
            "lookups by binary search are exact for every size incl. 0 and 1 (refuted for the legacy `probe==-1` test at size 1), "
            "seqNo counts completed resizes, renumbering gives 0..n-1, the reverse table inverts the map, wrong-state calls are "
            "rejected without changing the state; the state invariant (ordered, VALID in ground state, nothing pending) holds after ALL "
            "histories; one resize phase yields a permutation of added ++ (old minus marked); const and non-const search spellings agree.  "
            "Literals (search start values, the no-entries test, seqNo_(0), renumbering from 0) are re-read from the source into "
            "coq/Params_gen.v.  Assignment onto a target that holds other pairs / an unfinished resize phase gives exactly the source for all "
            "targets and later histories (C03_assign_*); local numbers up to 2^64-1 and long long extremes are run.  The model is tied to dune/common/parallel/indexset.hh on every run by running "
            "the extracted model, the extracted spec and the C++ class on identical histories.",
    "note": "Trusted: Coq kernel, extraction, OCaml driver, C++ harness, g++; std::sort (modelled by insertion sort; equal keys in one "
            "batch are not generated unless identical); ArrayList = list (C11's refinement theorem); seqNo_ int overflow not modelled.",
    "design_ref": "DESIGN.md section 4 C03",
}

NS = [1, 2, 3, 4, 7, 100, 0, -3]
SRC = os.path.join(V.VERIF, "harness/C03/impl.cc")
OPNAME = {"B": "beginResize", "A": "add", "D": "markAsDeleted", "E": "endResize", "R": "renumberLocal", "X": "exists", "T": "at",
          "G": "operator[]", "S": "size", "Q": "seqNo", "M": "state", "I": "iterate", "V": "reverse", "W": "reverse-sized",
          "a": "add(global)", "U": "setLocal", "Z": "set-equality", "K": "pair-comparison", "Y": "lookup-operator[]", "J": "lookup-iterate",
          "C": "copy-move-swap", "r": "add(aliasing)", "z": "set-equality-other-global-type", "c": "assign-onto-used-target"}
INT_MIN, INT_MAX = -2**31, 2**31 - 1
LL_MIN, LL_MAX = -2**63, 2**63 - 1
BIG_LOCALS = [2**31 - 1, 2**31, 2**31 + 1, 2**32 - 1, 2**32, 2**32 + 1, 2**62, 2**63 - 1, 2**63, 2**63 + 1, 2**64 - 1]
TABLE_MAX = 4096          # reverse-lookup tables (size = largest local number + 1) are only built below this


# ----------------------------------------------------------------------------- generator
class Sim:
    """Light python mirror of the SPEC machine (sorted list of [g, loc, attr, pub, deleted]) used only to steer the generator
    (which probes to emit, which positions can be deleted); it is never used as an oracle."""
    def __init__(self, nd=False):
        self.rz = False; self.set = []; self.new = []; self.ops = []; self.ctr = 0
        self.nd = nd            # mirror the NDEBUG build: wrong-state calls are executed, not rejected
        self.variant = ""       # "" : int / ParallelLocalIndex<Attr>;  "L": long long / LocalIndex

    def begin(self):
        self.ops.append("B")
        self.rz = True

    def add(self, g, attr, loc=None, pub=None):
        if loc is None:
            loc = self.ctr; self.ctr += 1
        if pub is None:
            pub = (g + attr) % 2
        if self.variant == "L":
            attr, pub = 0, 0
        self.ops.append("A:%d:%d:%d:%d" % (g, loc, attr, pub))
        if self.rz or self.nd: self.new.append([g, loc, attr, pub, False])

    def add_default(self, g):
        """add(global): default-constructed local index (local 0, attribute 0, not public)"""
        self.ops.append("a:%d" % g)
        if self.rz or self.nd: self.new.append([g, 0, 0, 0, False])

    def grange(self):
        return (LL_MIN, LL_MAX) if self.variant == "L" else (INT_MIN, INT_MAX)

    def table_ok(self):
        return all(p[1] <= TABLE_MAX for p in self.set)

    def assign(self, w):
        """audit 2 (A): the set is copy- (w even) / move- (w odd) assigned to a target in configuration w//2 that holds other pairs,
        another seqNo, an unfinished resize phase or emptied lists; the history continues on the target.  No change of the content."""
        self.ops.append("c:%d" % w)

    def setlocal(self, g, l):
        self.ops.append("U:%d:%d" % (g, l))
        for p in self.set:
            if p[0] == g:
                p[1] = l; break

    def extras(self, rng):
        """audit round: the other public access paths (copy, lookup-set forwarding, comparisons, set equality, write through at())"""
        o = self.ops
        n = len(self.set)
        gmax = self.grange()[1]
        o.append(rng.choice(["C", "J", "C", "J"]) if self.table_ok() else "C")
        if n:
            g = rng.choice(self.set)[0]
            if self.table_ok(): o.append("Y:%d" % g)
            i, j = rng.randrange(n), rng.randrange(n)
            gg = rng.choice([self.set[i][0], self.set[j][0], self.set[i][0] + 1 if self.set[i][0] < gmax else self.set[i][0]])
            o.append("K:%d:%d:%d" % (i, j, gg))
        keys = [(p[0], p[2]) for p in self.set]
        if len(set(keys)) == len(keys):                  # rebuilt copy keeps the order only for distinct keys (std::sort)
            ws = [0, 1, 4, 5, 6] if self.variant == "L" else [0, 1, 2, 3, 4, 5, 6]
            if self.set and self.set[-1][0] >= INT_MAX - 1: ws.remove(4)
            if self.set and self.set[-1][2] >= 8 and 2 in ws: ws.remove(2)
            o.append("Z:0"); o.append("Z:%d" % rng.choice(ws))
            if self.variant != "S" and all(INT_MIN <= p[0] < INT_MAX for p in self.set):   # the same against an instance with another GLOBAL index type (int <-> long long)
                o.append("z:%d" % rng.choice(ws))
        o.append(rng.choice(["Z:7", "Z:8"]))             # aliasing: the set against itself / against a copy sharing its chunks

    def readd(self, k):
        """add(x.global(), x.local()) with x = begin()[k]: references into the set's own storage"""
        p = self.set[k]
        self.ops.append("r:%d" % k)
        if self.rz: self.new.append([p[0], p[1], p[2], p[3], False])

    def delete(self, k):
        self.ops.append("D:%d" % k)
        if (self.rz or self.nd) and k < len(self.set): self.set[k][4] = True

    def end(self):
        self.ops.append("E")
        if self.rz or self.nd:
            # stable sort: new first on ties (same rule as the spec's insertion sort)
            self.set = sorted(self.new + [p for p in self.set if not p[4]], key=lambda p: (p[0], p[2]))
            self.new = []; self.rz = False

    def renumber(self):
        self.ops.append("R")
        if not self.rz or self.nd:
            for i, p in enumerate(self.set): p[1] = i

    def keys_in_batch(self):
        return {(p[0], p[2]) for p in self.new}

    def probes(self, rng=None, full=True, maxg=12):
        """lookups for every global present +-1, sizes, iteration, reverse lookups"""
        o = self.ops
        o += ["I", "S", "Q", "M"]
        gs = sorted({p[0] for p in self.set})
        if len(gs) > maxg and rng is not None:
            keep = set(rng.sample(gs, maxg - 2)) | {gs[0], gs[-1]}
            gs = [g for g in gs if g in keep]
        cand = set()
        gmin, gmax = self.grange()
        for g in gs:
            cand.update(x for x in (g - 1, g, g + 1) if gmin <= x <= gmax)
        if not self.set:
            cand.update([0, 7])
        present = {p[0] for p in self.set}
        for g in sorted(cand):
            o.append("X:%d" % g); o.append("T:%d" % g)
            if g in present: o.append("G:%d" % g)
        if full and self.table_ok():
            locs = [p[1] for p in self.set]
            mx = max(locs) if locs else 0
            ls = list(range(mx + 1))
            if len(ls) > 10 and rng is not None:
                ls = sorted(set(rng.sample(ls, 8)) | {0, mx})
            for l in ls[:40]:
                o.append("V:%d" % l)
            if rng is not None and rng.random() < 0.5:
                sz = mx + 1 + rng.randrange(3)
                o.append("W:%d:%d" % (sz, rng.randrange(sz)))

    def line(self, n, chk):
        return "%d%s %d %s" % (n, self.variant, chk, " ".join(self.ops))


KEYS = [(g, a) for g in (3, 5, 6) for a in (0, 1)]


def gen_exhaustive(ctx, cases):
    """all histories over 3 globals x 2 attributes: round 1 = <= 3 adds, round 2 = <= r2 ops (add key | delete position)"""
    r2max = 2 if ctx.quick else 3
    cnt = 0
    for n1 in range(0, 4):
        for first in itertools.permutations(KEYS, n1):
            alphabet2 = [("A", k) for k in KEYS] + [("D", i) for i in range(n1)]
            for n2 in range(0, (r2max if n1 >= 2 or ctx.quick is False else 3) + 1):
                for second in itertools.product(alphabet2, repeat=n2):
                    addkeys = [x[1] for x in second if x[0] == "A"]
                    if len(set(addkeys)) != len(addkeys):
                        continue            # equal keys inside one batch: order unspecified by std::sort
                    s = Sim()
                    s.begin()
                    for (g, a) in first: s.add(g, a)
                    s.end(); s.probes()
                    s.begin()
                    for kind, x in second:
                        if kind == "A": s.add(x[0], x[1])
                        else: s.delete(x)
                    s.end(); s.probes()
                    if cnt % 5 == 0:
                        s.renumber(); s.probes()
                    if cnt % 3 == 0:
                        import random as _r
                        rr = _r.Random(cnt); s.extras(rr)
                        if s.set and cnt % 6 == 0:
                            s.setlocal(rr.choice(s.set)[0], rr.randrange(9)); s.probes()
                    cases.append(s.line(NS[cnt % 8], 1))
                    cnt += 1
    return cnt


def gen_random(ctx, rng, chk, inject):
    s = Sim(nd=(not chk and inject))
    style = rng.random()
    if style < 0.25:
        pool = list(range(0, 12))                       # dense small globals: many neighbours / collisions
    elif style < 0.5:
        pool = [rng.randrange(-50, 50) for _ in range(30)]
    elif style < 0.6:
        pool = [INT_MIN, INT_MIN + 1, -1, 0, 1, INT_MAX - 1, INT_MAX] + [rng.randrange(-10**6, 10**6) for _ in range(10)]
    else:
        pool = [rng.randrange(-10**6, 10**6) for _ in range(60)]
    nattr = rng.choice([1, 1, 2, 3])
    if rng.random() < 0.2:
        s.variant = "L"; nattr = 1                       # long long globals, Dune::LocalIndex, generic comparator
        if rng.random() < 0.3: pool = pool + [-2**61, 2**61, 2**40 + 1, -2**33]
        if rng.random() < 0.3: pool = pool + [LL_MIN, LL_MIN + 1, LL_MAX - 1, LL_MAX, 2**62, -2**62 - 1]   # audit 2 (D): the extremes of the type
    elif rng.random() < 0.12:
        s.variant = "S"                                  # class-type global index (comparison operators only), ParallelLocalIndex<int>
    distinct_globals = rng.random() < 0.6
    biglocal = rng.random() < 0.15                       # audit 2 (C/D): local numbers at the 2^31 / 2^32 / 2^63 / 2^64 boundaries
    assigning = (chk or not inject) and rng.random() < 0.3     # audit 2 (A): the set is assigned to used targets along the way
    def maybe_assign():
        if assigning and rng.random() < 0.25: s.assign(rng.randrange(8))
    rounds = rng.randrange(1, 7)
    small = rng.random() < 0.35                          # keep the set near sizes 0..3
    def wrong():
        if inject and rng.random() < 0.1:
            k = rng.random()
            if s.rz:
                rng.choice([s.begin, s.renumber])()
            else:
                c = rng.randrange(3)
                if c == 0:
                    g, a = rng.choice(pool), rng.randrange(nattr)
                    if (g, a) not in s.keys_in_batch(): s.add(g, a)     # (NDEBUG: the add is executed; equal keys in one batch are unspecified)
                elif c == 1: s.delete(rng.randrange(len(s.set) + (0 if s.nd else 1)) if (s.set or not s.nd) else 0) if (s.set or not s.nd) else s.end()
                else: s.end()
    for r in range(rounds):
        wrong()
        s.begin()
        wrong()
        # deletions of a random subset of the current set
        if s.set:
            z = rng.random()
            if z < 0.15: dels = list(range(len(s.set)))                     # delete everything
            elif z < 0.3 and len(s.set) > 1: dels = rng.sample(range(len(s.set)), len(s.set) - 1)   # leave one
            elif z < 0.75: dels = [k for k in range(len(s.set)) if rng.random() < rng.choice([0.1, 0.5])]
            else: dels = []
        else:
            dels = []
        nadd = rng.choice([0, 0, 1, 1, 2, 3]) if small else rng.choice([0, 1, 2, 3, 5, 8, 13, 20, 40])
        todo = [("D", k) for k in dels] + [("A", None)] * nadd
        rng.shuffle(todo)
        for kind, k in todo:
            if kind == "D":
                s.delete(k)
            else:
                for _ in range(20):
                    g = rng.choice(pool); a = rng.randrange(nattr)
                    if (g, a) in s.keys_in_batch(): continue
                    if distinct_globals and (any(p[0] == g for p in s.new) or any(p[0] == g and not p[4] for p in s.set)): continue
                    loc = rng.randrange(0, 60) if rng.random() < 0.3 else None
                    if biglocal and rng.random() < 0.5: loc = rng.choice(BIG_LOCALS)
                    if not s.nd and s.set and rng.random() < 0.07:
                        k = rng.randrange(len(s.set)); q = s.set[k]
                        if not q[4] and (q[0], q[2]) not in s.keys_in_batch(): s.readd(k); break
                    if a == 0 and rng.random() < 0.12: s.add_default(g)
                    else: s.add(g, a, loc=loc, pub=rng.randrange(2))
                    break
            wrong()
            maybe_assign()
        if rng.random() < 0.15:
            s.probes(rng, full=False)                    # lookups while in RESIZE state (deleted flags visible)
            keys_ = [(p[0], p[2]) for p in s.set]
            if not s.nd and len(set(keys_)) == len(keys_): s.ops.append("Z:0")     # operator== with the left side in RESIZE state (marks, pending adds)
        maybe_assign()
        s.end()
        wrong()
        maybe_assign()
        s.probes(rng)
        # the audit-round ops only in histories the property covers (not in the NDEBUG + wrong-state stream, where the
        # python steering mirror is only approximate and the property constrains nothing)
        if not s.nd and rng.random() < 0.7:
            s.extras(rng)
        if not s.nd and rng.random() < 0.3:
            g = rng.choice(s.set)[0] if s.set and rng.random() < 0.8 else rng.choice(pool)
            s.setlocal(g, rng.choice([x for x in BIG_LOCALS if x % 2]) if biglocal and rng.random() < 0.5 else rng.randrange(0, 70)); s.probes(rng)
        if rng.random() < 0.4:
            s.renumber(); s.probes(rng)
    return s.line(rng.choice([2, 100]) if s.variant == "S" else rng.choice(NS), chk)


def gen_boundary(ctx, cases):
    """directed: set sizes exactly at the chunk boundaries (N-1, N, N+1, 2N, 2N+1), then a phase that deletes a prefix reaching across
    a chunk boundary while adding below, inside and above, then everything but the last pair deleted"""
    import random as _r
    cnt = 0
    for n in NS:
        cs = max(n, 1)
        for variant in ("", "L") + (("S",) if n in (2, 100) else ()):
            for size in sorted({max(cs - 1, 0), cs, cs + 1, 2 * cs, 2 * cs + 1}):
                rr = _r.Random(1000 * cs + size)
                s = Sim(); s.variant = variant
                s.begin()
                for i in range(size): s.add(10 * i, 0 if variant == "L" else i % 2)
                s.end(); s.probes(rr); s.extras(rr)
                s.begin()
                for k in range(min(size, cs + 1)): s.delete(k)
                for g in (-5, 5, 10 * size + 5): s.add(g, 0)
                if size and not s.set[size - 1][4]: s.readd(size - 1)
                s.end(); s.probes(rr); s.extras(rr)
                s.begin()
                for k in range(len(s.set) - 1): s.delete(k)
                s.end(); s.probes(rr); s.renumber(); s.probes(rr)
                # audit 2 (A): the set emptied by deletion (lists with consumed chunks), then refilled across a chunk boundary
                s.begin()
                for k in range(len(s.set)): s.delete(k)
                s.end(); s.probes(rr)
                s.begin()
                for i in range(cs + 1): s.add(7 * i - 3, 0)
                s.end(); s.probes(rr)
                cases.append(s.line(n, 1 if cnt % 4 else 0)); cnt += 1
    return cnt


def gen_assign(ctx, cases):
    """audit 2 (A), directed: every target configuration x copy/move (c:0..7) x source state (empty, filled ground state, emptied,
    mid-phase with pending adds and deletion marks) x chunk size; afterwards the phase is finished on the TARGET, probed, and one more
    phase (add + delete) is run on it"""
    import random as _r
    cnt = 0
    for w in range(8):
        for src in range(4):
            for n, variant in ((1, ""), (3, ""), (100, ""), (2, "L"), (2, "S")):
                rr = _r.Random(100 * w + 10 * src + n)
                s = Sim(); s.variant = variant
                if src >= 1:
                    s.begin()
                    for i in range(5): s.add(10 * i + 1, i % 2)
                    s.end()
                if src == 2:
                    s.begin()
                    for k in range(5): s.delete(k)
                    s.end()
                if src == 3:
                    s.begin(); s.delete(1); s.add(25, 1); s.delete(4); s.add(-9, 0)
                s.assign(w)
                s.ops += ["M", "Q", "S", "I"]
                if src == 3: s.add(77, 0); s.end()
                s.probes(rr); s.extras(rr)
                s.begin()
                if s.set: s.delete(0)
                s.add(1005, 0); s.add(-80, 1); s.add(12, 0)
                s.assign((w + 3) % 8)
                s.end(); s.probes(rr); s.renumber(); s.probes(rr)
                cases.append(s.line(n, 1 if cnt % 3 else 0)); cnt += 1
    return cnt


def gen(ctx):
    cases = []
    cp = os.path.join(V.VERIF, "corpus", "C03", "cases.txt")
    if os.path.exists(cp):
        cases += [l.strip() for l in open(cp) if l.strip() and not l.startswith("#")]
    ncorp = len(cases)
    nex = gen_exhaustive(ctx, cases)
    nbd = gen_boundary(ctx, cases)
    nas = gen_assign(ctx, cases)
    rng = ctx.rng("gen")
    nr = 2500 if ctx.quick else 40000
    for i in range(nr):
        cases.append(gen_random(ctx, rng, 1, inject=True))
    for i in range(nr // 3):
        cases.append(gen_random(ctx, rng, 0, inject=False))       # NDEBUG build, well-formed histories
    for i in range(nr // 10):
        cases.append(gen_random(ctx, rng, 0, inject=True))        # NDEBUG build, wrong-state calls: model only
    return cases, {"corpus": ncorp, "exhaustive": nex, "chunk_boundary_directed": nbd, "assign_onto_used_target_directed": nas, "random_checked": nr, "random_ndebug": nr // 3, "random_ndebug_wrongstate": nr // 10}


# ----------------------------------------------------------------------------- judging
def size_before(ops, outs, i):
    """number of pairs in the set when op i ran, read off the spec's last iterate/size output (None if unknown)"""
    for j in range(i - 1, -1, -1):
        k = ops[j][0]
        if k == "E" and outs[j] == "ok": return None
        if k == "S" and outs[j].isdigit(): return int(outs[j])
        if k == "I": return outs[j].count("(")
    return None


def sizeclass(n):
    return "size?" if n is None else ("size%d" % n if n <= 1 else "size>=2")


def judge(case, impl, spec):
    """Oracle: the spec machine's outputs against the impl's own outputs.  Returns list of (signature, detail)."""
    t = case.split()
    ops = t[2:]
    so = spec.split(";"); io = impl.split(";")
    if impl.startswith(("CRASH", "HANG", "NOT-RUN")):
        return [("C03:crash", {"detail": impl})]
    if len(io) != len(ops) or len(so) != len(ops):
        return [("C03:output-length", {"detail": "ops=%d impl=%d spec=%d" % (len(ops), len(io), len(so))})]
    res, seen = [], set()
    for i, (op, a, b) in enumerate(zip(ops, io, so)):
        if a != b:
            k = op[0]
            sig = "C03:%s" % OPNAME.get(k, k)
            if k in "XTGVYU":
                sig += ":" + sizeclass(size_before(ops, so, i))
            if b == "EXC InvalidIndexSetState" or a == "EXC InvalidIndexSetState":
                sig += ":state-check"
            if k in "VW":
                # reverse lookup of a local number carried by several pairs: the property ("inverts the map") fixes nothing there;
                # the spec follows the code (last pair in iteration order wins) -> a difference is model drift, not a violation
                l = op.split(":")[-1]
                for j in range(i - 1, -1, -1):
                    if ops[j][0] == "E" and so[j] == "ok": break
                    if ops[j][0] == "I":
                        if len(re.findall(r"\(-?\d+,%s," % l, so[j])) > 1: sig = "corr:C03/reverse-duplicate-locals"
                        break
            if sig not in seen:
                seen.add(sig)
                res.append((sig, {"op_index": i, "op": op, "impl_says": a, "spec_says": b}))
    return res


def run_all(ctx, exes, cases):
    """returns (model lines, impl lines) in case order; cases are routed to the checked / NDEBUG binary by their chk field"""
    mo = V.run_cases(ctx, [exes["model"]], cases, tag="model", timeout=900)
    idx = {1: [i for i, c in enumerate(cases) if c.split()[1] == "1"], 0: [i for i, c in enumerate(cases) if c.split()[1] != "1"]}
    io = [None] * len(cases)
    for chk, exe in ((1, exes["impl_chk"]), (0, exes["impl_ndebug"])):
        if idx[chk]:
            o = V.run_cases(ctx, [exe], [cases[i] for i in idx[chk]], tag="impl%d" % chk, timeout=60 if ctx.quick else 600)
            for i, l in zip(idx[chk], o): io[i] = l
    return mo, io


def split_model(line):
    p = line.split(" | ")
    return (p + ["", "", ""])[:3]


def wellformed(spec):
    return "EXC InvalidIndexSetState" not in spec


def shrink(ctx, exes, case, sig, budget=250):
    """delta debugging on the op sequence with impl, model and spec in the loop: keep a candidate when the spec still calls the
    history defined and the oracle still reports the same signature."""
    t = case.split(); head, ops = t[:2], t[2:]
    def fails(ops_):
        c = " ".join(head + ops_)
        mo, io = run_all(ctx, exes, [c])
        m, ml, sp = split_model(mo[0])
        if "PRECOND" in sp: return False
        return any(s == sig for s, _ in judge(c, io[0], sp))
    n = 0
    chunk = max(1, len(ops) // 2)
    while chunk >= 1 and n < budget:
        i = 0; changed = False
        while i < len(ops) and n < budget:
            cand = ops[:i] + ops[i + chunk:]
            n += 1
            if cand and fails(cand):
                ops = cand; changed = True
            else:
                i += chunk
        if chunk == 1 and not changed: break
        chunk = max(1, chunk // 2) if chunk > 1 else (1 if changed else 0)
    return " ".join(head + ops)


def build(ctx, san=False):
    model = V.build_model(ctx)
    jobs = [dict(srcs=[SRC], out=ctx.path("impl_chk"), opt="-O1"),
            dict(srcs=[SRC], out=ctx.path("impl_ndebug"), opt="-O2", flags=["-DNDEBUG"])]
    if san:
        jobs.append(dict(srcs=[SRC], out=ctx.path("impl_san"), san=True, flags=["-DC03_SAN_SUBSET"]))
    outs = V.cxx_many(ctx, jobs)
    exes = {"model": model, "impl_chk": outs[0], "impl_ndebug": outs[1]}
    if san: exes["impl_san"] = outs[2]
    return exes


def params_hook(ctx):
    """tools/extract_params.py feeds the shared coq/Params_gen.v (convention).  The C03 model itself imports coq/C03_Params.v, which
    is written here from the SAME translator (tools/params.d/C03.py) and only when its content changes: the shared file is
    rewritten and recompiled whenever any property's constants change (other checks, mutant runs), which would make
    C03_Model.vo inconsistent in the middle of a run."""
    V.sh([sys.executable, os.path.join(V.VERIF, "tools", "extract_params.py"), ctx.repo], check=True)
    ns = {}
    exec(open(os.path.join(V.VERIF, "tools", "params.d", "C03.py")).read(), ns)
    report = {}
    def read(p_):
        try: return open(os.path.join(ctx.repo, p_), errors="replace").read()
        except OSError: return ""
    def find(name, text, rx, default, conv=lambda x: int(x, 0)):
        m = re.search(rx, text)
        if m:
            try:
                v = conv(m.group(1)); report[name] = {"value": v, "source": "extracted"}; return v
            except Exception: pass
        report[name] = {"value": default, "source": "DEFAULT (not located in source)"}
        return default
    body = ns["lines"](ctx.repo, read, find, report)
    content = ("(* GENERATED by checks/C03.py (params_hook) from tools/params.d/C03.py on every check run -- do not edit.\n"
               "   Literals of dune/common/parallel/indexset.hh that the C03 model and theorems depend on. *)\n"
               "From Coq Require Import NArith ZArith.\n" + "\n".join(body) + "\n")
    out = os.path.join(V.COQ, "C03_Params.v")
    if (open(out).read() if os.path.exists(out) else None) != content:
        open(out, "w").write(content)
    ctx.coverage["source_literals"] = report


def run(ctx):
    try:
        run_(ctx)
    finally:
        # a run against another tree (mutant / seeded worktree) may have written that tree's literals: restore those of /repo,
        # as tools/try_mutant.sh does for the shared Params_gen.v
        if os.path.abspath(ctx.repo) != "/repo" and os.path.isdir("/repo/dune"):
            cov = dict(ctx.coverage)
            class _C: pass
            c2 = _C(); c2.repo = "/repo"; c2.coverage = {}
            try: params_hook(c2)
            except Exception: pass
            ctx.coverage.clear(); ctx.coverage.update(cov)


def run_(ctx):
    ctx.params_hook = params_hook
    V.coq_stage(ctx)
    exes = build(ctx, san=True)
    cases, dist = gen(ctx)
    ctx.log("generated %d histories" % len(cases))
    mo, io = run_all(ctx, exes, cases)
    known = [k for k in V.load_known("C03") if k.get("status") == "known"]
    nviol = ndrift = nundef = nops = 0
    opk, sizes_at_lookup, branches = {}, {}, {"wrong-state-rejected": 0, "RangeError": 0, "NULL": 0, "deleted-visible": 0}
    fresh_for_shrink = {}
    persig = {}
    nontrivial = set()
    for c, m, a in zip(cases, mo, io):
        mfix, mleg, sp = split_model(m)
        t = c.split(); chk = t[1] == "1"; ops = t[2:]
        nops += len(ops)
        modelonly = (not chk) and not wellformed(sp)    # NDEBUG build + wrong-state calls: only the model applies
        if "PRECOND" in (mfix if modelonly else sp):
            nundef += 1; continue                      # generator produced an undefined history: not judged
        for o in ops: opk[OPNAME[o[0]]] = opk.get(OPNAME[o[0]], 0) + 1
        so = sp.split(";")
        branches["wrong-state-rejected"] += so.count("EXC InvalidIndexSetState")
        branches["RangeError"] += so.count("EXC RangeError"); branches["NULL"] += so.count("NULL")
        for i, o in enumerate(ops):
            if o[0] == "S" and i < len(so) and so[i].isdigit():
                z = str(min(int(so[i]), 5)); sizes_at_lookup[z] = sizes_at_lookup.get(z, 0) + 1
        if ",D)" in sp: branches["deleted-visible"] += 1
        if re.search(r"\[\(", sp): nontrivial.add(c)
        if modelonly:
            # NDEBUG + wrong-state calls: the property claims nothing; only the model is compared (drift)
            for sig, det in judge(c, a, mfix):
                isknown = any(re.search(k["signature"], sig) for k in known)
                if not isknown: ndrift += 1
                ctx.violation(sig if isknown else "corr:C03/ndebug-wrong-state/" + sig,
                              {"broken": "corr:C03/ndebug-wrong-state", "case": c, "impl": a, "model": mfix, "model_legacy_probe_test": mleg,
                               "oracle": "only the model is compared here (the property does not constrain wrong-state calls without checking)",
                               "difference": det}, found_input=isknown)
            continue
        verdicts = judge(c, a, sp)
        for sig, det in verdicts:
            nviol += 1
            legacy = (a == mleg)
            rep = {"case": c, "impl": a, "model": mfix, "model_legacy_probe_test": mleg, "spec": sp, "oracle": det,
                   "impl_equals_legacy_model": legacy, "replay_cmd": "bin/check C03 --replay <this file>"}
            persig[sig] = persig.get(sig, 0) + 1
            if persig[sig] <= 3:                       # cap per signature (a known finding must not crowd out anything else)
                if sig.startswith("corr:"):
                    rep["broken"] = sig
                    ctx.violation(sig, rep, found_input=False)
                else:
                    ctx.violation(sig, rep)
            if not any(re.search(k["signature"], sig) for k in known) and sig not in fresh_for_shrink and not sig.startswith("corr:"):
                fresh_for_shrink[sig] = (c, rep)
        if not verdicts and a != mfix:
            ndrift += 1
            ctx.violation("corr:C03/outputs", {"broken": "corr:C03/outputs", "case": c, "impl": a, "model": mfix, "spec": sp,
                                               "oracle": "accepts impl output"}, found_input=False)
        if mfix != sp:
            ctx.notes.append("model/spec mismatch on %s" % c[:200])
    # shrink the first few unknown violations (impl in the loop) and report the minimised case under the same signature
    for sig, (c, rep) in list(fresh_for_shrink.items())[:3]:
        small = shrink(ctx, exes, c, sig)
        smo, sio = run_all(ctx, exes, [small])
        m, ml, sp = split_model(smo[0])
        for k, (s_, r_, f_) in enumerate(ctx.viol):
            if s_ == sig:
                r2 = dict(r_); r2.update({"case": small, "impl": sio[0], "model": m, "model_legacy_probe_test": ml, "spec": sp,
                                          "oracle": dict(judge(small, sio[0], sp)).get(sig), "unshrunk_case": c})
                ctx.viol[k] = (s_, r2, f_); break
    # sanitizer variant on a subsample of the checked cases
    sub = [i for i, c in enumerate(cases) if c.split()[1] == "1" and c.split()[0] in ("1", "3", "1L", "3L")][::(3 if ctx.quick else 2)]
    so_ = V.run_cases(ctx, [exes["impl_san"]], [cases[i] for i in sub], tag="san", timeout=120 if ctx.quick else 900)
    for j, i in enumerate(sub):
        if so_[j] != io[i]:
            ctx.violation("C03:sanitizer", {"case": cases[i], "impl": io[i], "impl_sanitized_build": so_[j],
                                            "oracle": "ASan/UBSan build behaves differently or aborts"})
    ctx.coverage.update({
        "evaluations": len(cases), "operations_executed": nops, "distinct_nontrivial": len(nontrivial),
        "rule": "cases = corpus + ALL histories over 3 globals x 2 attributes with round 1 = <=3 adds and round 2 = <=%d ops (add key | delete position) "
                "+ seeded random histories (<=6 rounds, <=40 adds per round, deletion of random subsets incl. all / all-but-one, wrong-state calls "
                "injected with p=0.1, chunk sizes %s, checked and NDEBUG builds); after every endResize: iteration, size, seqNo, state, "
                "exists/at for every present global and its +-1 neighbours, operator[] for present globals, reverse lookup of every local number; "
                "non-trivial = some iteration output non-empty; distinct = distinct case lines" % (2 if ctx.quick else 3, NS),
        "samples": [cases[0][:300], cases[len(cases) // 3][:300], cases[-1][:300]],
        "generator_streams": dist, "op_distribution": opk, "set_size_at_probe(5=5+)": sizes_at_lookup, "outcome_counts": branches,
        "oracle_rejections_by_signature": persig, "undefined_histories_skipped": nundef, "impl_model_disagreements": ndrift, "oracle_rejections": nviol,
        "sanitizer_cases": len(sub), "chunk_sizes": NS, "exhaustive": False,
        "traces_validated_against_impl": len(cases) - nundef,
    })
    ctx.assumptions += ["std::sort sorts (modelled by insertion sort); equal (global,attribute) keys inside one batch of new indices are "
                        "only generated with identical payload-free ordering, i.e. never with different payloads",
                        "ArrayList behaves as a list for push_back / eraseToHere / iteration / copy for every chunk size (C11)",
                        "seqNo_ (int) overflow after 2^31 resizes and uint32_t renumbering beyond 2^32 entries are outside the model; "
                        "the binary-search theorems carry the guard size <= 2^30 explicitly"]


def replay(ctx, path):
    rep = json.load(open(path))
    if "case" not in rep:
        print("no concrete case in this replay file; broken:", rep.get("broken")); print(rep.get("log", "")[-2000:])
        return 2
    case = rep["case"]
    exes = build(ctx)
    mo, io = run_all(ctx, exes, [case])
    m, ml, sp = split_model(mo[0])
    print("case  :", case); print("impl  :", io[0]); print("model :", m); print("legacy:", ml); print("spec  :", sp)
    chk = case.split()[1] == "1"
    modelonly = (not chk) and not wellformed(sp)
    if modelonly:
        print("regime: NDEBUG build + wrong-state calls: the property constrains nothing, only the model is compared")
    v = judge(case, io[0], m if modelonly else sp)
    for sig, det in v:
        print("oracle: REJECTS %s %s" % (sig, json.dumps(det)))
    if not v:
        print("oracle: accepts")
    return 1 if v else 0
