"""C04 — RemoteIndices equals the pairwise intersection of the published index sets (DESIGN.md section 4, C04)."""
import os, sys, re, json, itertools, time
import vcheck as V

META = {
    "level": "proof",
    "technique": "Coq proof (literal merge-join loop = join comprehension; ring forwards exactly the other ranks' buffers; build over "
                 "ANY arrival order = set-comprehension spec; sync history) + extracted model/spec vs MPI C++ differential "
                 "correspondence with a set-comprehension oracle, P = 1..5 (thorough 7), ring and neighbour mode, PMPI schedule shim",
    "text": "Theorems in coq/Properties_C04.v: for all sorted index sets the model of unpackIndices (transcription of the loop with "
            "index / oldGlobal / restart) returns the join of the received with the local published pairs; the ring delivers in round k "
            "the buffer packed by rank (p-k) mod P and visits every other rank once; for every P, every pair of decompositions, "
            "ignorePublic, includeSelf, ring mode or admissible neighbour hints and EVERY order of arrival the map built by rank p is "
            "the set-comprehension spec (send = own source x remote target, receive = own target x remote source, ascending, ranks "
            "sharing nothing absent, self entry as documented), hence independent of the arrival order; under a small-step semantics of the blocking calls every execution of the ring (all P >= 2, any interleaving) and of the neighbour mode (consistent hints, any probe order) terminates in the final configuration with exactly these data; isSynced is false exactly "
            "when a resize completed since the last build and a rebuild re-establishes the spec.  The model is tied to "
            "dune/common/parallel/remoteindices.hh on every run by running extracted model, extracted spec and the real class under "
            "mpirun on identical generated decompositions, each with global index type int and with one of long / unsigned long long / "
            "bigunsignedint<55|64|100> (values using the most significant digit) / short over the whole signed range with attribute "
            "enumerators -128..127.  Dimension audit 2: a re-used object builds on the communicator given LAST (C04_obj_history_comm) and, "
            "once re-targeted by setIndexSets + setIncludeSelf, behaves in every further history like a freshly constructed object "
            "(C04_retarget_as_fresh); includeSelf may differ from process to process (C04_build_incs); the harness varies the communicator "
            "(given / duplicate / reversed / rotated ranks), pre-built objects, per-rank includeSelf and index sets of several hundred pairs.",
    "note": "Trusted: Coq kernel, extraction, OCaml driver, C++ MPI harness, OpenMPI (matching, non-overtaking, MPI_Pack of the struct "
            "datatype; the small-step semantics of Ssend/Recv rendezvous and of Issend/Probe(ANY_SOURCE)/Recv/Waitall used by C04_ring_no_deadlock and C04_neighbour_mode_terminates is a model of MPI), std::map; mixed one/two-set "
            "configurations are outside the property (model returns MIXED); seqNo int overflow not modelled.",
    "design_ref": "DESIGN.md section 4 C04",
}

HARNESS = [os.path.join(V.VERIF, "harness/C04/impl.cc")]
SHIM = os.path.join(V.VERIF, "harness/common/pmpi_sched.c")


# ----------------------------------------------------------------------------- cases
class Case:
    """P, two, ign, incself, mode, seed, ign2, resize, src[ph][r], dst[ph][r] (lists of (g, li, attr, pub) sorted by (g, attr)),
    hints[r], orders[r]"""
    def tw(self, r):
        """does rank r pass two index-set objects (source_ != target_)?  c.twos (per rank) overrides the uniform c.two"""
        t = getattr(self, "twos", None)
        return bool(t[r]) if t is not None else bool(self.two)

    def mixed(self):
        return len({self.tw(r) for r in range(self.P)}) > 1

    def twocode(self):
        return 2 + sum(1 << r for r in range(self.P) if self.tw(r)) if self.mixed() else int(self.tw(0))

    def inc(self, r):
        """includeSelf of rank r: c.incs (per rank) overrides the uniform c.incself"""
        t = getattr(self, "incs", None)
        return bool(t[r]) if t is not None else bool(self.incself)

    def line(self):
        incs = getattr(self, "incs", None)
        inctok = 2 + sum(1 << r for r in range(self.P) if incs[r]) if incs is not None else int(self.incself)
        modetok = int(self.mode) + 2 * getattr(self, "ck", 0) + 8 * getattr(self, "pre", 0)
        t = [self.P, self.twocode(), int(self.ign), inctok, modetok, self.seed, int(self.ign2), self.resize]
        for ph in (0, 1):
            for r in range(self.P):
                for s in (self.src[ph][r], self.dst[ph][r]):
                    t.append(len(s))
                    for x in s: t += list(x)
        for l in self.hints: t += [len(l)] + list(l)
        for l in self.orders: t += [len(l)] + list(l)
        return " ".join(map(str, t))


def parse_case(line):
    t = list(map(int, line.split())); pos = [0]
    def nx():
        v = t[pos[0]]; pos[0] += 1; return v
    c = Case()
    c.P, code, c.ign, inctok, modetok, c.seed, c.ign2, c.resize = nx(), nx(), nx() == 1, nx(), nx(), nx(), nx() == 1, nx()
    c.two = code != 0
    c.mode, c.ck, c.pre = modetok & 1, (modetok >> 1) & 3, (modetok >> 3) & 1
    c.incself = inctok == 1
    if inctok >= 2:
        c.incs = [bool(((inctok - 2) >> r) & 1) for r in range(c.P)]; c.incself = any(c.incs)
    if code >= 2: c.twos = [bool(((code - 2) >> r) & 1) for r in range(c.P)]
    def rset():
        return [(nx(), nx(), nx(), nx()) for _ in range(nx())]
    c.src, c.dst = [[], []], [[], []]
    for ph in (0, 1):
        for r in range(c.P):
            c.src[ph].append(rset()); c.dst[ph].append(rset())
    c.hints = [[nx() for _ in range(nx())] for _ in range(c.P)]
    c.orders = [[nx() for _ in range(nx())] for _ in range(c.P)]
    return c


# ----------------------------------------------------------------------------- python oracle (the set comprehension)
def pub(ign, s):
    return [x for x in s if ign or x[3]]


def join(from_self, local, remote):
    """[(local pair, remote attr) | r <- remote, l <- local, g equal (, attrs differ)]  (locals bucketed by g: same list, same order)"""
    byg = {}
    for l in local: byg.setdefault(l[0], []).append(l)
    return [(l, r[2]) for r in remote for l in byg.get(r[0], ()) if (not from_self or l[2] != r[2])]


def spec_map(c, ph, ign):
    """per rank: dict q -> (send, recv[, send_lo, recv_lo]); for the undocumented combination two sets + includeSelf the self entry is
    only bounded: lo (equal-attribute pairs dropped) <= impl <= hi (full intersection)."""
    res = []
    tgt = lambda r: c.dst[ph][r] if c.tw(r) else c.src[ph][r]
    for p in range(c.P):
        m = {}
        for q in range(c.P):
            if q == p:
                if c.tw(p):
                    hi = (join(False, pub(ign, c.src[ph][p]), pub(ign, tgt(p))), join(False, pub(ign, tgt(p)), pub(ign, c.src[ph][p])))
                    if c.inc(p):
                        lo = (join(True, pub(ign, c.src[ph][p]), pub(ign, tgt(p))), join(True, pub(ign, tgt(p)), pub(ign, c.src[ph][p])))
                        m[q] = hi + lo
                    elif hi[0] or hi[1]:
                        m[q] = hi
                elif c.inc(p):
                    s = join(True, pub(ign, c.src[ph][p]), pub(ign, c.src[ph][p]))
                    if s: m[q] = (s, s)
            else:
                send = join(False, pub(ign, c.src[ph][p]), pub(ign, tgt(q)))
                recv = join(False, pub(ign, tgt(p)), pub(ign, c.src[ph][q]))
                if send or recv: m[q] = (send, recv)
        res.append(m)
    return res


ENT = re.compile(r"(\d+):S\[([^\]]*)\]R\[([^\]]*)\]")


def parse_map(s):
    m = {}
    for q, a, b in ENT.findall(s):
        f = lambda z: [((int(e.split(".")[0]), int(e.split(".")[1]), int(e.split(".")[2]), int(e.split(".")[3])), int(e.split(".")[4])) for e in z.split()]
        m[int(q)] = (f(a), f(b))
    return m


RANK = re.compile(r"^r(\d+) pre=(\d) syn=(\d) nb=(\d+) \{([^}]*)\} aft=(\d) syn2=(\d) nb2=(\d+) \{([^}]*)\}$")


def sublist(a, b):
    it = iter(b)
    return all(any(x == y for y in it) for x in a)


def check_map(c, exp, got, nb, tag):
    if nb != len(got): return "%s: neighbours()=%d but %d ranks in the map" % (tag, nb, len(got))
    for q in sorted(set(exp) | set(got)):
        e = exp.get(q)
        if e is not None and len(e) == 4:          # bounded self entry (two sets + includeSelf)
            g = got.get(q, ([], []))
            for k, nm in ((0, "send"), (1, "recv")):
                if not sublist(g[k], e[k]): return "%s: self %s list has entries outside the own source/target intersection: %s" % (tag, nm, g[k])
                if not sublist(e[k + 2], g[k]): return "%s: self %s list misses different-attribute pairs: %s vs %s" % (tag, nm, g[k], e[k + 2])
            if q not in got and (e[2] or e[3]): return "%s: self entry missing" % tag
            continue
        if e is None: return "%s: rank %d appears (%s) but shares no published index" % (tag, q, got[q])
        if q not in got: return "%s: rank %d missing; expected send=%s recv=%s" % (tag, q, e[0], e[1])
        for k, nm in ((0, "send"), (1, "recv")):
            if got[q][k] != e[k]:
                return "%s: %s list for rank %d is %s, the intersection is %s" % (tag, nm, q, got[q][k], e[k])
    return None


def oracle(c, impl_line):
    """None if the property accepts the impl's observation, else (kind, reason)."""
    if impl_line.startswith("CRASH") or impl_line.startswith("HANG") or impl_line.startswith("NOT-RUN"):
        return ("hang" if "HANG" in impl_line else "crash", impl_line)
    if "{SEGV}" in impl_line:
        return ("crash", "reading the local index pair of a remote index (RemoteIndex::localIndexPair()) dereferenced an invalid pointer: " + impl_line[:300])
    parts = impl_line.split(" ; ")
    if len(parts) != c.P: return ("format", "expected %d rank records, got %d" % (c.P, len(parts)))
    e1 = spec_map(c, 0, c.ign)
    e2 = spec_map(c, 1 if c.resize else 0, c.ign2)
    for p, s in enumerate(parts):
        m = RANK.match(s)
        if not m or int(m.group(1)) != p: return ("format", "rank record %d unreadable: %s" % (p, s[:200]))
        pre, syn, nb, m1, aft, syn2, nb2, m2 = int(m.group(2)), int(m.group(3)), int(m.group(4)), m.group(5), int(m.group(6)), int(m.group(7)), int(m.group(8)), m.group(9)
        if pre != 0: return ("sync", "rank %d: isSynced() is true before the first build" % p)
        if syn != 1: return ("sync", "rank %d: isSynced() is false right after rebuild" % p)
        if aft != (0 if c.resize else 1): return ("sync", "rank %d: isSynced()=%d after %s" % (p, aft, "a resize" if c.resize else "no resize"))
        if syn2 != 1: return ("sync", "rank %d: isSynced() is false right after the second rebuild" % p)
        r = check_map(c, e1[p], parse_map(m1), nb, "rank %d build 1" % p)
        if r: return ("lists", r)
        r = check_map(c, e2[p], parse_map(m2), nb2, "rank %d build 2" % p)
        if r: return ("lists2", r)
    return None


def sig_of(c, kind, gtype=0):
    return "C04:%s:%s:%s%s" % (kind, "mixed" if c.mixed() else "two" if c.two else "one", "nbr" if c.mode else "ring", (":gtype=" + GTYPES[gtype]) if gtype else "")


GTYPES = ["int", "long", "unsigned_long_long", "bigunsignedint55", "bigunsignedint64", "bigunsignedint100", "short_signed_extremes"]


def comm_rank(k, P, w):
    """rank of process w in communicator kind k (0 given, 1 duplicate, 2 reversed, 3 rotated)"""
    return P - 1 - w if k == 2 else (w + 1) % P if k == 3 else w


def comm_world(k, P, i):
    return P - 1 - i if k == 2 else (i + P - 1) % P if k == 3 else i


def comm_view(k, l):
    return [l[comm_world(k, len(l), i)] for i in range(len(l))]


def gtype_of(line):
    """the global index type the harness picks for this case line under C04_GTYPE=rot: 1 + FNV-1a(line) % 6"""
    h = 2166136261
    for ch in line.encode():
        h = ((h ^ ch) * 16777619) & 0xffffffff
    return 1 + h % 6


# ----------------------------------------------------------------------------- generator
def sharing(c):
    """symmetric graph: p~q iff they share a global index in some phase (public flags ignored: superset of every build's graph)"""
    g = [set() for _ in range(c.P)]
    for ph in (0, 1):
        for p in range(c.P):
            for q in range(c.P):
                if p == q: continue
                sp = {x[0] for x in c.src[ph][p]}; tq = {x[0] for x in (c.dst[ph][q] if c.tw(q) else c.src[ph][q])}
                if sp & tq: g[p].add(q); g[q].add(p)
    return g


def finish_case(c, rng):
    c.hints = [[] for _ in range(c.P)]; c.orders = [[] for _ in range(c.P)]
    if c.P == 1:
        c.hints = [[0]] if (c.mode and rng.random() < 0.5) else [[]]
        return c
    if c.mode:
        g = sharing(c)
        extra = rng.choice([0, 0, 1, 3])
        for _ in range(extra):
            p, q = rng.randrange(c.P), rng.randrange(c.P)
            if p != q: g[p].add(q); g[q].add(p)
        for p in range(c.P):                       # "non-empty": a rank without hints would start a ring on its own
            if not g[p]:
                q = rng.choice([x for x in range(c.P) if x != p]); g[p].add(q); g[q].add(p)
        for p in range(c.P):
            h = sorted(g[p])
            o = list(h); rng.shuffle(o)
            if rng.random() < 0.25: h = sorted(h + [p])          # the rank itself among its hints (erased by the code)
            hh = list(h); rng.shuffle(hh)
            c.hints[p] = hh; c.orders[p] = o
    return c


def gen_set(rng, globs, attrs, pubmode, dup):
    s = []
    lis = rng.sample(range(100), min(100, len(globs) * 3 + 3))
    for g in sorted(globs):
        k = 1
        if dup and rng.random() < 0.4: k = rng.choice([2, 2, 3])
        for a in sorted(rng.sample(range(attrs), min(k, attrs))):
            pb = 1 if pubmode == 1 else 0 if pubmode == 2 else int(rng.random() < 0.7)
            s.append((g, lis.pop(), a, pb))
    return s


def gen_decomp(rng, P, U, kind, dens):
    """per rank a set of globals, from an overlap graph"""
    owner = [rng.randrange(P) for _ in range(U)]
    if kind == "chain": adj = [{p - 1, p + 1} & set(range(P)) for p in range(P)]
    elif kind == "ringg": adj = [{(p - 1) % P, (p + 1) % P} - {p} for p in range(P)]
    elif kind == "star": adj = [set(range(1, P)) if p == 0 else {0} for p in range(P)]
    elif kind == "complete": adj = [set(range(P)) - {p} for p in range(P)]
    else:
        adj = [set() for _ in range(P)]
        for p in range(P):
            for q in range(p):
                if rng.random() < 0.4: adj[p].add(q); adj[q].add(p)
    sets = [set() for _ in range(P)]
    for g in range(U):
        if rng.random() < 0.9: sets[owner[g]].add(g)
        for q in adj[owner[g]]:
            if rng.random() < dens: sets[q].add(g)
        if rng.random() < 0.05: sets[rng.randrange(P)].add(g)
    for p in range(P):
        if rng.random() < 0.08: sets[p] = set()          # empty rank
    return sets


def mutate_set(rng, s, U, attrs):
    s = list(s)
    z = rng.random()
    if z < 0.15: return s                                # resized without change
    for _ in range(rng.choice([1, 1, 2, 3])):
        if s and rng.random() < 0.5:
            s.pop(rng.randrange(len(s)))
        else:
            g = rng.randrange(U + 2)
            if any(x[0] == g for x in s): continue
            li = rng.choice([v for v in range(100, 130) if all(x[1] != v for x in s)])
            s.append((g, li, rng.randrange(attrs), int(rng.random() < 0.8)))
    return sorted(s, key=lambda x: (x[0], x[2]))


def gen_random(rng, P, seedno):
    c = Case()
    c.P = P
    c.two = rng.random() < 0.5
    if c.two and P >= 2 and rng.random() < 0.4:      # mixed: some ranks pass ONE object for both roles, the others two
        while True:
            c.twos = [rng.random() < 0.5 for _ in range(P)]
            if len(set(c.twos)) > 1: break
    c.ign = rng.random() < 0.35; c.ign2 = c.ign if rng.random() < 0.6 else (not c.ign)
    c.incself = rng.random() < 0.35
    c.mode = 1 if rng.random() < 0.5 else 0
    c.seed = seedno if rng.random() < 0.85 else 0
    c.resize = rng.choice([0, 0, 1, 2, 3, 1, 2])
    U = rng.choice([1, 2, 4, 8, 12, 16])
    attrs = rng.choice([1, 2, 3, 3])
    dup = rng.random() < 0.15
    pubmode = rng.choice([0, 0, 0, 1, 2])
    kind = rng.choice(["chain", "ringg", "star", "complete", "random"])
    dens = rng.choice([0.2, 0.5, 0.9])
    ss = gen_decomp(rng, P, U, kind, dens)
    c.src = [[gen_set(rng, ss[p], attrs, pubmode, dup) for p in range(P)], None]
    if c.two:
        if c.mixed(): dup = False             # the two-list unpackIndices handles one copy per global index only
        tt = gen_decomp(rng, P, U, rng.choice([kind, "random", "complete"]), dens) if rng.random() < 0.7 else ss
        if c.mixed(): c.src = [[gen_set(rng, ss[p], attrs, pubmode, False) for p in range(P)], None]
        c.dst = [[gen_set(rng, tt[p], attrs, pubmode, dup) if c.tw(p) else [] for p in range(P)], None]
    else:
        c.dst = [[[] for _ in range(P)], None]
    # dimension audit 2: communicator kind (the case is numbered by the ranks IN it), pre-existing state of the object
    # (built elsewhere, then re-targeted), includeSelf differing from rank to rank
    c.ck = rng.choice([0, 0, 1, 2, 2, 3]); c.pre = int(rng.random() < 0.3)
    if P >= 2 and not c.mixed() and rng.random() < 0.3:
        c.incs = [rng.random() < 0.5 for _ in range(P)]; c.incself = any(c.incs)
    c.src[1] = [mutate_set(rng, s, U, attrs) if (c.resize & 1 or (not c.tw(p) and c.resize)) else list(s) for p, s in enumerate(c.src[0])]
    c.dst[1] = [mutate_set(rng, s, U, attrs) if (c.tw(p) and c.resize & 2) else list(s) for p, s in enumerate(c.dst[0])]
    return finish_case(c, rng)


def gen_large(rng, P, seedno):
    """scale: index sets of several hundred pairs (messages beyond the eager limit, counters beyond 255), globals up to 550"""
    c = Case(); c.P = P; c.two = rng.random() < 0.5; c.ign = rng.random() < 0.3; c.ign2 = not c.ign if rng.random() < 0.3 else c.ign
    c.incself = rng.random() < 0.3; c.mode = int(rng.random() < 0.5); c.seed = seedno; c.resize = rng.choice([0, 1, 3])
    c.ck = rng.choice([0, 2, 3]); c.pre = int(rng.random() < 0.3)
    U = rng.choice([400, 550]); dup = rng.random() < 0.4
    def big():
        out = []; n = 0
        dens = rng.choice([0.6, 0.75])
        for g in range(U):
            if rng.random() < dens:
                for a in sorted(rng.sample(range(3), rng.choice([2, 3]) if (dup and rng.random() < 0.2) else 1)):
                    out.append((g, (n * 7) % 3001, a, int(rng.random() < 0.8))); n += 1
        return out
    c.src = [[big() for _ in range(P)], None]
    c.dst = [[big() if c.two else [] for _ in range(P)], None]
    c.src[1] = [mutate_set(rng, x, U, 3) if (c.resize & 1 or (not c.two and c.resize)) else list(x) for x in c.src[0]]
    c.dst[1] = [mutate_set(rng, x, U, 3) if (c.two and c.resize & 2) else list(x) for x in c.dst[0]]
    return finish_case(c, rng)


def gen_exhaustive(rng):
    """P = 2, one index set, globals {0,1}: every choice of absent / (attr, public) per rank and global, both publicity modes"""
    opts = [None] + [(a, pb) for a in (0, 1) for pb in (0, 1)]
    out = []
    n = 0
    for r0 in itertools.product(opts, repeat=2):
        for r1 in itertools.product(opts, repeat=2):
            for ign in (False, True):
                c = Case(); c.P = 2; c.two = False; c.ign = ign; c.ign2 = not ign; c.incself = (n % 3 == 0)
                c.mode = n % 2; c.seed = n % 5; c.resize = 0
                mk = lambda r, base: [(g, base + g, o[0], o[1]) for g, o in enumerate(r) if o is not None]
                c.src = [[mk(r0, 10), mk(r1, 20)], [mk(r0, 10), mk(r1, 20)]]
                c.dst = [[[], []], [[], []]]
                out.append(finish_case(c, rng)); n += 1
    return out


def gen(ctx):
    cases = []
    cp = os.path.join(V.VERIF, "corpus", "C04", "cases.txt")
    if os.path.exists(cp):
        cases += [parse_case(l) for l in open(cp) if l.strip() and not l.startswith("#")]
    rng = ctx.rng("gen")
    cases += gen_exhaustive(rng)
    Ps = [1, 2, 3, 4, 5] if ctx.quick else [1, 2, 3, 4, 5, 6, 7]
    per = {1: 60, 2: 220, 3: 260, 4: 200, 5: 160} if ctx.quick else {1: 300, 2: 6000, 3: 8000, 4: 6000, 5: 4000, 6: 2500, 7: 1500}
    n = 0
    for P in Ps:
        for _ in range(per[P]):
            n += 1
            cases.append(gen_random(rng, P, n))
    rl = ctx.rng("large")
    for j in range(4 if ctx.quick else 30):
        cases.append(gen_large(rl, 2 + j % 2 if ctx.quick else 2 + j % 3, 900000 + j))
    return cases



# ----------------------------------------------------------------------------- object histories
class HCase:
    """one RemoteIndices object re-used: P, two, seed, D[m] = (src[r], dst[r]), slot0[j], ctor = (kind, slot, hints|None, inc), ops"""
    def line(self):
        t = [self.P, int(self.two), self.seed, len(self.D)]
        def sets(d):
            for r in range(self.P):
                for z in (d[0][r], d[1][r]):
                    t.append(len(z))
                    for x in z: t.extend(x)
        def hints(h):
            for l in h: t.extend([len(l)] + list(l))
        for d in self.D: sets(d)
        t += [len(self.slot0)] + list(self.slot0)
        k, sl, h, inc = self.ctor
        t += [k, sl + 16 * getattr(self, "cck", 0), int(h is not None), int(inc)]
        if h is not None: hints(h)
        t.append(len(self.ops))
        for o in self.ops:
            t.append(o[0])
            if o[0] == 1:
                t += [o[1] + 16 * (o[3] if len(o) > 3 else 0), int(o[2] is not None)]
                if o[2] is not None: hints(o[2])
            elif o[0] == 2: hints(o[1])
            elif o[0] == 3: t.append(int(o[1]))
            elif o[0] == 5: t += [int(o[1]), int(o[2])]
            elif o[0] == 6: t += [o[1], int(o[2]), int(o[3]), o[4]]
        return " ".join(map(str, t))


def parse_hcase(line):
    t = list(map(int, line.split())); pos = [0]
    def nx():
        v = t[pos[0]]; pos[0] += 1; return v
    c = HCase(); c.P, c.two, c.seed = nx(), nx() == 1, nx(); M = nx()
    rset = lambda: [(nx(), nx(), nx(), nx()) for _ in range(nx())]
    c.D = []
    for _ in range(M):
        src, dst = [], []
        for r in range(c.P): src.append(rset()); dst.append(rset())
        c.D.append((src, dst))
    c.slot0 = [nx() for _ in range(nx())]
    rh = lambda: [[nx() for _ in range(nx())] for _ in range(c.P)]
    k, sl, hf, inc = nx(), nx(), nx(), nx() == 1
    c.cck = (sl >> 4) & 3; sl &= 15
    c.ctor = (k, sl, rh() if hf else None, inc)
    c.ops = []
    for _ in range(nx()):
        k = nx()
        if k == 1:
            sl, hf = nx(), nx(); c.ops.append((1, sl & 15, rh() if hf else None, (sl >> 4) & 3))
        elif k == 2: c.ops.append((2, rh()))
        elif k == 3: c.ops.append((3, nx() == 1))
        elif k == 4: c.ops.append((4,))
        elif k == 5: c.ops.append((5, nx() == 1, nx() == 1))
        elif k == 6: c.ops.append((6, nx(), nx() == 1, nx() == 1, nx()))
    return c


def hist_walk(c):
    """the history spec (python mirror of c04_hspec_step): yields, per rebuild, (synced_before or None, hints after, held content, ign, incEff)"""
    cont = [[list(c.D[m][0]), list(c.D[m][1])] for m in c.slot0]
    k, cur, h, inc = c.ctor
    hints = [sorted(set(l)) for l in h] if h is not None else [[] for _ in range(c.P)]
    built, stale, held = None, False, None
    out = []
    ck = getattr(c, "cck", 0)                       # the communicator given last; hints are indexed by the rank in it
    for o in c.ops:
        if o[0] == 1:
            ck = o[3] if len(o) > 3 else 0
            cur = o[1]; hints = [sorted(set(l)) for l in o[2]] if o[2] is not None else [[] for _ in range(c.P)]
            built, stale, held = None, False, None
        elif o[0] == 2: hints = [sorted(set(l)) for l in o[1]]
        elif o[0] == 3: inc = o[1]
        elif o[0] == 4: built, stale, held = None, False, None
        elif o[0] == 6:
            _, sl, ws, wd, m = o
            if ws: cont[sl][0] = list(c.D[m][0])
            if wd: cont[sl][1] = list(c.D[m][1])
            if sl == cur and (ws or wd): stale = True
        elif o[0] == 5:
            ign = o[1]
            before = None if built is None else (not stale)
            if built is None or ign != built or stale:
                early = c.P == 1 and not (c.two or inc)
                if not early: hints = [[q for q in l if q != p] for p, l in enumerate(hints)]
                held = ([list(x) for x in cont[cur][0]], [list(x) for x in cont[cur][1]], ign, inc)
                built, stale = ign, False
            out.append((before, [list(l) for l in hints], held, ck))
    return out


HREC = re.compile(r"\[b=([\d?]) s=(\d) gn=([\d,]*) eq=(\d) nb=(\d+) \{([^}]*)\}([^\]]*)\]")


def hist_oracle(c, impl_line):
    if impl_line.startswith("CRASH") or impl_line.startswith("HANG") or impl_line.startswith("NOT-RUN"):
        return ("hang" if "HANG" in impl_line else "crash", impl_line)
    parts = impl_line.split(" ; ")
    if len(parts) != c.P: return ("format", "expected %d rank records, got %d: %s" % (c.P, len(parts), impl_line[:200]))
    exp = hist_walk(c)
    for p, s in enumerate(parts):
        if not s.startswith("r%d" % p): return ("format", "rank record %d unreadable: %s" % (p, s[:200]))
        recs = HREC.findall(s)
        if len(recs) != len(exp): return ("format", "rank %d: %d rebuild records, expected %d" % (p, len(recs), len(exp)))
        for n, (rec, (before, hints, held, ck)) in enumerate(zip(recs, exp)):
            b, sy, gn, eq, nb, mp, bad = rec
            tag = "rank %d rebuild %d" % (p, n + 1)
            if sy != "1": return ("sync", "%s: isSynced() false right after rebuild" % tag)
            if before is not None and b != "?" and int(b) != int(before):
                return ("sync", "%s: isSynced()=%s before the rebuild, but the targeted sets were %sresized since the last build" % (tag, b, "" if not before else "not "))
            # the build runs on communicator ck: process p has rank cp in it, the sets are seen through its numbering
            cp = comm_rank(ck, c.P, p)
            k = Case(); k.P, k.two, k.incself = c.P, c.two, held[3]; k.src = [comm_view(ck, held[0])]; k.dst = [comm_view(ck, held[1])]
            r = check_map(k, spec_map(k, 0, held[2])[cp], parse_map(mp), int(nb), tag)
            if r: return ("lists", r + (" (communicator kind %d, rank %d in it)" % (ck, cp) if ck else ""))
            if [int(x) for x in gn.split(",") if x] != hints[cp]: return ("neighbours", "%s: getNeighbours()=[%s], expected %s" % (tag, gn, hints[cp]))
            if eq != "1": return ("opeq", "%s: operator== against a freshly built object over the same index sets is false" % tag)
            if bad.strip(): return ("api", "%s:%s" % (tag, bad))
    return None


def gen_hist(rng, P, seedno):
    c = HCase(); c.P = P; c.two = rng.random() < 0.45; c.seed = seedno if rng.random() < 0.8 else 0
    U = rng.choice([2, 4, 8, 12]); attrs = rng.choice([1, 2, 3]); pubmode = rng.choice([0, 0, 1]); dup = rng.random() < 0.1
    M = rng.choice([2, 3, 3])
    c.D = []
    for _ in range(M):
        kind = rng.choice(["chain", "ringg", "star", "complete", "random"]); dens = rng.choice([0.3, 0.6, 0.9])
        ss = gen_decomp(rng, P, U, kind, dens)
        src = [gen_set(rng, ss[p], attrs, pubmode, dup) for p in range(P)]
        if c.two:
            tt = gen_decomp(rng, P, U, rng.choice([kind, "random"]), dens)
            dst = [gen_set(rng, tt[p], attrs, pubmode, dup) for p in range(P)]
        else:
            dst = [[] for _ in range(P)]
        c.D.append((src, dst))
    c.slot0 = [rng.randrange(M), rng.randrange(M)]
    HOLE = "H"                                      # hints to be filled in by the second pass
    def hint_choice(): return HOLE if rng.random() < 0.6 else None
    ckc = lambda: rng.choice([0, 0, 1, 2, 2, 3])     # communicator kind given with the constructor / each setIndexSets
    c.cck = ckc()
    c.ctor = (rng.choice([0, 0, 1]), rng.randrange(2), hint_choice(), rng.random() < 0.3)
    ops = []
    for _ in range(rng.choice([2, 3, 3, 4])):
        for _ in range(rng.choice([0, 1, 1, 2, 3])):
            z = rng.random()
            if z < 0.3: ops.append((1, rng.randrange(2), hint_choice(), ckc()))
            elif z < 0.45: ops.append((2, HOLE if rng.random() < 0.7 else "EMPTY"))
            elif z < 0.6: ops.append((3, rng.random() < 0.5))
            elif z < 0.7: ops.append((4,))
            else:
                if c.two: ws, wd = rng.choice([(True, False), (False, True), (True, True)])
                else: ws, wd = True, rng.random() < 0.1
                ops.append((6, rng.randrange(2), ws, wd, rng.randrange(M)))
        ops.append((5, rng.random() < 0.4, False))
    # second pass: simulate, collect per hint epoch the contents that are built under it, fill tight admissible hints
    cont = [[c.D[m][0], c.D[m][1]] for m in c.slot0]
    cur = c.ctor[1]; ck = c.cck
    epochs = []                                     # [setter index (-1 = ctor), list of (src, dst) contents built]
    ep = [-1, []] if c.ctor[2] == HOLE else None
    for i, o in enumerate(ops):
        if o[0] == 1:
            cur = o[1]; ck = o[3]
            if ep: epochs.append(ep)
            ep = [i, []] if o[2] == HOLE else None
        elif o[0] == 2:
            if ep: epochs.append(ep)
            ep = [i, []] if o[1] == HOLE else None
        elif o[0] == 6:
            if o[2]: cont[o[1]][0] = c.D[o[4]][0]
            if o[3] and c.two: cont[o[1]][1] = c.D[o[4]][1]
        elif o[0] == 5 and ep is not None:
            ep[1].append((comm_view(ck, cont[cur][0]), comm_view(ck, cont[cur][1])))
    if ep: epochs.append(ep)
    def mk_hints(builds):
        g = [set() for _ in range(P)]
        for src, dst in builds:
            for p in range(P):
                for q in range(P):
                    if p != q and {x[0] for x in src[p]} & {x[0] for x in (dst[q] if c.two else src[q])}: g[p].add(q); g[q].add(p)
        for _ in range(rng.choice([0, 0, 0, 1, 2])):
            p, q = rng.randrange(P), rng.randrange(P)
            if p != q: g[p].add(q); g[q].add(p)
        if P == 1: return [[0]] if rng.random() < 0.5 else [[]]
        for p in range(P):
            if not g[p]:
                q = rng.choice([x for x in range(P) if x != p]); g[p].add(q); g[q].add(p)
        h = []
        for p in range(P):
            l = sorted(g[p]) + ([p] if rng.random() < 0.2 else []) + ([sorted(g[p])[0]] if rng.random() < 0.1 else [])
            rng.shuffle(l); h.append(l)
        return h
    fill = {i: mk_hints(b) for i, b in epochs}
    k, sl, h, inc = c.ctor
    c.ctor = (k, sl, fill[-1] if h == HOLE else None, inc)
    for i, o in enumerate(ops):
        if o[0] == 1 and o[2] == HOLE: ops[i] = (1, o[1], fill[i], o[3])
        elif o[0] == 2: ops[i] = (2, fill[i] if o[1] == HOLE else [[] for _ in range(P)])
    c.ops = ops
    # third pass: the includeSelf value a comparison object must use = the one in force at the last effective build
    w = hist_walk(c); j = 0
    for i, o in enumerate(c.ops):
        if o[0] == 5:
            c.ops[i] = (5, o[1], w[j][2][3]); j += 1
    return c


def gen_hists(ctx):
    cases = []
    cp = os.path.join(V.VERIF, "corpus", "C04", "hist.txt")
    if os.path.exists(cp):
        cases += [parse_hcase(l) for l in open(cp) if l.strip() and not l.startswith("#")]
    rng = ctx.rng("hist")
    per = {1: 30, 2: 80, 3: 200, 4: 160, 5: 120} if ctx.quick else {1: 100, 2: 600, 3: 2000, 4: 1500, 5: 1200, 6: 600, 7: 400}
    n = 0
    for P in sorted(per):
        for _ in range(per[P]):
            n += 1; cases.append(gen_hist(rng, P, n))
    return cases

# ----------------------------------------------------------------------------- running
def build_impl(ctx, san=False):
    srcs = list(HARNESS); flags = []
    if os.path.exists(SHIM):
        srcs.append(SHIM); flags.append("-DC04_WITH_SHIM")
    else:
        ctx.notes.append("harness/common/pmpi_sched.c not present: probe order not perturbed")
    jobs = [dict(srcs=srcs, out=ctx.path("impl"), mpi=True, flags=flags)]
    if san:
        jobs.append(dict(srcs=srcs, out=ctx.path("impl_san"), mpi=True, flags=flags, san=True))
    outs = V.cxx_many(ctx, jobs)
    return outs if san else outs[0]


def run_impl(ctx, exe, cases, tag, tmo=None, env=None, hist=False):
    """cases: list of Case; grouped by P (one mpirun -np P launch per group); returns list of lines in case order"""
    tmo = tmo or (30 if ctx.quick else 60)
    out = [None] * len(cases)
    shim = [0, 0, 0]
    for P in sorted(set(c.P for c in cases)):
        idx = [i for i, c in enumerate(cases) if c.P == P]
        lines = [cases[i].line() for i in idx]
        cmd = ["mpirun", "--allow-run-as-root", "--oversubscribe", "-np", str(P), exe] + (["hist"] if hist else [])
        t0 = time.time()
        res = V.run_cases(ctx, cmd, lines, tag="%s.p%d" % (tag, P), timeout=max(300, len(lines) * 2 + 4 * tmo), max_restarts=4,
                          env=dict({"C04_CASE_TIMEOUT": str(tmo), "C04_SMALL_TIMEOUT": str(10 if tmo <= 60 else tmo), "OMPI_MCA_rmaps_base_oversubscribe": "1", "OMPI_MCA_mpi_yield_when_idle": "1"}, **(env or {})))
        ctx.log("%s: P=%d %d cases %.1fs" % (tag, P, len(lines), time.time() - t0))
        for i, l in zip(idx, res): out[i] = l
        for f in sorted(os.listdir(ctx.build)):
            if f.startswith("%s.p%d.cases." % (tag, P)) and f.endswith(".err"):
                m = re.search(r"C04-SHIM sweeps=(\d+) reordered=(\d+) delays=(\d+)", open(ctx.path(f), errors="replace").read())
                if m:
                    for k in range(3): shim[k] += int(m.group(k + 1))
    return out, shim


def run_split(ctx, exe, cases, tag, **kw):
    """mixed one-object/two-object cases run in launches of their own: while finding F-C04-1 is open they can crash the
    impl, and a crashing case costs the cases queued behind it in the same launch"""
    ia = [i for i, c in enumerate(cases) if not c.mixed()]; ib = [i for i, c in enumerate(cases) if c.mixed()]
    out = [None] * len(cases); shim = [0, 0, 0]
    for idx, t in ((ia, tag), (ib, tag + "m")):
        if not idx: continue
        res, sh = run_impl(ctx, exe, [cases[i] for i in idx], t, **kw)
        for i, l in zip(idx, res): out[i] = l
        for k in range(3): shim[k] += sh[k]
    return out, shim


def rerun_alone(ctx, exe, c, tag, gtype=0):
    res, _ = run_impl(ctx, exe, [c], tag, tmo=120, env={"C04_GTYPE": str(gtype)})
    return res[0]


def shrink(ctx, exe, c, kind, gtype=0):
    """greedy removal of pairs (same pair in both phases) / of the resize while the oracle still rejects with the same kind"""
    import copy
    budget = [24]
    def fails(d):
        if budget[0] <= 0: return False
        budget[0] -= 1
        l = rerun_alone(ctx, exe, d, "shrink", gtype)
        o = oracle(d, l)
        return o is not None and o[0] == kind
    cur = c
    if cur.resize and kind not in ("lists2", "sync"):
        d = copy.deepcopy(cur); d.resize = 0; d.src[1] = copy.deepcopy(d.src[0]); d.dst[1] = copy.deepcopy(d.dst[0]); d.ign2 = d.ign
        if fails(d): cur = d
    changed = True
    while changed and budget[0] > 0:
        changed = False
        for which in ("src", "dst"):
            for r in range(cur.P):
                k = 0
                while k < len(getattr(cur, which)[0][r]) and budget[0] > 0:
                    d = copy.deepcopy(cur)
                    x = getattr(d, which)[0][r].pop(k)
                    if x in getattr(d, which)[1][r]: getattr(d, which)[1][r].remove(x)
                    if fails(d): cur = d; changed = True
                    else: k += 1
    return cur


def run(ctx):
    V.coq_stage(ctx)
    model = V.build_model(ctx)
    exe, exe_san = build_impl(ctx, san=True)
    cases = gen(ctx)
    lines = [c.line() for c in cases]
    ctx.log("generated %d cases" % len(cases))
    # the unary-nat fuel of the merge-join model nests deeply on the large cases: run the model without a stack limit
    model_cmd = ["sh", "-c", 'ulimit -s unlimited 2>/dev/null; exec "$0" "$@"', model]
    mo = V.run_cases(ctx, model_cmd, lines, tag="model", timeout=900)
    io, shim = run_split(ctx, exe, cases, "impl")
    # a timed-out / crashed case is re-run once alone before it is believed
    nrerun = 0
    for i, l in enumerate(io):
        if l is None: io[i] = l = "NOT-RUN(no output)"
        if (l.startswith("HANG") or l.startswith("CRASH")) and nrerun < 6:
            nrerun += 1
            l2 = rerun_alone(ctx, exe, cases[i], "alone")
            if not (l2.startswith("HANG") or l2.startswith("CRASH")):
                ctx.notes.append("case %d failed in the batch (%s) but returned when re-run alone" % (i, (l or "")[:60]))
            io[i] = l2
    # the same cases once more with the global index type rotating over long / unsigned long long / bigunsignedint<55|64|100>
    # (ids embedded order-preservingly so that the top bits / the most significant digit are in use): same observation required
    gio, _ = run_split(ctx, exe, cases, "gimpl", env={"C04_GTYPE": "rot"})
    ngt, gstat = 0, {}
    for i, (c, a) in enumerate(zip(cases, gio)):
        gt = gtype_of(lines[i]); gstat[GTYPES[gt]] = gstat.get(GTYPES[gt], 0) + 1
        if a is None or a.startswith("NOT-RUN"): continue
        if (a.startswith("HANG") or a.startswith("CRASH")) and ngt < 3:
            a = rerun_alone(ctx, exe, c, "galone", gt)
        o = oracle(c, a)
        if o is None and a == io[i]: continue
        ngt += 1
        if ngt <= 3 and o is not None:
            small = shrink(ctx, exe, c, o[0], gt) if o[0] not in ("hang", "crash", "format") else c
            sl = rerun_alone(ctx, exe, small, "gshrunk", gt) if small is not c else a
            so = oracle(small, sl) or o
            ctx.violation(sig_of(c, o[0], gt), {"case": small.line(), "gtype": gt, "global_index_type": GTYPES[gt], "impl": sl, "oracle": so[1],
                                                 "impl_with_int_globals": rerun_alone(ctx, exe, small, "gint", 0),
                                                 "original_case": lines[i], "original_impl": a, "replay_cmd": "bin/check C04 --replay <this file>"})
        elif ngt <= 20:
            ctx.violation(sig_of(c, o[0] if o else "differs-from-int", gt), {"case": lines[i], "gtype": gt, "global_index_type": GTYPES[gt], "impl": a,
                          "impl_with_int_globals": io[i], "oracle": o[1] if o else "accepts, but differs from the run with int globals"}, found_input=o is not None)
    # object histories: one RemoteIndices object re-used over several pairs of index sets
    hcases = gen_hists(ctx)
    hlines = [c.line() for c in hcases]
    hmo = V.run_cases(ctx, [model, "hist"], hlines, tag="hmodel", timeout=900)
    hio, _ = run_impl(ctx, exe, hcases, "himpl", hist=True)
    nh, hstat = 0, {"rebuilds": 0, "setIndexSets_with_hints": 0, "setIndexSets_without_hints": 0, "setNeighbours": 0, "setIncludeSelf": 0,
                    "free": 0, "resizes": 0, "default_ctor": 0, "rebuilds_not_taking_place": 0, "setIndexSets_changing_the_communicator_numbering": 0}
    for i, (c, m, a) in enumerate(zip(hcases, hmo, hio)):
        mm, _, spec = m.partition(" | ")
        for o in c.ops:
            if o[0] == 1: hstat["setIndexSets_with_hints" if o[2] is not None else "setIndexSets_without_hints"] += 1
            else: hstat[{2: "setNeighbours", 3: "setIncludeSelf", 4: "free", 5: "rebuilds", 6: "resizes"}[o[0]]] += 1
        hstat["default_ctor"] += c.ctor[0]
        kk = getattr(c, "cck", 0)
        for o in c.ops:
            if o[0] == 1:
                k2 = o[3] if len(o) > 3 else 0
                hstat["setIndexSets_changing_the_communicator_numbering"] += int(comm_view(kk, list(range(c.P))) != comm_view(k2, list(range(c.P)))); kk = k2
        hstat["rebuilds_not_taking_place"] += sum(1 for w in hist_walk(c) if w[0] is True)
        if a is None or a.startswith("NOT-RUN"): continue
        if (a.startswith("HANG") or a.startswith("CRASH")) and nh < 3:
            a = run_impl(ctx, exe, [c], "halone", tmo=120, hist=True)[0][0]
        o = hist_oracle(c, a)
        if o is not None:
            nh += 1
            if nh <= 12:
                ctx.violation("C04:hist-%s:%s" % (o[0], "two" if c.two else "one"),
                              {"case": hlines[i], "kind": "hist", "impl": a, "oracle": o[1], "model": mm, "spec": spec,
                               "ops": [list(map(str, x)) for x in [("ctor",) + tuple(c.ctor)] + list(c.ops)],
                               "replay_cmd": "bin/check C04 --replay <this file>"})
        elif a != mm:
            nh += 1
            if nh <= 5:
                ctx.violation("corr:C04/history", {"broken": "corr:C04/history", "case": hlines[i], "kind": "hist", "impl": a, "model": mm, "spec": spec,
                                                    "oracle": "accepts impl output"}, found_input=False)
        if hist_oracle(c, spec) is not None:
            ctx.violation("corr:C04/hist-spec-vs-python-oracle", {"broken": "extracted history spec and python mirror differ", "case": hlines[i],
                                                                   "spec": spec, "python": hist_oracle(c, spec)[1]}, found_input=False)
        ms = re.sub(r"b=\d", "b=?", mm) == re.sub(r"b=[\d?]", "b=?", spec)
        if not ms:
            ctx.violation("corr:C04/hist-model-vs-spec", {"broken": "extracted object model and extracted history spec differ (theorem C04_obj_history)",
                                                           "case": hlines[i], "model": mm, "spec": spec}, found_input=False)
    # ASan/UBSan build on a subsample (memory safety of the unpack loops and of the pointer-carrying lists)
    sub = list(range(0, len(cases), 9 if ctx.quick else 4))
    if any(k.get("id") == "F-C04-1" and k.get("status") == "known" for k in V.load_known("C04")) and not os.environ.get("C04_SAN_MIXED"):
        # while F-C04-1 is open the mixed configurations read outside an array: ASan would abort launch after launch
        sub = [i for i in sub if not cases[i].mixed()]
        ctx.notes.append("sanitizer pass skips the mixed one-set/two-set cases while finding F-C04-1 is listed as known")
    so, _ = run_split(ctx, exe_san, [cases[i] for i in sub], "san", tmo=60 if ctx.quick else 120,
                     env={"ASAN_OPTIONS": "detect_leaks=0:abort_on_error=0", "UBSAN_OPTIONS": "print_stacktrace=0"})
    nsan = 0
    for j, i in enumerate(sub):
        if so[j] != io[i] and not (so[j] or "").startswith("NOT-RUN"):
            nsan += 1
            if nsan <= 3:
                ctx.violation(sig_of(cases[i], "sanitizer"), {"case": lines[i], "impl": io[i], "impl_sanitized_build": so[j],
                                                               "oracle": "ASan/UBSan build behaves differently or aborts"})
    nviol = ndis = nspec = nnotrun = 0
    stats = {"communicator_kind": {}, "prebuilt_then_retargeted": 0, "includeSelf_per_rank": 0, "large_sets": 0, "P": {}, "mode": {}, "two": 0, "ign": 0, "incself": 0, "resize": {}, "dup_globals": 0, "self_entries": 0, "entries": 0,
             "ranks_without_neighbours": 0, "nonpublic_pairs": 0}
    nontriv = set()
    for i, (c, m, a) in enumerate(zip(cases, mo, io)):
        mm, _, spec = m.partition(" | ")
        stats["P"][c.P] = stats["P"].get(c.P, 0) + 1
        ckk = str(getattr(c, "ck", 0)); stats["communicator_kind"][ckk] = stats["communicator_kind"].get(ckk, 0) + 1
        stats["prebuilt_then_retargeted"] += getattr(c, "pre", 0); stats["includeSelf_per_rank"] += int(getattr(c, "incs", None) is not None and len(set(c.incs)) > 1)
        stats["large_sets"] += int(any(len(x) > 255 for x in c.src[0] + c.dst[0]))
        stats["mode"]["nbr" if c.mode else "ring"] = stats["mode"].get("nbr" if c.mode else "ring", 0) + 1
        stats["two"] += c.two; stats["mixed_one_two"] = stats.get("mixed_one_two", 0) + c.mixed(); stats["ign"] += c.ign; stats["incself"] += c.incself
        stats["resize"][c.resize] = stats["resize"].get(c.resize, 0) + 1
        if any(len({x[0] for x in s}) < len(s) for s in c.src[0] + c.dst[0]): stats["dup_globals"] += 1
        stats["nonpublic_pairs"] += sum(1 for s in c.src[0] + c.dst[0] for x in s if not x[3])
        e1 = spec_map(c, 0, c.ign)
        ne = sum(len(v[0]) + len(v[1]) for mp in e1 for v in mp.values())
        stats["entries"] += ne
        stats["self_entries"] += sum(1 for p, mp in enumerate(e1) if p in mp and (mp[p][0] or mp[p][1]))
        stats["ranks_without_neighbours"] += sum(1 for mp in e1 if not mp)
        if ne: nontriv.add(lines[i])
        o = oracle(c, a)
        if a.startswith("NOT-RUN"):
            nnotrun += 1
        elif o is not None:
            nviol += 1
            if nviol <= 3:
                small = shrink(ctx, exe, c, o[0]) if not o[0] in ("hang", "crash", "format") else c
                sl = rerun_alone(ctx, exe, small, "shrunk") if small is not c else a
                so = oracle(small, sl) or o
                ctx.violation(sig_of(c, o[0]), {"case": small.line(), "impl": sl, "oracle": so[1], "original_case": lines[i], "original_impl": a,
                                                 "model": mm, "spec": spec, "replay_cmd": "bin/check C04 --replay <this file>"})
            elif nviol <= 40:
                ctx.violation(sig_of(c, o[0]), {"case": lines[i], "impl": a, "oracle": o[1], "model": mm, "spec": spec})
        elif a != mm:
            # the oracle accepts but the model differs (only possible for the bounded self entry or a drifted model)
            ndis += 1
            if ndis <= 5:
                ctx.violation("corr:C04/map", {"broken": "corr:C04/map", "case": lines[i], "impl": a, "model": mm, "spec": spec,
                                                "oracle": "accepts impl output"}, found_input=False)
        # sanity of the theorem's reading: extracted model = extracted spec = python comprehension
        if mm != spec:
            nspec += 1
            if nspec <= 3:
                ctx.violation("corr:C04/model-vs-spec", {"broken": "extracted model and extracted spec differ (theorem C04_spec no longer describes the model?)",
                                                          "case": lines[i], "model": mm, "spec": spec}, found_input=False)
        elif oracle(c, spec) is not None:
            nspec += 1
            if nspec <= 3:
                ctx.violation("corr:C04/spec-vs-python-oracle", {"broken": "extracted Coq spec and the python set comprehension differ", "case": lines[i],
                                                                  "spec": spec, "python": oracle(c, spec)[1]}, found_input=False)
    ctx.coverage.update({
        "evaluations": len(cases) + len(hcases), "distinct_nontrivial": len(nontriv),
        "rule": "cases = corpus + exhaustive P=2 one-set scope (globals {0,1}, per rank and global: absent or (attr in {0,1}, public in {0,1}), both "
                "publicity modes, ring/neighbour alternating) + seeded random decompositions from overlap graphs (chain, ring, star, complete, random), "
                "universe <= 16, attrs <= 3, public flags random / all / none, one or two decompositions, empty ranks, duplicate-global sets (15%), "
                "ring or neighbour hints (true graph, supersets, self included), resize of source/target/both + second rebuild with same or flipped "
                "ignorePublic; communicator of the case one of given / MPI_Comm_dup / ranks reversed / ranks rotated (case numbered by the ranks in it); "
                "30% of the objects pre-built over other sets on another communicator with the opposite includeSelf and then re-targeted; includeSelf per rank (30% of the "
                "non-mixed cases); + large cases (240-450 pairs per set, universe <= 550); every case is run twice: global index type int, and one of long (with a long-based attribute enum, chunk size 3) / "
                "unsigned long long / bigunsignedint<55> / <64> / <100> chosen by a hash of the case, ids embedded as (0x8000+id)*2^(w-16)+id, or short over the whole signed range with a signed-char attribute enum (-128, -1, 127 ..); non-trivial = at least one remote-index entry expected in build 1; distinct = distinct case lines",
        "samples": [lines[0][:300], lines[len(lines) // 2][:300], lines[-1][:300]],
        "distribution": stats, "impl_model_disagreements": ndis, "oracle_rejections": nviol, "model_spec_disagreements": nspec,
        "pmpi_shim": {"linked": os.path.exists(SHIM), "perturbed_sweeps": shim[0], "calls_reporting_out_of_index_order": shim[1], "delays": shim[2]},
        "object_histories": len(hcases), "object_history_ops": hstat, "object_history_rejections": nh, "global_index_types": gstat, "global_index_type_rejections": ngt, "sanitizer_cases": len(sub), "sanitizer_differences": nsan, "exhaustive": False, "cases_not_run_after_repeated_crashes": nnotrun,
        "traces_validated_against_impl": sum(1 for a in io + gio if not (a.startswith("NOT-RUN") or a.startswith("CRASH") or a.startswith("HANG"))),
    })
    ctx.assumptions += ["MPI (matching, non-overtaking, Ssend/Recv rendezvous, MPI_Pack/Unpack of the struct datatype) is trusted; the datatype's content is C07",
                        "schedules of the impl are sampled (PMPI shim: seeded probe order and micro-delays); all arrival orders are covered by theorem C04_spec only",
                        "index sets iterate in ascending global order (C03); std::map iteration ascending",
                        "every rank takes part in every rebuild (resizes in the harness are collective)"]


def replay(ctx, path):
    rep = json.load(open(path))
    line = rep["case"]
    model = V.build_model(ctx)
    exe = build_impl(ctx)
    if rep.get("kind") == "hist":
        c = parse_hcase(line)
        mo = V.run_cases(ctx, [model, "hist"], [line], tag="rhmodel")
        a = run_impl(ctx, exe, [c], "rhimpl", tmo=120, hist=True)[0][0]
        mm, _, spec = mo[0].partition(" | ")
        print("ops   :", [("ctor",) + tuple(c.ctor)] + list(c.ops))
        print("impl  :", a); print("model :", mm); print("spec  :", spec)
        o = hist_oracle(c, a)
        print("oracle:", o[1] if o else "accepts")
        return 1 if o else 0
    c = parse_case(line)
    mo = V.run_cases(ctx, [model], [line], tag="rmodel")
    gt = int(rep.get("gtype", 0))
    a = rerun_alone(ctx, exe, c, "rimpl", gt)
    mm, _, spec = mo[0].partition(" | ")
    print("case  :", line); print("gtype :", GTYPES[gt]); print("impl  :", a); print("model :", mm); print("spec  :", spec)
    o = oracle(c, a)
    print("oracle:", o[1] if o else "accepts")
    return 1 if o else 0
