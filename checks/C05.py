"""C05 — Interface + BufferedCommunicator move each value to exactly its matches (DESIGN.md section 4, C05)."""
import os, sys, re, json, glob
import vcheck as V

META = {
    "level": "proof",
    "technique": "Coq proof (interface = set comprehension of the documentation; pairing; buffer offsets; delivery and termination for "
                 "ALL completion orders of MPI_Waitany as a transition system) + extracted-model vs MPI differential correspondence "
                 "(RemoteIndices -> Interface -> BufferedCommunicator of the current tree) with spec oracle and PMPI schedule perturbation",
    "text": "Theorems in coq/Properties_C05.v about the executable model of interface.hh / communicator.hh / enumset.hh / selection.hh: "
            "C05_interface_spec/_order/_doc (Interface::build = the documentation's i^s, i^t in global order, no assert fires), C05_pairing "
            "(+ _hypothesis_holds for every decomposition with one entry per global, + _gives_paired), C05_offsets/_complete (each (start,size) "
            "delimits its neighbour's block of the one gather buffer, empty neighbours included), C05_delivery / _values / _all_schedules / "
            "_end_to_end / C05_phase_ok (every completion order of MPI_Waitany: each gathered value reaches exactly its matching target entry once, "
            "nothing else; add = sum over senders, copy = the sender's value; forward and backward; SizeOne and variable-size blocks), "
            "C05_terminates + C05_all_matched (no receive or send stays unmatched; outstanding requests strictly decrease), C05_rebuild_refuted "
            "(build() over a previous build, F-C05-1) and C05_build_after_free (the repaired build); "
            "C05_decomposition_delivery (all of the above FROM ANY DECOMPOSITION: keys, ranks, pairing and layouts are proved for the interfaces "
            "of the decomposition, not assumed), C05_oracle_interface/_forward/_backward (the extracted spec used as oracle is exactly what the "
            "model builds and delivers), C05_repeated_use (any sequence of communications), C05_communicator_history / C05_interface_history "
            "(build/free/strip/communicate histories), C05_buffer_layout (offset intervals disjoint, ascending, exact size), "
            "C05_datatype_delivery/_equals_buffered_copy/_requests (DatatypeCommunicator incl. the literal request lists), "
            "C05_source_matches_model / C05_tags_disjoint (33 code shapes and 6 constants re-read from the source on every run); "
            "C05_interface_communicator_history / _after_build, C05_communicator_communicator_history, C05_datatype_communicator_history, "
            "C05_same_communicator_routing, C05_object_history_delivery (round 6: communicators as rank->process lists; whatever communicator an "
            "Interface / BufferedCommunicator / DatatypeCommunicator object carried in an earlier life, after build() it carries the one of what it "
            "was built from and the messages reach the processes the rank-level theorems speak about), C05_stale_communicator_misroutes. "
            "The model is tied to the tree on every run by an MPI harness (1..4 ranks quick, 1..6 thorough) over generated overlapping "
            "decompositions, all 144 pairs of 12 flag-set types, one and two index sets, SizeOne and variable-size payloads, copying and "
            "accumulating recording gather/scatter policies, forward/backward/forward on one communicator, seeded Waitany orders.",
    "note": "Trusted: Coq kernel, extraction, OCaml driver, C++ MPI harness, PMPI shim, OpenMPI; MPI point-to-point semantics (a posted "
            "Irecv(source q) completes with the message q Issent to us; Issend completes once matched) are modelled, not verified. "
            "RemoteIndices itself is property C04: the model starts from C04's conclusion (c05_remote_of) and the harness compares the "
            "tree's remote index lists with it in the deep stream.  DatatypeCommunicator: datatypes as (entry, length) blocks, transfers as "
            "gather/scatter through typemaps (C05_datatype_delivery, _equals_buffered_copy); MPI's own datatype engine is trusted.",
    "design_ref": "DESIGN.md section 4 C05",
}

HARNESS = [os.path.join(V.VERIF, "harness/C05/impl.cc"), os.path.join(V.VERIF, "harness/common/pmpi_sched.c")]
NFS = 12
FLAGSETS = [set(), {0, 1, 2}, {0}, {1}, {2}, {0, 1}, {1, 2}, {0, 2}, {0, 2}, {2}, {1}, {2}]   # ids as in impl.cc / C05_driver.ml


# --------------------------------------------------------------------------- generator

def fmt_case(c):
    t = [c["P"], c["two"], c["ign"], c["src"], c["dst"], c["mode"], c["pol"], c["seed"], c["NG"]] + c["sz"]
    for r in c["ranks"]:
        for key in (("S", "capS"), ("T", "capT")) if c["two"] else (("S", "capS"),):
            es = r[key[0]]
            t.append(len(es))
            for e in es:
                t += [e[0], e[1], e[2], e[3]]
            t.append(r[key[1]])
    return " ".join(map(str, t))


def parse_case(line):
    t = list(map(int, line.split()))
    c = dict(P=t[0], two=t[1], ign=t[2], src=t[3], dst=t[4], mode=t[5], pol=t[6], seed=t[7], NG=t[8])
    i = 9
    c["sz"] = t[i:i + c["NG"]]; i += c["NG"]
    c["ranks"] = []
    for _ in range(c["P"]):
        r = {}
        for key in (("S", "capS"), ("T", "capT")) if c["two"] else (("S", "capS"),):
            n = t[i]; i += 1
            r[key[0]] = [tuple(t[i + 4 * k:i + 4 * k + 4]) for k in range(n)]; i += 4 * n
            r[key[1]] = t[i]; i += 1
        if not c["two"]:
            r["T"], r["capT"] = r["S"], r["capS"]
        c["ranks"].append(r)
    return c


GRAPHS = ["chain", "ring", "star", "complete", "random", "none"]


def gen_holdings(rng, P, NG, graph):
    """per rank: dict global -> attribute, from an ownership partition plus overlap along the edges of a graph"""
    if rng.random() < 0.2:                   # unstructured: every rank holds every global with probability 1/2
        return [{g: rng.randrange(3) for g in range(NG) if rng.random() < 0.5} for _ in range(P)]
    owner = [min(P - 1, g * P // max(NG, 1)) for g in range(NG)] if rng.random() < 0.6 else [rng.randrange(P) for _ in range(NG)]
    edges = set()
    for p in range(P):
        for q in range(p + 1, P):
            if (graph == "chain" and q == p + 1) or (graph == "ring" and (q == p + 1 or (p == 0 and q == P - 1))) or \
               (graph == "star" and p == 0) or graph == "complete" or (graph == "random" and rng.random() < 0.5):
                edges.add((p, q))
    own_attr = 0 if rng.random() < 0.7 else None
    hold = [dict() for _ in range(P)]
    for g, o in enumerate(owner):
        hold[o][g] = own_attr if own_attr is not None else rng.randrange(3)
    dens = rng.choice([0.3, 0.6, 1.0])
    for (p, q) in edges:
        for a, b in ((p, q), (q, p)):
            for g, o in enumerate(owner):
                if o == b and g not in hold[a] and rng.random() < dens:
                    hold[a][g] = rng.choice([1, 1, 2]) if rng.random() < 0.8 else rng.randrange(3)
    if rng.random() < 0.15 and P > 1:        # an empty rank
        hold[rng.randrange(P)] = {}
    return hold


def mk_set(rng, hold, pubmode, allow_empty=False):
    gs = list(hold)
    n = len(gs)
    cap = n + rng.choice([0, 0, 1, 2])
    if cap == 0 and not allow_empty:
        cap = 1
    ls = list(range(cap))
    if rng.random() < 0.7:
        rng.shuffle(ls)
    ents = []
    for k, g in enumerate(sorted(gs)):
        pub = 1 if pubmode == "all" else 0 if pubmode == "none" else rng.randrange(2)
        ents.append((g, ls[k], hold[g], pub))
    if rng.random() < 0.5:
        rng.shuffle(ents)                    # endResize() has to sort
    return ents, cap


def gen_one(rng, P, n, fixed_pair=None, rebuild_ok=True):
    NG = rng.choice([1, 2, 4, 6, 8, 8, 12, 12, 16, 16, 40 if P <= 3 else 24])
    two = 1 if rng.random() < 0.4 else 0
    graph = rng.choice(GRAPHS)
    pubmode = rng.choice(["all", "all", "random", "none"])
    ign = 1 if pubmode == "all" and rng.random() < 0.5 else rng.randrange(2)
    c = dict(P=P, two=two, ign=ign, mode=rng.choice([0, 1, 1, 2, 3]), pol=rng.randrange(2), NG=NG,
             seed=(rng.randrange(1, 1 << 30) if rng.random() < 0.85 else 0))
    if rng.random() < 0.35: c["pol"] += 2               # additionally DatatypeCommunicator forward/backward
    if rng.random() < 0.3: c["pol"] += 4                # additionally forward with Dune::CopyGatherScatter (SizeOne modes)
    if not two and rng.random() < 0.3: c["pol"] += 8    # one index set, separate source and target containers
    elif not two and rng.random() < 0.3: c["pol"] += 16  # one index set, one container passed as source AND as target
    if rng.random() < 0.4: c["pol"] += 32                # communicator with the reversed rank order of MPI_COMM_WORLD
    if rng.random() < 0.25: c["pol"] += 64               # copies of Interface and BufferedCommunicator do the work
    # round 6, OBJECT HISTORY x COMMUNICATOR: earlier lives of the objects on the communicator with the opposite rank order
    if rng.random() < 0.2: c["pol"] += 128               # Interface(OTHER) constructor, then build from remote indices on the case's communicator
    if rng.random() < 0.25: c["pol"] += 256              # Interface built from remote indices on OTHER, free(), build
    if rng.random() < 0.35: c["pol"] += 512              # earlier build of BufferedCommunicator (mode +4/+8) / DatatypeCommunicator on OTHER
    z = rng.random()
    if z < (0.3 if c["pol"] & 512 else 0.08): c["mode"] += 8                       # build(), free(), build()
    elif z < (0.6 if c["pol"] & 512 else 0.20) and rebuild_ok: c["mode"] += 4      # build(), build()  (only while the tree survives the F-C05-1 witnesses)
    if fixed_pair is not None:
        c["src"], c["dst"] = fixed_pair
    else:
        c["src"], c["dst"] = rng.randrange(NFS), rng.randrange(NFS)
        if rng.random() < 0.75:                            # mostly non-empty sets, so that something is communicated
            c["src"], c["dst"] = rng.randrange(1, NFS), rng.randrange(1, NFS)
    zs = rng.random()
    c["sz"] = [rng.choice([0, 1, 2, 3]) if zs < 0.7 else rng.choice([0, 0, 0, 1]) if zs < 0.85 else rng.choice([1, 2, 3]) for _ in range(NG)]
    hs = gen_holdings(rng, P, NG, graph)
    ht = gen_holdings(rng, P, NG, rng.choice(GRAPHS)) if two else hs
    if two and rng.random() < 0.15:          # two index-set OBJECTS with identical content (every rank also talks to itself)
        ht = hs
    if two and rng.random() < 0.3:           # redistribution: the target is the source decomposition shifted by one rank
        ht = [hs[(p + 1) % P] for p in range(P)]
    c["ranks"] = []
    for p in range(P):
        S, capS = mk_set(rng, hs[p], pubmode, allow_empty=not (c["pol"] // 2) % 2)
        r = dict(S=S, capS=capS)
        if two:
            r["T"], r["capT"] = mk_set(rng, ht[p], pubmode, allow_empty=not (c["pol"] // 2) % 2)
        c["ranks"].append(r)
    c["_graph"] = graph; c["_pub"] = pubmode
    return c


def corpus_cases():
    cp = os.path.join(V.VERIF, "corpus", "C05", "cases.txt")
    if not os.path.exists(cp):
        return []
    return [l.strip() for l in open(cp) if l.strip() and not l.startswith("#")]


# --------------------------------------------------------------------------- observations

FIELD = re.compile(r"(RI|IF|SE|SD|EQ|ST|CP|CM|DT|P\d)\[([^\]]*)\]")


def parse_obs(line):
    """'r0 RI[..] IF[..] SE[..] P0[G:.. S:.. D:.. T:.. M:..] ... ;; r1 ...' -> list of dicts (None if not parseable)"""
    res = []
    for part in line.split(" ;; "):
        m = re.match(r"r(\d+) (.*)$", part.strip())
        if not m:
            return None
        d = {}
        for k, v in FIELD.findall(m.group(2)):
            if k.startswith("P"):
                ph = {}
                for tok in v.split(" "):
                    if ":" in tok:
                        a, b = tok.split(":", 1); ph[a] = b
                    elif tok:
                        ph["ERR"] = tok
                d[k] = ph
            else:
                d[k] = v
        res.append(d)
    return res


def calls(s):
    out = []
    for tok in s.split(",") if s else []:
        m = re.match(r"(\d+)\.(\d+)=(.+)$", tok)
        out.append((int(m.group(1)), int(m.group(2)), m.group(3)) if m else (-1, -1, tok))
    return out


def blocks(s):
    return [([] if b == "-" else b.split(".")) for b in s.split(",")] if s else []


def cmp_data(spec, got, cl):
    """spec container (with * wildcards) against an observed one; cl = observed scatter calls.  None or a reason."""
    sb, gb = blocks(spec), blocks(got)
    if len(sb) != len(gb):
        return "container has %d blocks, expected %d" % (len(gb), len(sb))
    for l, (x, y) in enumerate(zip(sb, gb)):
        if len(x) != len(y):
            return "block %d has %d values, expected %d" % (l, len(y), len(x))
        for j, (u, v) in enumerate(zip(x, y)):
            if u == "*":
                if v not in [c[2] for c in cl if c[0] == l and c[1] == j]:
                    return "entry %d.%d = %s is none of the values scattered to it" % (l, j, v)
            elif u != v:
                return "entry %d.%d = %s, the property requires %s" % (l, j, v, u)
    return None


def dt_overlap_of(case, so):
    """one container per rank and some entry is both sent from and received into (hypothesis c05_dt_nonoverlap violated)"""
    if case["two"] or (case["pol"] // 8) % 2:
        return False
    for s in so:
        snd, rcv = set(), set()
        for tok in s.get("IF", "").split(" "):
            if ":" in tok:
                x, y = tok.split(":")[1].split("/")
                snd |= set(x.split(",")) - {""}; rcv |= set(y.split(",")) - {""}
        if snd & rcv:
            return True
    return False


def oracle(case, impl_line, spec_line):
    """The property applied to what the impl did.  Returns the list of (what, reason) rejections (empty = accepted).
    Observations of members outside the communication path (default Selection, Interface ==, self tests) do not stop the
    judgement of the communication itself."""
    side = []
    def add_side(what, reason):
        if what not in [w for w, _ in side]: side.append((what, reason))
    if "C05-HANG" in impl_line or impl_line.startswith("HANG"):
        return side + [("hang", "a communication (or the set-up) did not return on every process")]
    if impl_line.startswith(("CRASH", "NOT-RUN", "BADCASE")):
        return side + [("crash", "no observation: " + impl_line[:160])]
    io, so = parse_obs(impl_line), parse_obs(spec_line)
    if io is None or so is None or len(io) != len(so):
        return side + [("output", "unparseable observation: " + impl_line[:160])]
    # DatatypeCommunicator sends from and receives into user memory directly: if, with ONE container, an entry is both a
    # source and a target, the posted send and receive buffers overlap (erroneous in MPI, result order dependent): such
    # cases are outside what the unbuffered variant can promise and are not judged for phases 3/4.
    dt_overlap = dt_overlap_of(case, so)
    for p, (a, s) in enumerate(zip(io, so)):
        if "IF" not in a:
            return side + [("exception", "rank %d: %s" % (p, impl_line[:160]))]
        if a["IF"] != s["IF"]:
            return side + [("interface", "rank %d: Interface::interfaces() = [%s], the definition of i^s/i^t gives [%s]" % (p, a["IF"], s["IF"]))]
        if a["SE"] != s["SE"]:
            return side + [("selection", "rank %d: selections [%s], definition gives [%s]" % (p, a["SE"], s["SE"]))]
        if a.get("SD") != s.get("SD"):
            add_side("selection-default", "rank %d: a default-constructed Selection is not empty (begin() != end())" % p)
        if a.get("EQ") != s.get("EQ"):
            add_side("ifaceeq", "rank %d: Interface ==/!=/<</free+build observations [%s] (same flags / exchanged flags / != negates / printing / "
                               "rebuilt after free), equality of the interface maps gives [%s]" % (p, a.get("EQ"), s.get("EQ")))
        if a.get("CM") != s.get("CM"):
            add_side("communicator", "rank %d: Interface::communicator() after build() is the communicator of the RemoteIndices it was built from "
                                     "(the Interface of the communication / an Interface(other communicator), also after free()+build): CM[%s], required CM[%s]" % (p, a.get("CM"), s.get("CM")))
        if a.get("CP") != s.get("CP"):
            add_side("copies", "rank %d: copy-constructed / copy-assigned Interface differs from the original (CP[%s])" % (p, a.get("CP")))
        if a.get("ST") != s.get("ST"):
            add_side("selftest", "rank %d: self tests (enumset combine()/operator<< , InterfaceInformation members, RemoteIndicesStateError on "
                                "unsynced remote indices) = [%s], expected [%s]" % (p, a.get("ST"), s.get("ST")))
        for ph in ("P3", "P4"):
            if ph in s and not dt_overlap:               # DatatypeCommunicator: containers only, copy semantics
                x, y = a.get(ph, {}), s[ph]
                for fld in ("D", "T"):
                    r = cmp_data(y[fld], x.get(fld, "?"), calls(y["S"]))
                    if r:
                        return side + [("datatype:" + ("fwd" if ph == "P3" else "bwd"), "rank %d phase %s (DatatypeCommunicator) container %s: %s" % (p, ph, fld, r))]
        for ph5 in ("P5", "P6"):                         # forward / backward with Dune::CopyGatherScatter (no log): containers only
            if ph5 in s:
                x, y = a.get(ph5, {}), s[ph5]
                for fld in ("D", "T"):
                    r = cmp_data(y[fld], x.get(fld, "?"), calls(y["S"]))
                    if r:
                        return side + [("copygatherscatter:" + ("fwd" if ph5 == "P5" else "bwd"), "rank %d phase %s (CopyGatherScatter, second communicator on the same Interface) container %s: %s" % (p, ph5, fld, r))]
        for ph in ("P0", "P1", "P2"):
            x, y = a.get(ph, {}), s[ph]
            d = "fwd" if ph != "P1" else "bwd"
            if "S" not in x:
                return side + [("delivery:" + d, "rank %d phase %s: %s" % (p, ph, x))]
            cx, cy = sorted(calls(x["S"])), sorted(calls(y["S"]))
            if cx != cy:
                miss = [c for c in cy if c not in cx][:3]; extra = [c for c in cx if c not in cy][:3]
                return side + [("delivery:" + d, "rank %d phase %s: scatter calls differ from the matched source entries (missing %s, unexpected %s)" % (p, ph, miss, extra))]
            for fld in ("D", "T"):
                r = cmp_data(y[fld], x.get(fld, ""), calls(x["S"]))
                if r:
                    return side + [("delivery:" + d + ":container", "rank %d phase %s container %s: %s" % (p, ph, fld, r))]
    return side


def diff_model(impl_line, model_line, spec_line, case=None):
    """impl vs model: ('public'|'deep', detail) or None.  Positions the spec leaves open (*) are not compared."""
    io, mo, so = parse_obs(impl_line), parse_obs(model_line), parse_obs(spec_line)
    if io is None or mo is None or len(io) != len(mo):
        return ("public", "shape")
    deep = None
    for p, (a, m, s) in enumerate(zip(io, mo, so)):
        for k in ("IF", "SE", "SD", "EQ", "ST", "CP", "CM"):
            if k in ("SD", "EQ", "ST", "CP", "CM") and a.get(k) != s.get(k):
                continue                                  # already rejected by the oracle
            if a.get(k) != m.get(k):
                return ("public", "rank %d %s: impl [%s] model [%s]" % (p, k, a.get(k), m.get(k)))
        if "P3" in m and case is not None and not dt_overlap_of(case, so):      # DatatypeCommunicator: model vs impl
            for ph in ("P3", "P4"):
                x, y = a.get(ph, {}), m.get(ph, {})
                for fld in ("D", "T"):
                    xb, yb, sb = blocks(x.get(fld, "")), blocks(y.get(fld, "")), blocks(s.get(ph, {}).get(fld, ""))
                    if len(xb) != len(yb):
                        return ("public", "rank %d %s (DatatypeCommunicator) container %s" % (p, ph, fld))
                    for l in range(len(xb)):
                        for j in range(max(len(xb[l]), len(yb[l]))):
                            open_ = l < len(sb) and j < len(sb[l]) and sb[l][j] == "*"
                            if not open_ and (j >= len(xb[l]) or j >= len(yb[l]) or xb[l][j] != yb[l][j]):
                                return ("public", "rank %d %s (DatatypeCommunicator) container %s entry %d.%d: impl %s model %s" % (p, ph, fld, l, j, xb[l][j:j+1], yb[l][j:j+1]))
        if "DT" in m and a.get("DT") != m.get("DT"):
            deep = deep or "rank %d MPI datatypes (entry.length per remote process, send/receive): impl [%s] model [%s]" % (p, a.get("DT"), m.get("DT"))
        if a.get("RI") != m.get("RI"):
            deep = deep or "rank %d remote index lists: impl [%s] model [%s]" % (p, a.get("RI"), m.get("RI"))
        for ph in ("P0", "P1", "P2"):
            x, y = a.get(ph, {}), m.get(ph, {})
            if "S" not in x or "S" not in y:
                return ("public", "rank %d %s: impl %s model %s" % (p, ph, x, y))
            if sorted(calls(x["S"])) != sorted(calls(y["S"])):
                return ("public", "rank %d %s scatter calls" % (p, ph))
            for fld in ("D", "T"):
                xb, yb, sb = blocks(x[fld]), blocks(y[fld]), blocks(s[ph][fld])
                if len(xb) != len(yb):
                    return ("public", "rank %d %s container %s" % (p, ph, fld))
                for l in range(len(xb)):
                    for j in range(max(len(xb[l]), len(yb[l]))):
                        open_ = l < len(sb) and j < len(sb[l]) and sb[l][j] == "*"
                        if not open_ and (j >= len(xb[l]) or j >= len(yb[l]) or xb[l][j] != yb[l][j]):
                            return ("public", "rank %d %s container %s entry %d.%d" % (p, ph, fld, l, j))
            if x.get("G") != y.get("G"):
                deep = deep or "rank %d %s gather call order: impl [%s] model [%s]" % (p, ph, x.get("G"), y.get("G"))
            if x.get("M") != y.get("M"):
                deep = deep or "rank %d %s message sizes (dest=bytes): impl [%s] model [%s]" % (p, ph, x.get("M"), y.get("M"))
    return ("deep", deep) if deep else None


def sig_of(c, what):
    if not (c["pol"] // 512) % 2 and (c["mode"] // 4 == 1 and what in ("crash", "hang") or (c["mode"] // 4 == 1 and what.startswith("delivery"))):
        return "C05:rebuild:%s" % what          # build() a second time without free() (F-C05-1)
    return "C05:%s:%s:%s:%s" % (what, "two" if c["two"] else "one", "var" if c["mode"] % 4 == 1 else "sizeone", "add" if c["pol"] % 2 else "copy")


def features(c, spec_line):
    f = set()
    so = parse_obs(spec_line) or []
    f.add("two-sets" if c["two"] else "one-set")
    f.add("mode%d" % (c["mode"] % 4))
    f.add("add" if c["pol"] % 2 else "copy")
    if (c["pol"] // 2) % 2: f.add("datatype-communicator")
    if (c["pol"] // 4) % 2 and c["mode"] % 4 != 1: f.add("CopyGatherScatter")
    if (c["pol"] // 8) % 2: f.add("one-set-separate-containers")
    if (c["pol"] // 16) % 2: f.add("aliased-arguments forward(d,d)")
    if (c["pol"] // 32) % 2: f.add("reversed-rank-communicator")
    if (c["pol"] // 64) % 2: f.add("copied Interface+BufferedCommunicator")
    if c["P"] >= 2:
        if (c["pol"] // 128) % 2: f.add("Interface(other communicator) then build")
        if (c["pol"] // 256) % 2: f.add("Interface built on other communicator, free, build")
        if (c["pol"] // 512) % 2 and c["mode"] // 4: f.add("BufferedCommunicator built before from an interface on the other communicator")
        if (c["pol"] // 512) % 2 and (c["pol"] // 2) % 2: f.add("DatatypeCommunicator built before from remote indices on the other communicator")
    if c["two"] and all(sorted((e[0], e[2]) for e in r["S"]) == sorted((e[0], e[2]) for e in r["T"]) for r in c["ranks"]): f.add("two-sets-identical-content")
    if c["NG"] >= 24: f.add("large(NG>=24)")
    if any(r["capS"] == 0 or r.get("capT", 1) == 0 for r in c["ranks"]): f.add("empty-container")
    if c["mode"] % 4 == 3: f.add("16-byte-elements")
    if (c["pol"] // 2) % 2 and not c["two"] and not (c["pol"] // 8) % 2:
        for s_ in so:
            snd, rcv = set(), set()
            for tok in s_.get("IF", "").split(" "):
                if ":" in tok:
                    x, y = tok.split(":")[1].split("/")
                    snd |= set(x.split(",")) - {""}; rcv |= set(y.split(",")) - {""}
            if snd & rcv: f.add("datatype-not-judged(entry is source and target of one container)")
    if c["mode"] // 4: f.add("build-twice" if c["mode"] // 4 == 1 else "build-free-build")
    f.add("ignorePublic" if c["ign"] else "publicOnly")
    for p, s in enumerate(so):
        ifs = s.get("IF", "")
        if not ifs: f.add("rank-without-interface")
        for tok in ifs.split(" ") if ifs else []:
            q, lists = tok.split(":")
            a, b = lists.split("/")
            if int(q) == p: f.add("self-communication")
            if a == "" or b == "": f.add("one-sided-neighbour")
            if a != "" and b != "" and len(a.split(",")) != len(b.split(",")): f.add("asymmetric-neighbour")
        for ph in ("P0", "P1"):
            for fld in ("D", "T"):
                if "*" in s.get(ph, {}).get(fld, ""): f.add("several-senders-one-target(copy)")
            cl = calls(s.get(ph, {}).get("S", ""))
            if len(set((a, b) for a, b, _ in cl)) < len(cl): f.add("several-senders-one-target")
            if any(b > 0 for _, b, _ in cl): f.add("multi-component-block")
    if c["mode"] % 4 == 1 and 0 in c["sz"]: f.add("zero-size-block")
    return f


# --------------------------------------------------------------------------- running

def run_impl(ctx, exe, P, cases, tag, case_timeout):
    env = {"C05_CASE_TIMEOUT": str(case_timeout), "OMPI_MCA_rmaps_base_oversubscribe": "1"}
    cmd = ["mpirun", "--allow-run-as-root", "--oversubscribe", "-np", str(P), exe]
    # hangs are detected per case by the alarm inside the harness (C05_CASE_TIMEOUT); the budget of the whole launch is generous,
    # because an expired launch budget makes V.run_cases treat every later chunk as hung (false verdicts on an overloaded machine)
    res = V.run_cases(ctx, cmd, cases, tag=tag, timeout=max(900, 3 * len(cases) + 10 * case_timeout), max_restarts=6, env=env)
    shim = [0, 0, 0]
    for ef in glob.glob(ctx.path("%s.cases.*.err" % tag)):
        m = re.search(r"C05-SHIM sweeps=(\d+) reordered=(\d+) delays=(\d+)", open(ef, errors="replace").read())
        if m:
            for k in range(3): shim[k] += int(m.group(k + 1))
    for f in glob.glob(ctx.path("%s.cases.*" % tag)):
        try: os.remove(f)
        except OSError: pass
    return res, shim


def shrink(ctx, model, impl, c, what, budget=40):
    """Delta debugging over the case's structure with the impl in the loop: drop global indices (from all sets of all ranks),
    switch the schedule perturbation off, reduce block sizes; a step is kept if the oracle still rejects for the same reason.
    Returns (minimised case line, number of impl runs)."""
    import copy
    cur = copy.deepcopy({k: v for k, v in c.items() if not k.startswith("_")})
    if not cur["two"]:
        for r in cur["ranks"]:
            r.pop("T", None); r.pop("capT", None)
    runs = [0]
    import time
    t_end = time.time() + (90 if ctx.quick else 300)         # wall budget of the whole minimisation
    def fails(cand):
        if runs[0] >= budget or time.time() > t_end:
            return False
        runs[0] += 1
        line = fmt_case(cand)
        mo = V.run_cases(ctx, [model], [line], tag="shm", timeout=30)
        io = V.run_cases(ctx, ["mpirun", "--allow-run-as-root", "--oversubscribe", "-np", str(cand["P"]), impl], [line], tag="shi", timeout=20,
                         max_restarts=0, env={"C05_CASE_TIMEOUT": "8", "OMPI_MCA_rmaps_base_oversubscribe": "1"})
        if " || " not in mo[0]:
            return False
        rs = oracle(parse_case(line), io[0], mo[0].split(" || ", 1)[1].replace(" ORDER-DEPENDENT", ""))
        return any(r[0] == what for r in rs)
    def variants(cur):
        if cur["seed"]:
            v = copy.deepcopy(cur); v["seed"] = 0; yield v
        gs = sorted(set(e[0] for r in cur["ranks"] for k in ("S", "T") if k in r for e in r[k]), reverse=True)
        for g in gs:
            v = copy.deepcopy(cur)
            for r in v["ranks"]:
                for k in ("S", "T"):
                    if k in r: r[k] = [e for e in r[k] if e[0] != g]
            yield v
        for g in range(cur["NG"]):
            if cur["mode"] % 4 == 1 and cur["sz"][g] > 1:
                v = copy.deepcopy(cur); v["sz"][g] = 1; yield v
    progress = True
    while progress and runs[0] < budget and time.time() < t_end:
        progress = False
        for v in variants(cur):
            if fails(v):
                cur = v; progress = True
                break
    return fmt_case(cur), runs[0]


def build(ctx):
    model = V.build_model(ctx)
    impl = V.cxx(ctx, HARNESS, ctx.path("impl"), mpi=True, opt="-O1")
    return model, impl


def params_hook(ctx):
    V.sh([sys.executable, os.path.join(V.VERIF, "tools", "extract_params.py"), ctx.repo], check=True)


def run(ctx):
    ctx.params_hook = params_hook
    V.coq_stage(ctx)
    model, impl = build(ctx)
    quick = ctx.quick
    NP = 4 if quick else 6
    rng = ctx.rng("gen")
    pcs, lines = [], []
    # stage 1: the F-C05-1 witnesses of the corpus decide whether build()-over-build() cases are generated at large
    corp = corpus_cases()
    wit = [l for l in corp if parse_case(l)["mode"] // 4 == 1]
    rebuild_ok = True
    pre = {}
    if wit:
        mo1 = V.run_cases(ctx, [model], wit[:2], tag="wmodel", timeout=120)
        for l, m in zip(wit[:2], mo1):
            res, _ = run_impl(ctx, impl, parse_case(l)["P"], [l], "wit", 20)
            pre[l] = res[0]
            if " || " not in m or any(r[0] in ("crash", "hang", "output") or r[0].startswith("delivery") for r in oracle(parse_case(l), res[0], m.split(" || ", 1)[1])):
                rebuild_ok = False
        ctx.log("F-C05-1 witnesses: tree %s a second build() without free()" % ("survives" if rebuild_ok else "FAILS after"))
    for l in corp:
        if l in wit[2:] and not rebuild_ok:
            continue
        pcs.append(parse_case(l)); lines.append(l)
    # every ordered pair of flag-set types at least once, then random pairs
    pairs = [(a, b) for a in range(NFS) for b in range(NFS)]
    N = 1800 if quick else 20000
    for n in range(N):
        P = [1, 2, 2, 3, 3, 4, 4, 4, 5, 6][n % (8 if quick else 10)]
        P = min(P, NP)
        c = gen_one(rng, P, n, fixed_pair=pairs[n] if n < len(pairs) else None, rebuild_ok=rebuild_ok)
        pcs.append(c); lines.append(fmt_case(c))
    ctx.log("generated %d cases" % len(lines))
    mo = V.run_cases(ctx, [model], lines, tag="model", timeout=900)
    io = [None] * len(lines)
    shim = [0, 0, 0]
    from concurrent.futures import ThreadPoolExecutor
    groups = {}
    for i, c in enumerate(pcs):
        groups.setdefault(c["P"], []).append(i)
    for P in groups:                                   # witnesses already run in stage 1 are not run again
        groups[P] = [i for i in groups[P] if lines[i] not in pre]
    for i, l in enumerate(lines):
        if l in pre: io[i] = pre[l]
    def job(P):
        idx = groups[P]
        return P, run_impl(ctx, impl, P, [lines[i] for i in idx], "impl%d" % P, 12 if quick else 40)
    with ThreadPoolExecutor(max_workers=2) as ex:
        for P, (res, sh) in ex.map(job, sorted(groups)):
            for i, l in zip(groups[P], res):
                io[i] = l
            for k in range(3): shim[k] += sh[k]
    # a timed-out case is re-run once alone before it is believed
    hangs = 0
    for i, l in enumerate(io):
        if ("C05-HANG" in l or l.startswith("HANG")) and hangs < 3:
            res, _ = run_impl(ctx, impl, pcs[i]["P"], [lines[i]], "hc%d" % i, 40 if quick else 120)
            if "C05-HANG" in res[0] or res[0].startswith("HANG"):
                hangs += 1
            else:
                ctx.notes.append("case %d timed out under load but returned when re-run alone" % i)
            io[i] = res[0]
    # thorough tier: ASan/UBSan build of the harness on a subsample (buffer handling of gather/scatter, offsets)
    nsan = 0
    if not quick:
        try:
            impl_san = V.cxx(ctx, HARNESS, ctx.path("impl_san"), mpi=True, san=True, timeout=1800)
            sub = [i for i in range(0, len(lines), 9) if pcs[i]["P"] <= 3 and pcs[i]["mode"] // 4 != 1 and io[i].startswith("r0 ")]
            for P in sorted(set(pcs[i]["P"] for i in sub)):
                idx = [i for i in sub if pcs[i]["P"] == P]
                env = {"C05_CASE_TIMEOUT": "120", "ASAN_OPTIONS": "detect_leaks=0", "OMPI_MCA_rmaps_base_oversubscribe": "1"}
                res = V.run_cases(ctx, ["mpirun", "--allow-run-as-root", "--oversubscribe", "-np", str(P), impl_san], [lines[i] for i in idx],
                                  tag="san%d" % P, timeout=1800, max_restarts=3, env=env)
                for i, l in zip(idx, res):
                    nsan += 1
                    m = mo[i]
                    if " || " not in m: continue
                    for r in oracle(pcs[i], l, m.split(" || ", 1)[1].replace(" ORDER-DEPENDENT", "")):
                        if r[0] in ("selection-default", "ifaceeq"): continue       # build-independent observations, reported by the main stream
                        ctx.violation(sig_of(pcs[i], r[0]) + ":sanitizer", {"case": lines[i], "impl": io[i], "impl_sanitized_build": l, "oracle": r[1]})
        except V.BuildError as e:
            ctx.notes.append("sanitizer build failed: %s" % str(e)[-300:])
    nviol = ndis = ndrift = nperm = 0
    shrunk = False
    per_what = {}
    feats, dist = {}, {"P": {}, "flagpairs": set(), "graph": {}, "pub": {}}
    nontrivial = set()
    for i, (c, line, a, m) in enumerate(zip(pcs, lines, io, mo)):
        dist["P"][str(c["P"])] = dist["P"].get(str(c["P"]), 0) + 1
        dist["flagpairs"].add((c["src"], c["dst"]))
        for k, kk in (("graph", "_graph"), ("pub", "_pub")):
            if kk in c: dist[k][c[kk]] = dist[k].get(c[kk], 0) + 1
        if " || " not in m or "MODEL-ERROR" in m:
            ctx.violation("corr:C05/model-output", {"broken": "corr:C05/model-output", "case": line, "model": m[:400]}, found_input=False); ndis += 1
            continue
        mm, spec = m.split(" || ", 1)
        if spec.endswith(" ORDER-DEPENDENT") or "STUCK" in mm or "BADORDER" in mm or "SIZEMISMATCH" in mm or "ASSERT" in mm:
            ctx.violation("corr:C05/model-theorem", {"broken": "model observation is order dependent / stuck / asserts (contradicts C05_delivery, C05_terminates, C05_interface_spec)",
                                                      "case": line, "model": m[:600]}, found_input=False); ndis += 1
            spec = spec.replace(" ORDER-DEPENDENT", "")
        for f in features(c, spec): feats[f] = feats.get(f, 0) + 1
        if re.search(r"S:\d", spec): nontrivial.add(line)
        rs = oracle(c, a, spec)
        SIDE = ("selection-default", "ifaceeq", "selftest", "copies", "communicator")
        for r in rs:
            nviol += 1
            per_what[r[0]] = per_what.get(r[0], 0) + 1
            if per_what[r[0]] <= (6 if r[0] in SIDE else 40):
                small = None
                if not shrunk and r[0] not in ("hang", "crash", "output", "exception"):
                    shrunk = True
                    try:
                        small, nruns = shrink(ctx, model, impl, c, r[0])
                        ctx.log("first violation minimised with %d impl runs" % nruns)
                    except Exception as ex:
                        ctx.notes.append("shrinking failed: %r" % ex)
                ctx.violation(sig_of(c, r[0]), {"case": line, "parsed": {k: v for k, v in c.items() if not k.startswith("_")}, "impl": a, "model": mm, "spec": spec,
                                                "oracle": r[1], "replay_cmd": "bin/check C05 --replay <this file>",
                                                **({"case_original": line, "case": small, "minimised": True} if small else {})})
        if any(r[0] not in SIDE for r in rs):
            continue
        ia, im = parse_obs(a), parse_obs(mm)
        if ia and im and any(x.get(ph, {}).get("S") != y.get(ph, {}).get("S") for x, y in zip(ia, im) for ph in ("P0", "P1", "P2")):
            nperm += 1                       # same scatter calls, but not in ascending process order: Waitany was perturbed
        dm = diff_model(a, mm, spec, c)
        if dm and dm[0] == "public":
            ndis += 1
            if ndis <= 10:
                ctx.violation("corr:C05/public", {"broken": "corr:C05/public", "case": line, "detail": dm[1], "impl": a, "model": mm,
                                                  "oracle": "accepts impl output"}, found_input=False)
        elif dm:
            ndrift += 1
            if ndrift <= 3:
                ctx.notes.append("deep stream differs (public stream agrees): %s ; case %r" % (dm[1], line))
    ctx.coverage.update({
        "evaluations": len(lines), "distinct_nontrivial": len(nontrivial),
        "rule": "cases = corpus + seeded decompositions: P in 1..%d ranks; holdings from an ownership partition plus overlap along a chain/ring/star/"
                "complete/random/empty graph (or unstructured), attributes in {0,1,2}, public flags all/random/none with rebuild<true>/<false>, "
                "random local index permutations with unused container slots, unsorted insertion order, empty ranks; one index set or two "
                "(independent or shifted by one rank, self-communication); every ordered pair of the 12 flag-set types (EmptySet, AllSet, EnumItem x3, "
                "EnumRange x2, Combine, NegateSet x2, nested Combine/NegateSet x2) at least once; payload SizeOne via build<Data>(interface), SizeOne via "
                "build(source,dest,interface), variable-size blocks of 0..3 values; copying / accumulating recording policy; on a third of the cases additionally DatatypeCommunicator forward/backward; forward, backward, forward on one "
                "communicator with fresh globally unique tags per phase; PMPI-perturbed Waitany order from the case seed. "
                "non-trivial = at least one value is communicated; distinct = distinct case lines" % NP,
        "samples": lines[:2] + lines[len(lines) // 2: len(lines) // 2 + 1] + lines[-1:],
        "distribution": {"P": dist["P"], "graph": dist["graph"], "public": dist["pub"], "flag_pairs_covered": len(dist["flagpairs"]), "flag_pairs_total": NFS * NFS},
        "features_hit": feats,
        "impl_model_disagreements": ndis, "oracle_rejections": nviol, "oracle_rejections_by_kind": per_what, "deep_stream_drift": ndrift,
        "pmpi_shim": {"perturbed_sweeps": shim[0], "calls_reporting_out_of_index_order": shim[1], "delays": shim[2],
                      "cases_with_receives_completed_out_of_process_order": nperm},
        "traces_validated_against_impl": sum(1 for a in io if a and a.startswith("r0 ")),
        "not_modelled": ["RemoteIndices::rebuild itself (C04; compared in the deep stream)",
                         "MPI's interpretation of hindexed datatypes (the typemap semantics of c05_dt_pack/c05_dt_unpack is the modelled assumption)"],
        "build_over_build_cases_generated": rebuild_ok, "sanitizer_cases": nsan,
        "exhaustive": False,
    })
    ctx.assumptions += ["MPI point-to-point semantics as modelled (Irecv from q completes with the message q Issent on this communicator; Issend completes once matched)",
                        "completion orders of the impl are sampled through harness/common/pmpi_sched.c; all orders are covered by the theorems only",
                        "remote index lists are the ascending enumeration of the published shared globals (C04_spec's conclusion; checked against the tree in the deep stream)"]


def replay(ctx, path):
    rep = json.load(open(path))
    line = rep["case"]
    c = parse_case(line)
    model, impl = build(ctx)
    io, _ = run_impl(ctx, impl, c["P"], [line], "rimpl", 30)
    mo = V.run_cases(ctx, [model], [line], tag="rmodel")
    mm, _, spec = mo[0].partition(" || ")
    print("case  :", line); print("impl  :", io[0]); print("model :", mm); print("spec  :", spec)
    rs = oracle(c, io[0], spec.replace(" ORDER-DEPENDENT", ""))
    for r in rs:
        print("oracle: REJECTS (%s): %s" % r)
    if not rs:
        print("oracle: accepts")
    return 1 if rs else 0
