"""C06 — VariableSizeCommunicator delivers every item intact for any sizes/buffer, and always returns
(DESIGN.md section 4, C06)."""
import os, sys, re, json, glob
import vcheck as V

META = {
    "level": "proof",
    "technique": "Coq proof over a transition system (per ordered pair sender/receiver trackers, pack/unpack rounds, "
                 "events Match/SendDone/RecvDone/phase switch; all schedules) + extracted-model vs MPI differential "
                 "correspondence with spec oracle and PMPI schedule perturbation",
    "text": "Theorems in coq/Properties_C06.v: sender and receiver cut every index list into the same message rounds; in every "
            "state that any schedule of completion events can reach and in which no event is enabled, every process has returned and "
            "the scatter log is exactly the gathered entries of the peer (count, order, items); every event decreases a measure, so every "
            "schedule terminates; in the fixed-size protocol every scatter call, in every reachable state and without any precondition, is told the "
            "size the SENDING peer announced, whatever the receiver's own handle.size() is (C06_fixed_count_is_announced, "
            "C06_receiver_own_size_irrelevant).  For the code as it is in the tree this is refuted for a non-empty interface whose sizes are all "
            "zero (F-C06-1, witness in the development, reproduced on the real code) and proved under the guard; for the code after "
            "fixes/C06-1.patch it is proved without guard.  The model is tied to variablesizecommunicator.hh on every run by an MPI harness "
            "with a recording handle over generated interface maps, sizes, buffer sizes, directions and seeded completion orders.",
    "note": "Trusted: Coq kernel, extraction, OCaml driver, C++ MPI harness, PMPI shim, OpenMPI; MPI point-to-point semantics "
            "(matching per (source,tag,communicator), non-overtaking, Issend completes only after the matching receive is posted) "
            "are modelled, not verified.",
    "design_ref": "DESIGN.md section 4 C06",
}

HARNESS = [os.path.join(V.VERIF, "harness/C06/impl.cc"), os.path.join(V.VERIF, "harness/common/pmpi_sched.c")]
W = 64  # item coding of the model driver: sizes must stay below


# --------------------------------------------------------------------------- cases

DEFAULT_BUF = 32768     # only used to classify cases (features); the model takes the value re-read from the source
MACRO_BUF = 5           # the second impl binary is compiled with -DDUNE_PARALLEL_MAX_COMMUNICATION_BUFFER_SIZE=5
API = {0: "ctor(MPI_Comm,map,size)", 1: "ctor(MPI_Comm,map)", 2: "ctor(Interface,size)", 3: "ctor(Interface)", 4: "copy-ctor",
       5: "copy-assign+self-assign", 6: "object reused", 7: "non-default Allocator", 8: "original used after its copy",
       9: "source used after assignment", 10: "construct from std::move", 11: "std::swap", 12: "map rebuilt between calls",
       13: "object reused with other handle kind/DataType", 14: "object reused with same-kind handles of other sizes"}
DTYPE = {0: "long", 1: "double", 2: "int", 3: "POD struct (generic MPITraits)", 4: "std::pair<int,double>", 5: "long double",
         6: "std::complex<double>", 7: "FieldVector<double,2>"}
COMMKIND = {0: "split, world order", 1: "split, reversed ranks", 2: "split, rotated ranks", 3: "dup of split", 4: "MPI_COMM_SELF"}


def fmt_case(P, mode, d, buf, seed, NI, entries, sizes, v=0, t=0, mb=0, k=0, hk=0, al=0):
    tail = [v, t, mb, k, hk, al]
    t = [P, mode, d, buf, seed, NI, len(entries)]
    for (p, q, f, s) in entries:
        t += [p, q, len(f)] + f + [len(s)] + s
    for r in sizes:
        t += r
    return " ".join(map(str, t + tail))


def parse_case(line):
    t = list(map(int, line.split()))
    P, mode, d, buf, seed, NI, NE = t[:7]
    i = 7
    es = []
    for _ in range(NE):
        p, q, n1 = t[i:i + 3]; i += 3
        f = t[i:i + n1]; i += n1
        n2 = t[i]; i += 1
        s = t[i:i + n2]; i += n2
        es.append((p, q, f, s))
    sizes = [t[i + r * NI: i + (r + 1) * NI] for r in range(P)]
    i += P * NI
    v, dt, mb, ck, hk, al = (t[i:i + 6] + [0, 0, 0, 0, 0, 0])[:6]
    eff = buf if v not in (1, 3) else (mb or DEFAULT_BUF)      # buffer the constructor ends up with
    return dict(P=P, mode=mode, dir=d, buf=eff, buf_field=buf, seed=seed, NI=NI, entries=es, sizes=sizes, v=v, t=dt, mb=mb, k=ck, hk=hk, al=al)


def links_of(c):
    """[(p, q, send sizes list)] of a parsed case in its direction."""
    res = []
    for (p, q, f, s) in c["entries"]:
        sl = s if c["dir"] else f
        res.append((p, q, [c["sizes"][p][i] for i in sl]))
    return res


def has_allzero(c):
    return c["mode"] == 1 and any(len(z) > 0 and not any(z) for _, _, z in links_of(c))


def features(c):
    ls = links_of(c)
    f = set()
    if any(p == q for p, q, _ in ls): f.add("self")
    if any(len(z) == 0 for _, _, z in ls): f.add("emptylist")
    if any(0 in z for _, _, z in ls): f.add("zerosize")
    if any(len(z) and z[0] == 0 and any(z) for _, _, z in ls): f.add("leadingzero")
    if any(len(z) and z[-1] == 0 and any(z) for _, _, z in ls): f.add("trailingzero")
    if has_allzero(c): f.add("allzero")
    if any(sum(z) > c["buf"] for _, _, z in ls): f.add("multiround")
    if any(len(z) > c["buf"] for _, _, z in ls): f.add("multiround-sizes")
    if any(len(set(x)) < len(x) for (_, _, a, b) in c["entries"] for x in (a, b)): f.add("repeated-index")
    if any(c["buf"] in z for _, _, z in ls): f.add("size==buf")
    if not ls: f.add("no-interface")
    if c["mode"] == 0:
        d, sz = c["dir"], c["sizes"]
        ent = {(p, q): (fi, se) for (p, q, fi, se) in c["entries"]}
        for (p, q), (fi, se) in ent.items():
            sl = se if d else fi
            if not sl or (q, p) not in ent: continue
            fs = sz[p][sl[0]]
            rl = ent[(q, p)][0] if d else ent[(q, p)][1]          # q's receive list for p
            qs = ent[(q, p)][1] if d else ent[(q, p)][0]          # q's send list for p
            if p != q and any(sz[q][i] != fs for i in rl): f.add("fixed:receiver-own-size-differs")
            if p != q and any(sz[q][i] < fs for i in rl): f.add("fixed:receiver-own-size-smaller")
            if p != q and any(sz[q][i] > fs for i in rl): f.add("fixed:receiver-own-size-larger")
            if p != q and any(sz[q][i] == 0 for i in rl): f.add("fixed:receiver-own-size-zero")
            if qs and sz[q][qs[0]] != fs: f.add("fixed:two-directions-announce-different-sizes")
        for p in range(c["P"]):
            fs = set(sz[p][(se if d else fi)[0]] for (pp, q), (fi, se) in ent.items() if pp == p and (se if d else fi))
            if len(fs) > 1: f.add("fixed:size-differs-per-neighbour")
    return f


def fixed_sizes(rng, P, NI, entries, d, top):
    """Sizes of a fixed-size handle inside the precondition (c06_case_ok_fixed): every send list of a rank is homogeneous
    with a size in 1..buf.  What is NOT constrained is varied: the size differs from rank to rank ('rank'), from neighbour to
    neighbour of one rank ('link': one size per connected component of the rank's send lists), indices a rank never sends
    get arbitrary sizes (0, > buf), ranks that only receive report 0 or garbage."""
    alpha = sorted(set(x for x in [1, 2, 3, top - 1, top] if 1 <= x <= top))
    style = rng.choice(["uniform", "rank", "rank", "rank", "link", "link"])
    if style == "uniform":
        F = min(top, rng.choice([1, 1, 2, 3, max(1, top - 1), top]))
        return [[F] * NI for _ in range(P)]
    junk = [0, 0] + alpha + ([top + 1] if top + 1 < W else [])
    sizes = []
    Fp = [rng.choice(alpha) for _ in range(P)]
    if P >= 2 and len(alpha) >= 2 and len(set(Fp)) == 1:
        k = rng.randrange(P)
        Fp[k] = rng.choice([x for x in alpha if x != Fp[k]])
    for p in range(P):
        sls = [(s if d else f) for (pp, q, f, s) in entries if pp == p]
        sent = set(i for sl in sls for i in sl)
        if style == "rank":
            row = [Fp[p]] * NI
        else:
            comp = list(range(NI))
            def find(i):
                while comp[i] != i: i = comp[i]
                return i
            for sl in sls:
                for i in sl[1:]: comp[find(i)] = find(sl[0])
            csz = {}
            row = []
            for i in range(NI):
                r = find(i)
                if r not in csz: csz[r] = rng.choice(alpha)
                row.append(csz[r])
        if rng.random() < (0.6 if not sent else 0.35):       # indices never sent: anything goes (receiver's own count at a receive index)
            row = [row[i] if i in sent else rng.choice(junk) for i in range(NI)]
        if not sent and rng.random() < 0.4:
            row = [0] * NI                                    # a pure receiver whose handle reports 0 everywhere
        sizes.append(row)
    return sizes


def fixed_size_cases(rng):
    """Boundary-directed: two/three ranks, fixed-size handle whose size differs between the two ends of a link, in every order
    (smaller/larger/0/1/buf on the receiver), one and many rounds, both directions, a few API paths incl. object reuse."""
    cs = []
    def seed(): return rng.randrange(1, 1 << 30)
    two = [(0, 1, [0, 1, 2, 1], [2, 0]), (1, 0, [1, 2], [2, 1, 0, 0])]
    for (a, b, buf) in [(2, 3, 7), (3, 2, 7), (1, 5, 5), (5, 1, 5), (2, 3, 3), (3, 2, 3), (4, 1, 4), (1, 4, 9)]:
        for d in (0, 1):
            cs.append(fmt_case(2, 0, d, buf, seed(), 3, two, [[a] * 3, [b] * 3], rng.choice([0, 0, 2, 4, 6, 14]), rng.randrange(8), 0, rng.choice([0, 1, 3]), 0, 0))
    # a pure receiver reporting 0 (rank 1 forward / rank 0 backward), receiver reporting more than the buffer holds
    one = [(0, 1, [0, 1, 2], []), (1, 0, [], [2, 2, 0])]
    cs.append(fmt_case(2, 0, 0, 4, seed(), 3, one, [[2, 2, 2], [0, 0, 0]], 0, 0, 0))
    cs.append(fmt_case(2, 0, 0, 4, seed(), 3, one, [[3, 3, 3], [5, 0, 9]], 14, 1, 0))
    cs.append(fmt_case(2, 0, 1, 4, seed(), 3, [(0, 1, [], [0, 1, 2]), (1, 0, [2, 2, 0], [])], [[4, 4, 4], [0, 1, 0]], 6, 2, 0))
    # three ranks: rank 0 announces 2 to rank 1 and 3 to rank 2 (per neighbour), 1 and 2 answer with 1 resp. 4; self link on 1
    three = [(0, 1, [0, 0], [1]), (0, 2, [1, 2, 1], [2]), (1, 0, [0], [1, 0]), (1, 1, [0, 1], [1, 1]), (2, 0, [2], [0, 1, 2])]
    for d, sz in ((0, [[2, 3, 3], [1, 1, 0], [7, 0, 4]]), (1, [[0, 1, 4], [1, 1, 9], [3, 3, 3]])):
        for buf in (4, 5, 9):
            cs.append(fmt_case(3, 0, d, buf, seed(), 3, three, sz, rng.choice([0, 14, 6]), 0, 0))
    return cs


def gen_one(rng, maxP, allow_allzero, force_allzero=False, mb=0):
    P = rng.choice([1, 2, 2, 3, 3, 4, 4, 5, 6][: 3 + 2 * (maxP - 2)] if maxP >= 2 else [1])
    P = min(P, maxP)
    mode = rng.choice([0, 1, 1])
    d = rng.choice([0, 1])
    NI = rng.choice([1, 2, 3, 4, 6])
    buf = rng.choice([1, 2, 3, 4, 5, 7, 8, 16, 40, 32768])
    v = 0 if rng.random() < 0.35 else rng.randrange(15)
    dt = 0 if rng.random() < 0.25 else rng.randrange(8)
    ck = 0 if rng.random() < 0.3 else rng.choice([1, 1, 2, 3, 4])
    if ck == 4 and P != 1: ck = 1
    hk = 1 if dt <= 1 and rng.random() < 0.4 else 0
    al = 1 if rng.random() < 0.5 else 0
    if mb:
        v = rng.choice([1, 3, 1, 3, 0, 2, 4])
        buf = mb if v in (1, 3) else rng.choice([1, 2, 3, mb, mb + 2])
    pairs = []
    for p in range(P):
        if rng.random() < 0.35:
            pairs.append((p, p))
        for q in range(p + 1, P):
            if rng.random() < 0.65:
                pairs.append((p, q))
    lens = [0, 0, 1, 1, 2, 3, 4, 6, 9]
    ent = {}
    def rl(n): return [rng.randrange(NI) for _ in range(n)]
    for (p, q) in pairs:
        if p == q:
            n = rng.choice(lens)
            a = rl(n)
            ent[(p, p)] = (a, list(a) if rng.random() < 0.4 else rl(n))       # equal lists: candidates for shared storage
        else:
            n1, n2 = rng.choice(lens), rng.choice(lens)
            if rng.random() < 0.3: n2 = n1
            ent[(p, q)] = (rl(n1), rl(n2))      # p.first -> q.second (n1) ; q.first -> p.second (n2)
            ent[(q, p)] = (rl(n2), rl(n1))
            if n1 == n2 and rng.random() < 0.5:  # equal first and second list at p: candidates for a shared index array
                ent[(p, q)] = (ent[(p, q)][0], list(ent[(p, q)][0]))
    entries = [(p, q, ent[(p, q)][0], ent[(p, q)][1]) for (p, q) in sorted(ent)]
    top = min(buf, W - 1)
    if mode == 0:
        sizes = fixed_sizes(rng, P, NI, entries, d, top)
    else:
        alpha = sorted(set(x for x in [0, 0, 1, 2, 3, top - 1, top] if 0 <= x <= top))
        if rng.random() < 0.25:
            alpha = [x for x in alpha if x <= 1] or [0]
        sizes = [[rng.choice(alpha) for _ in range(NI)] for _ in range(P)]
        c = dict(P=P, mode=mode, dir=d, buf=buf, NI=NI, entries=entries, sizes=sizes)
        if force_allzero and entries:
            cand = [(p, q, (s if d else f)) for (p, q, f, s) in entries if len(s if d else f) > 0]
            if cand:
                p, q, sl = rng.choice(cand)
                for i in sl: sizes[p][i] = 0
        if not (allow_allzero or force_allzero):
            for (p, q, f, s) in entries:
                sl = s if d else f
                if sl and not any(sizes[p][i] for i in sl):
                    sizes[p][rng.choice(sl)] = rng.choice([x for x in alpha if x > 0] or [1])
    seed = rng.randrange(1, 1 << 30) if rng.random() < 0.85 else 0
    return fmt_case(P, mode, d, buf, seed, NI, entries, sizes, v, dt, mb, ck, hk, al)


def default_buffer():
    """the default buffer size as re-read from the source into coq/Params_gen.v"""
    try:
        m = re.search(r"c06_param_default_buffer\s*:\s*N\s*:=\s*(\d+)", open(os.path.join(V.COQ, "Params_gen.v")).read())
        return int(m.group(1))
    except Exception:
        return DEFAULT_BUF


def special_member_cases(rng):
    """The clause of C06_special_members that a copy / assigned / self-assigned communicator keeps the configured buffer
    size, exercised where it matters: a buffer LARGER than the default with an index that has more items than the
    default buffer holds (a copy that fell back to the default could never send it), and a buffer smaller than the
    default with an index exactly filling it.  One or two ranks only (cheap)."""
    D = default_buffer()
    big = D + 7232
    cs = []
    def seed(): return rng.randrange(1, 1 << 30)
    two = [(0, 1, [0, 1, 2, 3], [0]), (1, 0, [0], [3, 2, 1, 0])]          # 0 -> 1 four indices, 1 -> 0 one index
    for v in (4, 5):
        # variable sizes 3, big, 0, 7 with buffer big+10000; forward and backward
        cs.append(fmt_case(2, 1, 0, big + 10000, seed(), 4, two, [[3, big, 0, 7], [2, 0, 0, 0]], v, 0, 0))
    cs.append(fmt_case(2, 1, 1, big + 10000, seed(), 4, [(0, 1, [0], [0, 1, 2, 3]), (1, 0, [3, 2, 1, 0], [0])], [[3, big, 0, 7], [2, 0, 0, 0]], 4, 1, 0))
    # fixed size D+1 in a buffer of exactly D+1 items (copy), one rank with a self interface (assignment + self-assignment)
    cs.append(fmt_case(2, 0, 0, D + 1, seed(), 2, [(0, 1, [1, 0], []), (1, 0, [], [0, 1])], [[D + 1, D + 1], [D + 1, D + 1]], 4, 0, 0))
    cs.append(fmt_case(1, 1, 0, big, seed(), 3, [(0, 0, [0, 1, 2], [2, 0, 1])], [[1, big, 0]], 5, 2, 0))
    # the DEFAULT buffer (constructors without size) exactly full: one index of D items, then one more item
    cs.append(fmt_case(2, 1, 0, 5, seed(), 2, [(0, 1, [0, 1], [1]), (1, 0, [1], [1, 0])], [[D, 1], [0, 1]], 1, 0, 0, 1, 0, 0))
    cs.append(fmt_case(2, 0, 1, 5, seed(), 1, [(0, 1, [0], [0, 0]), (1, 0, [0, 0], [0])], [[D], [D]], 3, 1, 0, 3, 1, 0))
    # smaller than the default, an index exactly filling the buffer
    for v in (4, 5):
        cs.append(fmt_case(2, 1, 0, 7, seed(), 3, [(0, 1, [0, 1, 2], [1]), (1, 0, [1], [2, 1, 0])], [[7, 7, 3], [0, 7, 0]], v, 3 if v == 4 else 0, 0))
    return cs


def corpus_cases():
    cp = os.path.join(V.VERIF, "corpus", "C06", "cases.txt")
    if not os.path.exists(cp):
        return []
    return [l.strip() for l in open(cp) if l.strip() and not l.startswith("#")]


# --------------------------------------------------------------------------- running

def is_hang(line):
    return "C06-HANG" in line or line.startswith("HANG")


def run_impl(ctx, exe, np, cases, tag, case_timeout=20):
    """Chunks through V.run_cases; after a hang later chunks use a short per-case alarm; gives up after 4 hangs/crashes."""
    out, bad, i = [], 0, 0
    chunk = 400
    shim = [0, 0, 0]
    while i < len(cases):
        part = cases[i:i + chunk]
        if bad >= 4:
            out += ["NOT-RUN(too many hangs/crashes)"] * (len(cases) - i); break
        tmo = case_timeout if bad == 0 else 6
        env = {"C06_CASE_TIMEOUT": str(tmo), "OMPI_MCA_rmaps_base_oversubscribe": "1"}
        cmd = ["mpirun", "--allow-run-as-root", "--oversubscribe", "-np", str(np), exe]
        t = "%s%d" % (tag, i)
        res = V.run_cases(ctx, cmd, part, tag=t, timeout=max(120, len(part) // 4 + 4 * tmo), max_restarts=4, env=env)
        for ef in glob.glob(ctx.path("%s.cases.*.err" % t)):
            m = re.search(r"C06-SHIM sweeps=(\d+) reordered=(\d+) delays=(\d+)", open(ef, errors="replace").read())
            if m:
                for k in range(3): shim[k] += int(m.group(k + 1))
        for f in glob.glob(ctx.path("%s.cases.*" % t)):
            try: os.remove(f)
            except OSError: pass
        bad += sum(1 for l in res if l.startswith("CRASH") or l.startswith("HANG"))
        out += res
        i += chunk
    return out, shim


def confirm_hang(ctx, exe, np, case, tag):
    """Re-run a case that timed out once more, alone, with a generous alarm: a hang reproduces, load does not."""
    res, _ = run_impl(ctx, exe, np, [case], tag, case_timeout=15 if ctx.quick else 60)
    return res[0]


def oracle(case_line, impl_line, spec):
    """None if the property accepts what the impl did, else the reason."""
    if is_hang(impl_line):
        return "forward()/backward() did not return on every process"
    if impl_line.startswith("NOT-RUN") or impl_line.startswith("SKIPPED-SPECIAL-MEMBERS"):
        return None          # counted in the evidence as not validated
    if impl_line.startswith("CRASH") or impl_line.startswith("BADCASE"):
        return "no observation: " + impl_line[:120]
    pub, _, deep = impl_line.partition(" ||")
    if case_line is not None:
        lim = parse_case(case_line)["buf"]
        big = [int(x) for mm in re.finditer(r" \d+>\d+:([\d.]+)", deep) for x in mm.group(1).split(".") if int(x) > lim]
        if big:
            return "a message of %d items exceeds the configured maximum buffer size %d" % (max(big), lim)
    counts = lambda x: re.findall(r" (\d+>\d+:\d+):", " " + x)
    if pub != spec and counts(pub) != counts(spec):
        return ("a scatter call was told a wrong item count (or index): calls (src>index:count) %s, the peers gathered %s"
                % (" ".join(counts(pub))[:300], " ".join(counts(spec))[:300]))
    if pub != spec:
        return "scatter calls differ from what the peers gathered (lost/duplicated/misattributed item or wrong count)"
    return None


def sig_of(c, impl_line, spec=None):
    mode = "var" if c["mode"] == 1 else "fixed"
    if is_hang(impl_line):
        return "C06:hang:%s%s" % (mode, "-allzero" if has_allzero(c) else "")
    if impl_line.startswith("CRASH"):
        return "C06:crash:%s" % mode
    if oracle(None, impl_line, impl_line.split(" ||")[0]) is None and " ||" in impl_line and \
       any(int(x) > c["buf"] for mm in re.finditer(r" \d+>\d+:([\d.]+)", impl_line.split(" ||")[1]) for x in mm.group(1).split(".")):
        return "C06:buffer-exceeded:%s" % mode
    if spec is not None and re.findall(r" (\d+>\d+:\d+):", " " + impl_line.split(" ||")[0]) != re.findall(r" (\d+>\d+:\d+):", " " + spec):
        return "C06:count:%s" % mode
    return "C06:delivery:%s" % mode


def params_hook(ctx):
    V.sh([sys.executable, os.path.join(V.VERIF, "tools", "extract_params.py"), ctx.repo], check=True)


RACE = ("inconsistent assumptions", "Cannot find a physical path")


def coq_stage_retry(ctx):
    """coq/Params_gen.vo is shared by all properties and may be rebuilt by another check between vcheck's `make` and its
    `coqc` (two separately locked steps): a failure with that signature is a race, not a broken proof -- retry."""
    import time
    for attempt in range(5):
        n = len(ctx.viol)
        if V.coq_stage(ctx):
            return True
        log = (ctx.coq or {}).get("log", "")
        if any(r in log for r in RACE) and attempt < 4:
            del ctx.viol[n:]
            ctx.log("Coq stage hit a concurrent rebuild of a shared library; retrying")
            time.sleep(2 + 3 * attempt)
            continue
        return False
    return False


def build_model_retry(ctx):
    import time
    for attempt in range(5):
        try:
            return V.build_model(ctx)
        except V.BuildError as e:
            if any(r in str(e) for r in RACE) and attempt < 4:
                ctx.log("model build hit a concurrent rebuild of a shared library; retrying")
                time.sleep(2 + 3 * attempt)
                continue
            raise


def build(ctx):
    """(model, (impl, impl_mb)).  If the driver does not compile but compiles without the special-member paths
    (-DC06_NO_SPECIAL_MEMBERS: copy constructor from a const source, copy/self assignment), that is reported as its own
    violation and everything else still runs (the cases on those paths print SKIPPED-SPECIAL-MEMBERS)."""
    model = build_model_retry(ctx)
    mb = "-DDUNE_PARALLEL_MAX_COMMUNICATION_BUFFER_SIZE=%d" % MACRO_BUF
    try:
        impl, impl_mb = V.cxx_many(ctx, [
            dict(srcs=HARNESS, out=ctx.path("impl"), mpi=True, opt="-O1"),
            dict(srcs=HARNESS, out=ctx.path("impl_mb"), mpi=True, opt="-O1", flags=[mb]),
        ])
    except V.BuildError as e:
        impl, impl_mb = V.cxx_many(ctx, [
            dict(srcs=HARNESS, out=ctx.path("impl"), mpi=True, opt="-O1", flags=["-DC06_NO_SPECIAL_MEMBERS"]),
            dict(srcs=HARNESS, out=ctx.path("impl_mb"), mpi=True, opt="-O1", flags=[mb, "-DC06_NO_SPECIAL_MEMBERS"]),
        ])          # a BuildError here propagates: the driver is broken beyond the special members
        ctx.violation("compile:special-members",
                      {"broken": "corr:C06/special-members: copy construction from a const VariableSizeCommunicator / copy assignment / "
                                 "self-assignment no longer compile (the rest of the driver does and was run)",
                       "log": str(e)[-3000:]}, found_input=False)
        ctx.notes.append("driver built with -DC06_NO_SPECIAL_MEMBERS: API paths v=4, v=5 not run")
    return model, (impl, impl_mb)


def run(ctx):
    ctx.params_hook = params_hook
    coq_stage_retry(ctx)
    model, (impl, impl_mb) = build(ctx)
    quick = ctx.quick
    NP = 4 if quick else 6
    rng = ctx.rng("gen")
    cov = {"hang_cases_confirmed": 0}

    # ---- stage 1: corpus (the F-C06-1 witnesses first).  Decides whether all-zero interfaces are generated at large.
    corp = corpus_cases()
    witnesses = [c for c in corp if has_allzero(parse_case(c))]
    others = [c for c in corp if c not in witnesses]
    tree_hangs_on_allzero = False
    stage1_cases, stage1_impl = [], []
    if witnesses:
        r, _ = run_impl(ctx, impl, NP, witnesses[:1], "w", case_timeout=5)
        line = r[0]
        if is_hang(line):
            line = confirm_hang(ctx, impl, NP, witnesses[0], "wc")
            if is_hang(line):
                tree_hangs_on_allzero = True
                cov["hang_cases_confirmed"] += 1
        stage1_cases.append(witnesses[0]); stage1_impl.append(line)
        rest = [] if tree_hangs_on_allzero else witnesses[1:]     # each further witness would cost one more timeout
        if rest:
            r, _ = run_impl(ctx, impl, NP, rest, "w2", case_timeout=6)
            stage1_cases += rest; stage1_impl += r
    ctx.log("corpus witnesses: %d run, tree %s on an all-zero variable-size interface" %
            (len(stage1_cases), "HANGS" if tree_hangs_on_allzero else "returns"))

    # ---- stage 2: generated cases
    N = 1400 if quick else 8000
    fcases = fixed_size_cases(ctx.rng("fixedsizes"))       # fixed sizes differing between the ends of a link: always run, first
    cases = list(others) + fcases
    for n in range(N):
        force = (not tree_hangs_on_allzero) and rng.random() < 0.12
        cases.append(gen_one(rng, NP, allow_allzero=not tree_hangs_on_allzero, force_allzero=force))
    ctx.log("generated %d cases (+%d corpus witnesses)" % (len(cases), len(stage1_cases)))
    io, shim = run_impl(ctx, impl, NP, cases, "impl", case_timeout=20 if quick else 40)
    ctx.log("impl done")
    # a timed-out case is re-run once alone before it is believed
    for i, l in enumerate(io):
        if is_hang(l) and cov["hang_cases_confirmed"] < 3:
            l2 = confirm_hang(ctx, impl, NP, cases[i], "hc")
            if is_hang(l2): cov["hang_cases_confirmed"] += 1
            else: ctx.notes.append("case %d timed out under load but returned when re-run alone" % i)
            io[i] = l2
    # the binary whose translation unit defines DUNE_PARALLEL_MAX_COMMUNICATION_BUFFER_SIZE (other constructor overloads)
    mcases = [gen_one(rng, NP, allow_allzero=not tree_hangs_on_allzero, mb=MACRO_BUF) for _ in range(160 if quick else 1200)]
    mio, shim2 = run_impl(ctx, impl_mb, NP, mcases, "implmb", case_timeout=20 if quick else 40)
    for i, l in enumerate(mio):
        if is_hang(l) and cov["hang_cases_confirmed"] < 3:
            l2 = confirm_hang(ctx, impl_mb, NP, mcases[i], "hcm")
            if is_hang(l2): cov["hang_cases_confirmed"] += 1
            mio[i] = l2
    shim = [a + b for a, b in zip(shim, shim2)]
    # two cases outside the precondition (index larger than the buffer): variable (peer hangs) and fixed (no send at all)
    pcases = ["2 1 0 2 0 1 2 0 1 1 0 0 1 0 0 1 0 3 0 0 0 0", "2 0 0 2 0 1 2 0 1 1 0 0 1 0 0 1 0 3 3 0 0 0"]
    precond_set = set(pcases)
    pio, _ = run_impl(ctx, impl, NP, pcases, "implpre", case_timeout=5)
    # special members with a buffer larger than the default and an index larger than the default buffer (two ranks)
    scases = special_member_cases(ctx.rng("special"))
    sio, _ = run_impl(ctx, impl, 2, scases, "implsm", case_timeout=20)
    for i, l in enumerate(sio):
        if is_hang(l) and cov["hang_cases_confirmed"] < 3:
            l2 = confirm_hang(ctx, impl, 2, scases[i], "hcs")
            if is_hang(l2): cov["hang_cases_confirmed"] += 1
            sio[i] = l2
    cases = stage1_cases + cases + mcases + pcases + scases
    io = stage1_impl + io + mio + pio + sio
    mo = V.run_cases(ctx, [model], cases, tag="model", timeout=900)

    nviol = ndis = ndrift = nprecond = 0
    per_sig = {}
    match_cur = match_new = discriminating = 0
    feats, dist = {}, {"mode": {}, "dir": {}, "P": {}, "buf": {}, "api_path": {}, "data_type": {}, "macro_buffer": {}, "communicator": {}, "handle_class": {}, "shared_index_array": {}}
    rounds_hist = {}
    nontrivial = set()
    for c, a, m in zip(cases, io, mo):
        pc = parse_case(c)
        for k, v in (("mode", "var" if pc["mode"] else "fixed"), ("dir", "backward" if pc["dir"] else "forward"), ("P", pc["P"]), ("buf", pc["buf"]),
                     ("api_path", API.get(pc["v"])), ("data_type", DTYPE.get(pc["t"])), ("macro_buffer", pc["mb"]),
                     ("communicator", COMMKIND.get(pc["k"])), ("handle_class", "const members" if pc["hk"] else "non-const members"),
                     ("shared_index_array", int(bool(pc["al"] and any(f and f == s_ for _, _, f, s_ in pc["entries"]))))):
            dist[k][str(v)] = dist[k].get(str(v), 0) + 1
        for f in features(pc): feats[f] = feats.get(f, 0) + 1
        parts = m.split(" ## ")
        if len(parts) != 4:
            ctx.violation("corr:C06/model-output", {"broken": "corr:C06/model-output", "case": c, "model": m}, found_input=False); ndis += 1
            continue
        cur, new, spec, pre = parts
        if c in precond_set:
            # outside the property's precondition (an index larger than the buffer): the theorem C06_oversize_not_rejected
            # says the code does not reject it and does not return; no oracle verdict, only correspondence
            nprecond += 1
            if pre != "pre=0" or not is_hang(new):
                ctx.violation("corr:C06/precondition-stream", {"broken": "precondition predicate / model on an oversize case", "case": c, "model": m}, found_input=False); ndis += 1
            elif not (is_hang(a) or a.startswith("CRASH")):
                ndis += 1
                ctx.violation("corr:C06/oversize", {"broken": "corr:C06/oversize (model: an index larger than the buffer is never sent and the peer never returns; the tree now behaves differently)",
                                                    "case": c, "impl": a, "model": new}, found_input=False)
            continue
        if pre != "pre=1":
            ctx.violation("corr:C06/generator-precondition", {"broken": "generated case violates c06_case_ok (generator and executable precondition disagree)", "case": c, "model": m}, found_input=False); ndis += 1
            continue
        if any(sum(z) > 0 for _, _, z in links_of(pc)): nontrivial.add(c)
        for mm in re.finditer(r" \d+>\d+:([\d.]+)", new.split(" ||")[1] if " ||" in new else ""):
            k = len(mm.group(1).split(".")); rounds_hist[k] = rounds_hist.get(k, 0) + 1
        if "SCHEDULE-DEPENDENT" in m or "OUTOFFUEL" in m:
            ctx.violation("corr:C06/model-schedule", {"broken": "model observation depends on the schedule or ran out of fuel (contradicts C06_delivery/C06_terminates)", "case": c, "model": m}, found_input=False); ndis += 1
            continue
        if is_hang(new) or new.split(" ||")[0] != spec:
            # C06_delivery says the model of the fixed code returns and delivers the spec for every schedule
            ctx.violation("corr:C06/model-vs-spec", {"broken": "extracted model (fixed code) disagrees with the extracted spec: contradicts theorem C06_delivery / C06_delivery_fixed",
                                                     "case": c, "model_fixed_code": new, "spec": spec}, found_input=False); ndis += 1
        reason = oracle(c, a, spec)
        if reason is not None:
            nviol += 1
            sg = sig_of(pc, a, spec)
            per_sig[sg] = per_sig.get(sg, 0) + 1
            if per_sig[sg] <= 3:
                sh = lambda x: x if len(x) < 4000 else x[:2000] + " ...[%d chars]... " % len(x) + x[-500:]
                ctx.violation(sg, {"case": c, "parsed": pc, "impl": sh(a), "model_tree_code": sh(cur), "model_fixed_code": sh(new), "spec": sh(spec),
                                              "oracle": reason, "replay_cmd": "bin/check C06 --replay <this file>"})
        # correspondence: the tree must behave as one of the two model variants
        def same(x):
            if a.startswith("NOT-RUN") or a.startswith("SKIPPED-SPECIAL-MEMBERS"): return True
            if is_hang(a): return is_hang(x)
            return a.split(" ||")[0] == x.split(" ||")[0] and not is_hang(x)
        if (cur.split(" ||")[0] != new.split(" ||")[0] or is_hang(cur) != is_hang(new)) and not (a.startswith("NOT-RUN") or a.startswith("SKIPPED")):
            discriminating += 1
            match_cur += same(cur); match_new += same(new)
        if not (same(cur) or same(new)):
            if reason is None:
                ndis += 1
                ctx.violation("corr:C06/public", {"broken": "corr:C06/public", "case": c, "impl": a, "model_tree_code": cur, "model_fixed_code": new,
                                                  "oracle": "accepts impl output"}, found_input=False)
        elif not is_hang(a) and a not in (cur, new):
            ndrift += 1
            if ndrift <= 3:
                ctx.notes.append("deep stream (message lengths per round) differs from the model, public stream agrees: case %r impl %r model %r" % (c, a, new))
    if discriminating and match_cur and match_new:
        ctx.violation("corr:C06/variant", {"broken": "tree behaves like the unfixed model on some all-zero cases and like the fixed model on others",
                                            "match_tree_code": match_cur, "match_fixed_code": match_new}, found_input=False)
    variant = "undetermined (no discriminating case run)"
    if discriminating:
        variant = "code as in the tree before fixes/C06-1 (c06_fixnew=false)" if match_cur >= match_new else "code after fixes/C06-1 (c06_fixnew=true)"
    ctx.coverage.update({
        "evaluations": len(cases), "distinct_nontrivial": len(nontrivial),
        "rule": "cases = corpus (F-C06-1 witnesses first) + seeded random cases: P in 1..%d ranks, symmetric random relation incl. self entries, "
                "empty lists and ranks without interface, index lists of length 0..9 with repeated indices over 1..6 local indices, fixed-size and "
                "variable-size recording handle, sizes from {0,1,2,3,buf-1,buf} (fixed-size handles: the same size everywhere, one size per rank, or one size per "
                "neighbour of a rank, from {1,2,3,buf-1,buf}; indices a rank never sends and ranks that only receive report 0 / more than the buffer), buffer sizes {1,2,3,4,5,7,8,16,40,32768}, forward and backward, "
                "PMPI-perturbed completion order from the case seed; every public construction path (4 constructors, copy construction, copy/self assignment, "
                "object reuse, non-default Allocator; a second binary with DUNE_PARALLEL_MAX_COMMUNICATION_BUFFER_SIZE=%d) and 5 handle DataTypes; non-trivial = at least one item is communicated; distinct = distinct case lines. "
                "While the tree hangs on all-zero interfaces (F-C06-1 open) only the corpus witnesses exercise them." % (NP, MACRO_BUF),
        "samples": cases[:2] + cases[len(cases) // 2: len(cases) // 2 + 2] + cases[-1:],
        "distribution": dist, "features_hit": feats, "messages_per_link_histogram": {str(k): v for k, v in sorted(rounds_hist.items())},
        "impl_model_disagreements": ndis, "oracle_rejections": nviol, "precondition_violating_cases": nprecond, "deep_stream_drift": ndrift,
        "tree_matches_model_variant": variant, "discriminating_cases": discriminating,
        "pmpi_shim": {"perturbed_sweeps": shim[0], "calls_reporting_out_of_index_order": shim[1], "delays": shim[2]},
        "traces_validated_against_impl": sum(1 for a in io if not (a.startswith("NOT-RUN") or a.startswith("CRASH") or a.startswith("SKIPPED"))),
        "special_member_big_buffer_cases": len(scases), "fixed_size_differs_directed_cases": len(fcases), "default_buffer_from_source": default_buffer(),
        "exhaustive": False,
    })
    ctx.assumptions += ["MPI point-to-point semantics as modelled (per-pair FIFO matching on the private communicator, Issend completes after the matching receive is posted)",
                        "schedules of the impl are sampled through harness/common/pmpi_sched.c; all schedules are covered by the theorems only"]


def replay(ctx, path):
    rep = json.load(open(path))
    case = rep["case"]
    model, (impl, impl_mb) = build(ctx)
    pc = parse_case(case)
    io, _ = run_impl(ctx, impl_mb if pc["mb"] else impl, max(pc["P"], 2), [case], "rimpl", case_timeout=20)
    mo = V.run_cases(ctx, [model], [case], tag="rmodel")
    cur, new, spec = (mo[0].split(" ## ") + ["", "", ""])[:3]
    print("case  :", case); print("impl  :", io[0]); print("model (tree code) :", cur); print("model (fixed code):", new); print("spec  :", spec)
    r = oracle(case, io[0], spec)
    print("oracle:", r or "accepts")
    return 1 if r else 0
