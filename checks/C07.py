"""C07 — collectives and MPI marshalling reproduce the sequential fold / the originals (DESIGN.md section 4, C07)."""
import os, sys, re, json
import vcheck as V

META = {
    "level": "proof",
    "technique": "Coq proofs about the glue (reduction-tree invariance of the functor trampoline, sequential stand-in = one-process "
                 "collective, MPIPack codec round trip over abstract encoders, type-map pack/unpack transfers exactly the mapped bytes, "
                 "rrecv length) + extracted-model vs C++/MPI differential correspondence with spec oracle on P=1..4(6) ranks",
    "text": "Theorems in coq/Properties_C07.v.  The model (coq/C07_Model.v) transcribes the wrappers of mpicommunication.hh, the loops of "
            "Communication<No_Comm>, the MPITraits datatype constructions as type maps over a measured layout, MPIPack and rrecv; it is "
            "tied to the working tree on every run by executing identical generated cases (every collective and non-blocking variant, all roots, "
            "21 element types, rank-dependent lengths, extremes, user functors through the trampoline, byte-level datatype content with "
            "sentinel-filled receivers, MPIPack scripts, dynamic-size receives) on the C++ classes under mpirun and on the extracted model.",
    "note": "Trusted: the MPI library's collectives/point-to-point/pack semantics (c07_MPI_* in the model), Coq kernel, extraction, OCaml driver, "
            "C++ harness, OpenMPI packing natively (little endian, no padding) on this platform.",
    "design_ref": "DESIGN.md section 4 C07",
}

HARNESS = os.path.join(V.VERIF, "harness/C07/impl.cc")
I32, I64 = 2 ** 31, 2 ** 63

# name: (number of fields, mask of communicated fields)
TYPES = {
    "int": 1, "long": 1, "uchar": 1, "char": 1, "short": 1, "ulong": 1, "llong": 1, "float": 1, "double": 1, "ldouble": 1,
    "dbits": 1, "fbits": 1, "cdouble": 2, "fv_d3": 3, "fv_i1": 1, "fv_c3": 3, "big64": 1, "big100": 1, "pr_id": 2, "pr_cl": 2,
    "pli": 4, "ip": 5,
    # pairs whose members have no intrinsic MPI type (shipped as raw bytes: alignment 1 for MPI) and padding; more digit counts / dimensions
    "uint": 1, "ushort": 1, "cfloat": 2, "cldouble": 2,
    # exactly rescaled floating-point families: token v stands for v * 2^K  (K = 300, -300, -1074 (denormal) for double; 100, -149 for float)
    "d_hi": 1, "d_lo": 1, "d_den": 1, "f_hi": 1, "f_den": 1,
    "pr_li": 2, "pr_il": 2, "pr_pc": 3, "pr_cp": 3, "pr_ed": 2, "pr_n": 3, "big16": 1, "big17": 1, "big55": 1, "fv_d2": 2, "fv_l5": 5,
}
MASK = {t: "1" * n for t, n in TYPES.items()}
MASK["pli"] = "0100"; MASK["ip"] = "10100"
FULL = [t for t in TYPES if t not in ("pli", "ip")]
INTRINSIC_ARITH = ["int", "long", "uchar", "char", "short", "ulong", "float", "double", "ldouble", "uint", "ushort", "d_hi", "d_lo", "d_den", "f_hi", "f_den"]
ALIAS = {"dbits": "double", "fbits": "float", "d_hi": "double", "d_lo": "double", "d_den": "double", "f_hi": "float", "f_den": "float"}
SCALED = {"d_hi": "double", "d_lo": "double", "d_den": "double", "f_hi": "float", "f_den": "float"}
STATIC_RANGE = ["fv_d3", "fv_i1", "fv_c3", "fv_d2", "fv_l5"]     # types with data()/size() but no resize(): MPIData describes them as n x K


def pick(rng, specials, lo, hi):
    return rng.choice(specials) if rng.random() < 0.45 else rng.randrange(lo, hi)


def elem_any(rng, ty):
    """an element of type ty with arbitrary (extreme) values, by-value tokens"""
    r = rng
    if ty == "int": return [pick(r, [0, 1, -1, I32 - 1, -I32], -I32, I32)]
    if ty in ("long", "llong"): return [pick(r, [0, 1, -1, I64 - 1, -I64], -I64, I64)]
    if ty == "uchar": return [pick(r, [0, 1, 255, 128], 0, 256)]
    if ty == "char": return [pick(r, [0, 1, -1, 127, -128], -128, 128)]
    if ty == "short": return [pick(r, [0, -1, 32767, -32768], -32768, 32768)]
    if ty == "ulong": return [pick(r, [0, 1, 2 ** 64 - 1, 2 ** 63], 0, 2 ** 64)]
    if ty == "float": return [pick(r, [0, 1, -1, 2 ** 24 - 1, -(2 ** 24)], -(2 ** 24), 2 ** 24)]
    if ty == "double": return [pick(r, [0, 1, -1, 2 ** 53 - 1, -(2 ** 53)], -(2 ** 53), 2 ** 53)]
    if ty in SCALED: return elem_any(r, SCALED[ty])
    if ty == "ldouble": return [pick(r, [0, 1, -1, 2 ** 62 - 1], -(2 ** 62), 2 ** 62)]
    if ty == "dbits": return [pick(r, [0, 1 << 63, 0x7ff0000000000000, 0xfff0000000000000, 0x7ff8000000000000, 0x7ff0000000000001,
                                        0x7fefffffffffffff, 1, 0x000fffffffffffff, 2 ** 64 - 1], 0, 2 ** 64)]
    if ty == "fbits": return [pick(r, [0, 1 << 31, 0x7f800000, 0xff800000, 0x7fc00000, 0x7f7fffff, 1, 2 ** 32 - 1], 0, 2 ** 32)]
    if ty == "cdouble": return [elem_any(r, "double")[0], elem_any(r, "double")[0]]
    if ty == "fv_d3": return [elem_any(r, "double")[0] for _ in range(3)]
    if ty == "fv_i1": return elem_any(r, "int")
    if ty == "fv_c3": return [elem_any(r, "char")[0] for _ in range(3)]
    if ty == "big64": return [pick(r, [0, 1, 2 ** 64 - 1, 2 ** 63, 0xffff, 0x10000], 0, 2 ** 64)]
    if ty == "big100":
        hi = pick(r, [0, 0, 1, 2 ** 36 - 1], 0, 2 ** 36); lo = pick(r, [0, 1, 2 ** 64 - 1], 0, 2 ** 64)
        return [str(lo) if hi == 0 else "%d.%d" % (hi, lo)]
    if ty == "pr_id": return [elem_any(r, "int")[0], elem_any(r, "double")[0]]
    if ty == "pr_cl": return [elem_any(r, "char")[0], elem_any(r, "long")[0]]
    if ty == "uint": return [pick(r, [0, 1, 2 ** 32 - 1, 2 ** 31, 2 ** 31 - 1], 0, 2 ** 32)]
    if ty == "ushort": return [pick(r, [0, 1, 65535, 32768, 32767], 0, 65536)]
    if ty == "cfloat": return [elem_any(r, "float")[0], elem_any(r, "float")[0]]
    if ty == "cldouble": return [elem_any(r, "ldouble")[0], elem_any(r, "ldouble")[0]]
    if ty == "pr_li": return [elem_any(r, "long")[0], elem_any(r, "int")[0]]
    if ty == "pr_il": return [elem_any(r, "int")[0], elem_any(r, "long")[0]]
    if ty == "pr_pc": return [elem_any(r, "double")[0], elem_any(r, "double")[0], elem_any(r, "char")[0]]
    if ty == "pr_cp": return [elem_any(r, "char")[0], elem_any(r, "double")[0], elem_any(r, "double")[0]]
    if ty == "pr_ed": return [pick(r, [0, 1000000, -1, I32 - 1], -I32, I32), elem_any(r, "double")[0]]
    if ty == "pr_n": return [elem_any(r, "char")[0], elem_any(r, "double")[0], elem_any(r, "char")[0]]
    if ty in ("big16", "big17", "big55"):
        w = int(ty[3:]); return [pick(r, [0, 1, 2 ** w - 1, 2 ** (w - 1)], 0, 2 ** w)]
    if ty == "fv_d2": return [elem_any(r, "double")[0] for _ in range(2)]
    if ty == "fv_l5": return [elem_any(r, "long")[0] for _ in range(5)]
    if ty == "pli": return [pick(r, [0, 1, 2 ** 64 - 1], 0, 2 ** 64), pick(r, [0, 1, 2, 127], 0, 128), r.randrange(2), r.randrange(2)]
    if ty == "ip": return elem_any(r, "int") + elem_any(r, "pli")
    raise KeyError(ty)


def elem_small(rng, ty, bound):
    n = TYPES[ty]
    lo = 0 if ty in ("uchar", "ulong", "big64", "big100", "uint", "ushort") else -bound
    return [rng.randrange(lo, bound + 1) for _ in range(n)]


def sh_elem(e): return ":".join(str(x) for x in e)
def sh_buf(b): return ",".join(sh_elem(e) for e in b) if b else "_"
def sh_bufs(bs): return ";".join(sh_buf(b) for b in bs)
def sh_ints(l): return ",".join(map(str, l)) if l else "-"


def toks(case):
    """tokens of a case line without the communicator selector (@dup / @rev / @self)"""
    t = case.split()
    return t[1:] if t and t[0].startswith("@") else t


def comm_of(case):
    t = case.split()
    return t[0] if t and t[0].startswith("@") else "@world"


def coll_line(comm, op, fn, ty, P, root, ln, lens, displs, ins, outs):
    return "coll %s %s %s %s %s %d %d %d %s %s %s %s" % (comm, op, fn, ty, MASK[ty], P, root, ln, sh_ints(lens), sh_ints(displs), sh_bufs(ins), sh_bufs(outs))


# which reductions a type supports (mirrors OpsOf in the harness); value bound keeps every partial result exactly representable
SUM_T = {"uint": 10 ** 6, "ushort": 1000, "cfloat": 1000, "cldouble": 10 ** 6, "int": 10 ** 6, "long": 10 ** 12, "uchar": 20, "char": 10, "short": 1000, "ulong": 10 ** 12, "llong": 10 ** 12, "float": 1000, "double": 10 ** 9,
         "d_hi": 10 ** 9, "d_lo": 10 ** 9, "d_den": 10 ** 9, "f_hi": 1000, "f_den": 1000,
         "ldouble": 10 ** 12, "cdouble": 10 ** 6, "fv_d3": 10 ** 6, "fv_i1": 10 ** 6, "fv_c3": 10, "big64": 10 ** 12, "big100": 10 ** 12}
PROD_T = {"uint": 30, "ushort": 5, "cfloat": 3, "cldouble": 5, "int": 30, "long": 1000, "uchar": 2, "short": 5, "ulong": 1000, "llong": 1000, "float": 8, "double": 100, "ldouble": 1000, "cdouble": 5}
ORD_T = ["d_hi", "d_lo", "d_den", "f_hi", "f_den", "uint", "ushort", "int", "long", "uchar", "char", "short", "ulong", "llong", "float", "double", "ldouble", "big64"]
XOR_T = ["uint", "ushort", "int", "long", "uchar", "short", "ulong", "llong", "big64"]


def red_elem(rng, ty, fn):
    if fn in ("plus", "uplus"): return elem_small(rng, ty, SUM_T[ty])
    if fn == "mult": return elem_small(rng, ty, PROD_T[ty])
    if fn in ("min", "max", "xor"):
        # the full range of the type (the model driver computes on arbitrary-size integers): unsigned long / bigunsignedint<64> on both
        # sides of 2^63, long at its extremes
        e = elem_any(rng, ty)
        if ty == "ulong" and fn in ("min", "max"):
            # Min/Max<unsigned long> map to the BUILT-IN MPI_MIN/MPI_MAX on MPI_UNSIGNED_LONG, and the installed MPI library (Open MPI 4.1.4)
            # itself compares those operands as SIGNED (plain C MPI_Allreduce of {1, 2^63}: max = 1, min = 2^63 -- no Dune code involved).
            # The library's collectives are the trusted spec of C07, so values >= 2^63 stay out of this one combination; unsigned long
            # beyond 2^63 is still reduced through the trampoline (xor, uplus) and moved by every collective.
            e = [min(x, 2 ** 63 - 1) for x in e]
        return e
    if fn == "maxsum": return [elem_any(rng, "int")[0], rng.randrange(-10 ** 9, 10 ** 9)]
    raise KeyError(fn)


def fns_of(ty):
    r = []
    if ty in SUM_T: r += ["plus", "uplus"]
    if ty in PROD_T: r.append("mult")
    if ty in ORD_T: r += ["min", "max"]
    if ty in XOR_T: r.append("xor")
    if ty == "pr_id": r.append("maxsum")
    return r


def gen_coll(ctx, comm, P, N):
    """N random cases of every collective for P ranks (comm = mpi) or the stand-in (comm = seq, P = 1)"""
    rng = ctx.rng("coll", comm, P)
    cases = []
    seq = comm == "seq"
    types_move = FULL if seq else list(TYPES)
    red_types = [t for t in TYPES if fns_of(t)]

    def sent(ty): return elem_any(rng, ty)
    def buf(ty, n): return [elem_any(rng, ty) for _ in range(n)]
    for it in range(N):
        root = rng.randrange(P)
        # ---- reductions
        ty = rng.choice(red_types); fn = rng.choice(fns_of(ty))
        form = rng.choice(["1", "N", "allred2", "allredN", "iallred2", "iallred1"] + ([] if seq else ["allredV", "iallred2V"]))
        if form in ("iallred2", "iallred1") and ty in STATIC_RANGE and not seq:
            form = "allred2"        # F-C07-4 (known): witnesses are in corpus/C07/cases.txt
        if form in ("allredV", "iallred2V"):
            ty = rng.choice(INTRINSIC_ARITH); fn = rng.choice([f for f in fns_of(ty) if f in (("plus", "max", "min", "mult") if form == "allredV" else ("plus", "max"))])
        ln = rng.choice([0, 1, 1, 2, 3, 5, 17]) if form in ("N", "allred2", "allredN", "allredV", "iallred2V") else 1
        if form in ("allredV", "iallred2V") and ln == 0: ln = 1
        ins = [[red_elem(rng, ty, fn) for _ in range(ln)] for _ in range(P)]
        extra = rng.choice([0, 0, 1])
        if form in ("1", "N"):
            if fn in ("uplus", "xor", "maxsum"): fn = "plus" if ty in SUM_T else ("min" if ty in ORD_T else None)
            if fn is None: continue
            if fn == "plus": ins = [[red_elem(rng, ty, "plus") for _ in range(ln)] for _ in range(P)]
            opn = {"plus": "sum", "mult": "prod", "min": "min", "max": "max"}[fn] + form
            if form == "1":
                cases.append(coll_line(comm, opn, "-", ty, P, 0, 1, [], [], ins, [[sent(ty)] for _ in range(P)]))
            else:
                io = [b + buf(ty, extra) for b in ins]
                cases.append(coll_line(comm, opn, "-", ty, P, 0, ln, [], [], io, io))
        elif form in ("allred2", "iallred2", "iallred2V"):
            ex = 0 if form == "iallred2V" else extra
            cases.append(coll_line(comm, form, fn, ty, P, 0, ln, [], [], ins, [buf(ty, ln + ex) for _ in range(P)]))
        else:
            ex = 0 if form == "allredV" else extra
            io = [b + buf(ty, ex) for b in ins]
            cases.append(coll_line(comm, form, fn, ty, P, 0, ln, [], [], io, io))
        # ---- data movement
        ty = rng.choice(types_move)
        op = rng.choice(["bcast", "ibcast", "ibcast1", "gather", "igather1", "gatherv", "scatter", "iscatter1", "scatterv", "allgather", "iallgather1", "allgatherv"]
                        + ([] if seq else ["igatherV", "iscatterV", "iallgatherV"]))
        ln = rng.choice([0, 1, 1, 2, 3, 4, 17] if rng.random() < 0.3 else [0, 1, 1, 2, 3, 4])
        ex = rng.choice([0, 0, 1, 2])
        if seq and op in ("gather", "scatter", "allgather", "gatherv", "allgatherv", "scatterv") and rng.random() < 0.2:
            # exact aliasing: the send buffer IS the receive buffer (displacement 0): the buffer must come back unchanged
            b = buf(ty, ln + ex)
            if op in ("gather", "scatter", "allgather"):
                cases.append(coll_line(comm, op, "alias", ty, P, 0, ln, [], [], [b], [b]))
            else:
                cases.append(coll_line(comm, op, "alias", ty, P, 0, 0, [ln], [0], [b], [b]))
            continue
        if op == "bcast":
            io = [buf(ty, ln + ex) for _ in range(P)]
            cases.append(coll_line(comm, op, "-", ty, P, root, ln, [], [], io, io))
        elif op == "ibcast":
            ln = max(ln, 1); io = [buf(ty, ln) for _ in range(P)]
            cases.append(coll_line(comm, op, "-", ty, P, root, ln, [], [], io, io))
        elif op == "ibcast1":
            io = [buf(ty, 1) for _ in range(P)]
            cases.append(coll_line(comm, op, "-", ty, P, root, 1, [], [], io, io))
        elif op in ("gather", "allgather"):
            ins = [buf(ty, ln + rng.choice([0, 1])) for _ in range(P)]
            outs = [buf(ty, P * ln + ex) if (r == root or op == "allgather" or rng.random() < 0.5) else [] for r in range(P)]
            cases.append(coll_line(comm, op, "-", ty, P, root, ln, [], [], ins, outs))
        elif op in ("igather1", "iallgather1"):
            ins = [buf(ty, 1) for _ in range(P)]
            # igather: the receive object is significant at the root only: other ranks hold objects of OTHER sizes (also empty)
            outs = [buf(ty, P + ex) if (r == root or op == "iallgather1" or seq or rng.random() < 0.4) else buf(ty, rng.choice([0, 0, 1, 2])) for r in range(P)]
            cases.append(coll_line(comm, op, "-", ty, P, root, 1, [], [], ins, outs))
        elif op in ("igatherV", "iallgatherV"):
            ln = max(ln, 1); ins = [buf(ty, ln) for _ in range(P)]
            outs = [buf(ty, P * ln + ex) if (r == root or op == "iallgatherV" or rng.random() < 0.4) else buf(ty, rng.choice([0, 0, 1, ln])) for r in range(P)]
            cases.append(coll_line(comm, op, "-", ty, P, root, ln, [], [], ins, outs))
        elif op in ("gatherv", "allgatherv"):
            lens = [rng.choice([0, 1, 2, 3, 17] if rng.random() < 0.2 else [0, 1, 2, 3]) for _ in range(P)]
            # non-overlapping blocks in a random order with random gaps
            order = list(range(P)); rng.shuffle(order)
            displs = [0] * P; pos = rng.choice([0, 0, 1, 2])
            if seq and rng.random() < 0.4: pos = 0
            for r in order:
                displs[r] = pos; pos += lens[r] + rng.choice([0, 0, 1])
            ins = [buf(ty, lens[r]) for r in range(P)]
            outs = [buf(ty, pos + ex) if (r == root or op == "allgatherv" or rng.random() < 0.5) else buf(ty, 0) for r in range(P)]
            # asym: the non-root ranks pass count / displacement arrays that DIFFER from the root's (significant at the root only)
            cases.append(coll_line(comm, op, "asym" if (op == "gatherv" and not seq and P > 1 and rng.random() < 0.5) else "-", ty, P, root, 0, lens, displs, ins, outs))
        elif op == "scatter":
            ins = [buf(ty, P * ln + ex) if r == root else buf(ty, rng.choice([0, 1])) for r in range(P)]
            outs = [buf(ty, ln + rng.choice([0, 1])) for _ in range(P)]
            cases.append(coll_line(comm, op, "-", ty, P, root, ln, [], [], ins, outs))
        elif op == "iscatter1":
            # iscatter: the send object is significant at the root only: other ranks hold objects of OTHER sizes (also empty)
            ins = [buf(ty, P) if (r == root or seq or rng.random() < 0.4) else buf(ty, rng.choice([0, 0, 1, P + 1])) for r in range(P)]
            outs = [buf(ty, 1) for _ in range(P)]
            cases.append(coll_line(comm, op, "-", ty, P, root, 1, [], [], ins, outs))
        elif op == "iscatterV":
            ln = max(ln, 1); ins = [buf(ty, P * ln) if (r == root or rng.random() < 0.4) else buf(ty, rng.choice([0, 0, 1, P * ln + 1])) for r in range(P)]
            outs = [buf(ty, ln) for _ in range(P)]
            cases.append(coll_line(comm, op, "-", ty, P, root, ln, [], [], ins, outs))
        elif op == "scatterv":
            lens = [rng.choice([0, 1, 2, 3]) for _ in range(P)]
            total = sum(lens) + 3
            displs = [rng.randrange(0, total - lens[r] + 1) for r in range(P)]
            if seq and rng.random() < 0.4: displs[0] = 0
            ins = [buf(ty, total) if r == root else buf(ty, rng.choice([0, 1])) for r in range(P)]
            outs = [buf(ty, lens[r] + rng.choice([0, 1])) for r in range(P)]
            cases.append(coll_line(comm, op, "asym" if (not seq and P > 1 and rng.random() < 0.5) else "-", ty, P, root, 0, lens, displs, ins, outs))
    return cases


def gen_p2p(ctx, N):
    rng = ctx.rng("p2p")
    cases = []
    for it in range(N):
        op = rng.choice(["rrecv", "rrecv", "rrecv_lv", "recv", "isend_irecv", "scalar", "rrecv_str", "rrecv_pack",
                         "rrecv_twice", "rrecv_twice", "rrecv_status", "recv_status", "irecv0", "isend_irecv_lv"])
        ty = rng.choice(list(TYPES))
        n = rng.choice([0, 1, 2, 3, 17]); m = rng.choice([0, 1, 2, 5])
        if op == "rrecv_str": ty = "char"
        if op == "rrecv_pack": ty = rng.choice(FULL); m = rng.choice([0, 1])
        if op in ("recv", "isend_irecv", "isend_irecv_lv", "recv_status"): m = n + rng.choice([0, 1, 2])
        if op in ("rrecv_status", "recv_status", "irecv0"): ty = rng.choice(FULL)
        if op in ("isend_irecv", "isend_irecv_lv"): m = max(m, 1)
        if op == "scalar": n = 1; m = rng.choice([1, 2])
        sent = [elem_any(rng, ty) for _ in range(n)]; pre = [elem_any(rng, ty) for _ in range(m)]
        cases.append("p2p %s %s %s %s %s" % (op, ty, MASK[ty], sh_buf(sent), sh_buf(pre)))
    return cases


def rbytes(rng, n):
    z = rng.random()
    if z < 0.2: return bytes([rng.choice([0x00, 0xff, 0x5a])] * n)
    return bytes(rng.randrange(256) for _ in range(n))


def gen_dt(ctx, table, N):
    rng = ctx.rng("dt")
    cases = []
    tys = [t for t in table if t not in ALIAS]
    for ty in tys:
        cases.append("layout %s" % ty)
    for it in range(N):
        ty = tys[it % len(tys)] if it < 8 * len(tys) else rng.choice(tys)
        sz = table[ty]["sizeof"]
        via = rng.choice(["send", "scalar", "bcast", "raw"]); count = 1 if via == "scalar" else rng.choice([1, 2, 2, 3, 3, 17])
        ex = rng.choice([0, 1])
        src = rbytes(rng, sz * count)
        dst = bytes([0xA5]) * (sz * (count + ex)) if rng.random() < 0.5 else rbytes(rng, sz * (count + ex))
        cases.append("dt %s %d %s %s %s" % (ty, count, via, src.hex(), dst.hex()))
    return cases


def gen_pack(ctx, table, N):
    rng = ctx.rng("pack")
    cases = []
    tys = [t for t in table if t not in ALIAS]
    dyn = [t for t in tys if t not in ("pli", "ip")]
    for it in range(N):
        k = rng.choice([1, 1, 2, 3, 4, 6]); items = []
        for _ in range(k):
            if rng.random() < 0.5:
                ty = rng.choice(tys); items.append("s|%s|%s" % (ty, rbytes(rng, table[ty]["sizeof"]).hex()))
            else:
                ty = rng.choice(dyn); n = rng.choice([0, 1, 2, 3, 4, 17] if rng.random() < 0.3 else [0, 1, 2, 4]); items.append("d|%s|%s" % (ty, rbytes(rng, table[ty]["sizeof"] * n).hex() or "_"))
        cases.append("pack %d %s" % (rng.choice([0, 0, 1, 3]), " ".join(items)))
    return cases


def masked_expect(table, ty, hexbytes, dyn):
    """what reading back an item must show: static into a 0xA5-filled object -> communicated bytes; dynamic -> all field bytes, padding '..'"""
    sz = table[ty]["sizeof"]; b = bytes.fromhex(hexbytes) if hexbytes != "_" else b""
    rg = [tuple(map(int, x.split(":"))) for x in table[ty]["comm" if not dyn else "all"].split(",")]
    out = []
    for i in range(len(b)):
        inside = any(o <= i % sz < o + n for o, n in rg)
        out.append("%02x" % b[i] if inside else ("a5" if not dyn else ".."))
    return "".join(out) or "_"


def gen_pks(ctx, table, N):
    """MPIPack scripts with seek() to earlier positions followed by pack() (overwrite in the middle, at 0, up to the end, beyond the end),
    seek(end)/seek(0), optional hop to another rank, full read-back; size/tell/eof observed after every op"""
    rng = ctx.rng("pks")
    tys = [t for t in table if t not in ALIAS]
    dyn = [t for t in tys if t not in ("pli", "ip")]
    def item(ty=None, d=None, n=None):
        d = (rng.random() < 0.5) if d is None else d
        ty = ty or rng.choice(dyn if d else tys)
        n = (rng.choice([0, 1, 2, 4]) if n is None else n) if d else 1
        return {"d": d, "ty": ty, "n": n, "hex": rbytes(rng, table[ty]["sizeof"] * n).hex() or "_"}
    def tok(it):
        if it.get("q"): return "q|%s" % it["hex"]
        return "%s|%s|%s" % ("d" if it["d"] else "s", it["ty"], it["hex"])
    def size(it):
        if it.get("q"): return 4 + (0 if it["hex"] == "_" else len(it["hex"]) // 2)
        return (4 if it["d"] else 0) + it["n"] * table[it["ty"]]["packsize"]
    def rtok(it):
        if it.get("q"):
            if rng.random() < 0.5:      # the pack read into already holds other bytes and a cursor
                j = rng.choice([1, 2, 5, 12]); return "u|%s|%s|%d" % (it["hex"], rbytes(rng, j).hex(), rng.choice([0, j, rng.randrange(j + 1)]))
            return "u|%s" % it["hex"]
        return "r|%s|%s|%s" % ("d" if it["d"] else "s", it["ty"], masked_expect(table, it["ty"], it["hex"], it["d"]))
    def qitem():
        return {"q": True, "hex": rbytes(rng, rng.choice([0, 1, 3, 8])).hex() or "_"}
    cases = []
    for c in range(N):
        kind = rng.choice(["slot", "slot", "count", "raw"])
        ops = []
        if kind == "count":
            # placeholder count, items, seek(0), real count, seek(end)
            k = rng.choice([1, 2, 3, 5]); its = [item() for _ in range(k)]
            cnt = {"d": False, "ty": "int", "n": 1, "hex": k.to_bytes(4, "little").hex()}
            ops = ["s|int|00000000"] + [tok(i) for i in its] + ["k|0", tok(cnt), "k|end"]
            slots = [cnt] + its
        elif kind == "slot":
            k = rng.choice([1, 2, 3, 4, 5]); slots = [(qitem() if rng.random() < 0.15 else item()) for _ in range(k)]
            ops = [tok(i) for i in slots]
            for _ in range(rng.choice([1, 1, 2, 3])):
                j = rng.choice([0, k - 1, rng.randrange(k)])
                off = sum(size(i) for i in slots[:j])
                old = slots[j]
                if old.get("q"):
                    new = {"q": True, "hex": rbytes(rng, len(old["hex"]) // 2).hex() if old["hex"] != "_" else "_"}
                elif j == k - 1 and old["d"] and rng.random() < 0.6:
                    new = item(old["ty"], True, rng.choice([0, 1, 2, 4, 6]))     # last slot: shorter / equal / beyond the end
                else:
                    new = item(old["ty"], old["d"], old["n"])                    # same size: overwrite in place
                ops += ["k|%d" % off, tok(new)]
                slots[j] = new
                if rng.random() < 0.3: ops.append("k|end")
            ops.append("k|end")
        else:
            # arbitrary byte positions (inside, at the end, occasionally beyond): byte-level only, no typed read-back
            sz = 0; slots = None
            for _ in range(rng.choice([2, 3, 5])):
                it = item()
                if sz and rng.random() < 0.75:
                    pos = rng.choice([0, sz, max(0, sz - size(it)), rng.randrange(sz + 1), rng.randrange(sz + 1)] + ([sz + rng.choice([1, 3])] if rng.random() < 0.15 else []))
                    ops.append("k|%d" % pos)
                else:
                    pos = sz if not ops else None
                    if pos is None: ops.append("k|end"); pos = sz
                ops.append(tok(it)); sz = max(sz, pos + size(it))
                z = rng.random()
                if z < 0.15:
                    n = rng.choice([0, sz, max(0, sz - 1), sz + 2, rng.randrange(sz + 4)]); ops.append("z|%d" % n); sz = n
                elif z < 0.3:
                    n = rng.choice([0, 1, 3]); ops.append("g|%d" % n); sz += n
            ops.append(rng.choice(["k|end", "k|0"]))
        if rng.random() < 0.25:      # move construction / assignment somewhere in the history
            ops.insert(rng.randrange(len(ops) + 1), "m")
        if kind == "raw" and rng.random() < 0.3:      # MPIPack(comm, size) with a non-default size: written over from cursor 0
            ops.insert(0, "n|%d" % rng.choice([0, 1, 5, 40]))
            ops.insert(1, "k|end")
        z = rng.random()
        if z < 0.3: ops.append("x")
        elif z < 0.65:      # the receiving pack already holds other bytes (more or fewer than the message) and a cursor
            j = rng.choice([1, 3, 9, 40]); ops.append("x|%s|%d" % (rbytes(rng, j).hex(), rng.choice([0, j, rng.randrange(j + 1)])))
        if slots is not None:
            ops.append("k|0"); ops += [rtok(i) for i in slots]
        cases.append("pks %d %s" % (rng.choice([0, 0, 1, 3]), " ".join(ops)))
        # (the position of an "x|.." hop is found by its prefix)
    return cases


def oracle_pks(case, impl, spec):
    """MPIPack semantics judged on the impl's own successive observations: pack at cursor c of bytes b: buffer' = buffer with [c, c+|b|) replaced by b,
    grown (never shrunk) to max(size, c+|b|); cursor' = c+|b|; seek/read/hop leave the buffer alone; reads return what was last written there"""
    t = toks(case); ops = t[2:]
    sp = spec.split("/")[1:]
    parts = impl.split(";")
    if len(parts) < 2: return "malformed observation"
    obs = ([] if parts[0] == "-" else parts[0].split("/")[1:]) + ([] if parts[1] == "-" else parts[1].split("/")[1:])
    if len(obs) != len(ops) or len(sp) != len(ops): return "observation has %d entries for %d ops: %s" % (len(obs), len(ops), impl[:120])
    buf = b""; pos = 0
    for i, (op, o) in enumerate(zip(ops, obs)):
        f = o[1:].split(","); kind = o[0]
        if len(f) < 3: return "op %d (%s): malformed %s" % (i, op[:30], o[:60])
        size, tell, eof = int(f[-3]), int(f[-2]), f[-1]
        if (eof == "e") != (tell == size): return "op %d (%s): eof()=%s but tell=%d size=%d" % (i, op[:30], eof, tell, size)
        it = op.split("|")
        if it[0] in ("s", "d"):
            b = bytes.fromhex(sp[i][1:]) if sp[i][1:] != "_" else b""
            nb = bytearray(buf) + bytearray(max(0, pos + len(b) - len(buf)))
            nb[pos:pos + len(b)] = b
            got = bytes.fromhex(f[0]) if f[0] != "_" else b""
            if got != bytes(nb):
                return ("op %d: pack of %d bytes at cursor %d of a %d-byte buffer: buffer must become %s (bytes outside [cursor,cursor+size) unchanged, "
                        "size max(old,cursor+size)=%d), impl has %d bytes %s" % (i, len(b), pos, len(buf), bytes(nb).hex()[:120], len(nb), len(got), got.hex()[:120]))
            buf = bytes(nb); pos += len(b)
        elif it[0] == "q":
            b = bytes.fromhex(sp[i][1:]) if sp[i][1:] != "_" else b""
            nb = bytearray(buf) + bytearray(max(0, pos + len(b) - len(buf))); nb[pos:pos + len(b)] = b
            got = bytes.fromhex(f[0]) if f[0] != "_" else b""
            if got != bytes(nb): return "op %d: packing a pack of %d bytes at cursor %d: buffer must become %s, impl has %s" % (i, len(b) - 4, pos, bytes(nb).hex()[:120], got.hex()[:120])
            buf = bytes(nb); pos += len(b)
        elif it[0] == "u":
            if f[0] != it[1]: return "op %d: inner pack read back as %s, written %s" % (i, f[0][:100], it[1][:100])
            pos = tell
        elif it[0] == "n":
            buf = bytes(int(it[1])); pos = 0
            got = bytes.fromhex(f[0]) if f[0] != "_" else b""
            if got != buf: return "op %d: MPIPack(comm, %s) holds %s" % (i, it[1], got.hex()[:80])
        elif it[0] == "m":
            got = bytes.fromhex(f[0]) if f[0] != "_" else b""
            if got != buf: return "op %d: after move construction/assignment the pack holds %s, before %s" % (i, got.hex()[:100], buf.hex()[:100])
        elif it[0] in ("z", "g"):
            n = int(it[1]); nb = (buf[:n] + bytes(max(0, n - len(buf)))) if it[0] == "z" else buf + bytes(n)
            got = bytes.fromhex(f[0]) if f[0] != "_" else b""
            if got != nb: return "op %d (%s): buffer must become %s, impl has %s" % (i, op, nb.hex()[:100], got.hex()[:100])
            buf = nb
        elif it[0] == "k":
            pos = len(buf) if it[1] == "end" else int(it[1])
        elif it[0] == "x":
            got = bytes.fromhex(f[0]) if f[0] != "_" else b""
            if got != buf: return "op %d: received pack holds %s, sent %s" % (i, got.hex()[:100], buf.hex()[:100])
            pos = int(it[2]) if len(it) >= 3 else 0      # rrecv never seeks: the cursor of the receiving pack stays
        elif it[0] == "r":
            if f[0] != it[3]: return "op %d: read back %s, last written there %s" % (i, f[0][:100], it[3][:100])
            pos = tell     # the cursor after a read is checked against the model (correspondence); here: must not pass the end
            if tell > size: return "op %d: cursor %d beyond size %d after read" % (i, tell, size)
        if size != len(buf): return "op %d (%s): size()=%d, buffer must have %d bytes" % (i, op[:30], size, len(buf))
        if tell != pos: return "op %d (%s): tell()=%d, must be %d" % (i, op[:30], tell, pos)
    return None


# ------------------------------------------------------------------ oracle
def oracle(case, impl, spec):
    """None if the spec accepts the impl's observation, else a reason"""
    t = toks(case)
    if impl.startswith("HANG") or impl.startswith("CRASH") or impl.startswith("NOT-RUN"):
        return "impl did not complete: %s" % impl[:120]
    if t[0] in ("coll", "p2p", "dt"):
        if "EXC" in impl or "UNSUPPORTED" in impl: return "impl: %s" % impl[:100]
        return None if impl == spec else "every rank must hold %s, impl holds %s" % (spec[:300], impl[:300])
    if t[0] == "pks":
        if "EXC" in impl or "UNSUPPORTED" in impl: return "impl: %s" % impl[:100]
        return oracle_pks(case, impl, spec)
    if t[0] == "layout":
        m = re.match(r"size=(\d+) extent=(-?\d+) sizeof=(\d+) lb=(-?\d+) tlb=(-?\d+) tub=(-?\d+)", impl); s = re.match(r"wf=(\w+) entries=(\S*) comm=(\S*)", spec)
        if not m or not s: return "layout lines unparsable: %s" % impl[:80]
        # the committed MPI datatype itself: arrays of T are walked with stride extent from lower bound lb
        if (m.group(2), m.group(4)) != (m.group(3), "0"):
            return "MPI datatype has (lb, extent) = (%s, %s), arrays of the C++ type need (0, sizeof = %s): elements 1.. of every array/vector transfer are misplaced" % (m.group(4), m.group(2), m.group(3))
        if int(m.group(5)) < 0 or int(m.group(6)) > int(m.group(3)): return "true extent [%s,%s) leaves the object [0,%s)" % (m.group(5), m.group(6), m.group(3))
        fl = dict(x.split("=") for x in spec.split()[3:])
        for k, what in (("tbl", "ComposeMPITraits table maps a C type to an MPI type of different size/kind"),
                        ("views", "MPIData's view of the object and its MPITraits datatype are not the same layout"),
                        ("agree", "igather/iallgather receive signature differs from the send signature")):
            if fl.get(k) != "true": return what
        if s.group(1) != "true": return "type map not well formed (overlap / outside sizeof / extent != sizeof)"
        if s.group(2) != s.group(3): return "type map covers %s, communicated state is %s" % (s.group(2), s.group(3))
        want = sum(int(x.split(":")[1]) for x in s.group(3).split(","))
        return None if int(m.group(1)) == want else "MPI packs %s bytes, communicated state has %d" % (m.group(1), want)
    if t[0] == "pack":
        k = len(t) - 2
        f = impl.split("/"); s = spec.split("/")[1:]
        if len(f) != 4 + k + 2: return "malformed pack observation %s" % impl[:100]
        if f[1] != f[2] or f[3] != "eof": return "after writing: tell=%s size=%s %s" % (f[1], f[2], f[3])
        for i in range(k):
            if f[4 + i] != s[i]: return "item %d read back as %s, written %s" % (i, f[4 + i][:80], s[i][:80])
        if f[4 + k] != f[1] or f[5 + k] != "eof": return "after reading everything: tell=%s (written %s) %s" % (f[4 + k], f[1], f[5 + k])
        return None
    return "unknown case kind"


def sig_of(case):
    t = toks(case)
    if t[0] == "coll":
        extra = ""
        if t[2] in ("gatherv", "scatterv", "allgatherv") and t[1] == "seq":
            d = t[10].split(",")[0]; extra = ":displ!=0" if d not in ("0", "-") else ":displ=0"
        return "C07:%s:%s%s:%s" % (t[1], t[2], extra, t[4])
    if t[0] == "p2p": return "C07:p2p:%s:%s" % (t[1], t[2])
    if t[0] == "dt": return "C07:dt:%s:%s" % (t[3], t[1])
    if t[0] == "layout": return "C07:layout:%s" % t[1]
    if t[0] == "pack": return "C07:pack"
    if t[0] == "pks": return "C07:pack:seek"
    return "C07:?"


def build(ctx, have_impl=False):
    model = V.build_model(ctx)
    impl = ctx.path("impl") if have_impl else V.cxx(ctx, [HARNESS], ctx.path("impl"), mpi=True, opt="-O1")
    rc, out = V.mpirun(1, impl, ["--layout"], timeout=120)
    table = {}
    lines = []
    for l in out.split("\n"):
        f = l.split()
        if len(f) == 7 and f[0] in TYPES:
            table[f[0]] = {"sizeof": int(f[1]), "desc": f[2], "comm": f[3], "all": f[4], "packsize": int(f[5]), "extent": int(f[6])}
            lines.append(l)
    if len(table) < len(TYPES) - len(ALIAS):
        raise V.BuildError("layout measurement failed:\n" + out[-2000:])
    for a, b in ALIAS.items():
        table[a] = table[b]; lines.append(" ".join([a] + [l for l in lines if l.split()[0] == b][0].split()[1:]))
    lt = ctx.path("layout.txt")
    open(lt, "w").write("\n".join(lines) + "\n")
    return model, impl, table, lt


def run_impl(ctx, impl, P, cases, tag):
    cmd = ["mpirun", "--allow-run-as-root", "--oversubscribe", "-np", str(P), impl]
    env = {"OMPI_MCA_rmaps_base_oversubscribe": "1"}
    out = V.run_cases(ctx, cmd, cases, tag=tag, timeout=300 if ctx.quick else 1200, env=env)
    # a timed-out / crashed launch is re-run once alone before it is reported (a hang reproduces, load does not)
    retried = 0
    for i, o in enumerate(out):
        if (o.startswith("HANG") or o.startswith("CRASH") or o.startswith("NOT-RUN")) and retried < 6:
            retried += 1      # bounded: a tree on which many launches hang must not cost hours
            again = V.run_cases(ctx, cmd, [cases[i]], tag=tag + ".again", timeout=120, env=env)
            if again and not (again[0].startswith("HANG") or again[0].startswith("CRASH")):
                ctx.notes.append("case re-run alone after %s: completed" % o[:40]); out[i] = again[0]
    return out


def isolate(ctx):
    """Own build directory per invocation.  Several `bin/check C07 [--repo X]` may run at the same time (mutant trials, seeded trees, the
    coordinator's runs); with the shared default build/C07 one run could execute the impl binary another run had just compiled from a
    DIFFERENT tree (observed: a run on /repo reporting exactly the misplacements of the unresized-pair mutant).  Nothing is shared now:
    binary, extracted model, layout table, case and output files live in build/C07/run-<repo hash>-<pid>; kept afterwards as last-<repo hash>."""
    import hashlib, atexit, shutil, time as _t
    base = os.path.join(V.VERIF, "build", "C07")
    tag = hashlib.sha1(ctx.repo.encode()).hexdigest()[:6]
    d = os.path.join(base, "run-%s-%d" % (tag, os.getpid()))
    os.makedirs(d, exist_ok=True)
    ctx.build = d
    for old in os.listdir(base):      # left-overs of killed runs
        p = os.path.join(base, old)
        if old.startswith("run-") and p != d and _t.time() - os.path.getmtime(p) > 3 * 3600:
            shutil.rmtree(p, True)
    def done():
        last = os.path.join(base, "last-" + tag)
        shutil.rmtree(last, True)
        try: os.rename(d, last)
        except OSError: shutil.rmtree(d, True)
    atexit.register(done)


def params_hook(ctx):
    V.sh([sys.executable, os.path.join(V.VERIF, "tools", "extract_params.py"), ctx.repo], check=True)


def run(ctx):
    isolate(ctx)
    ctx.params_hook = params_hook
    from concurrent.futures import ThreadPoolExecutor
    with ThreadPoolExecutor(max_workers=2) as ex:
        fut = ex.submit(V.cxx, ctx, [HARNESS], ctx.path("impl"), mpi=True, opt="-O1")
        V.coq_stage(ctx)
        fut.result()
    model, impl, table, lt = build(ctx, have_impl=True)
    quick = ctx.quick
    groups = []          # (P, tag, cases)
    Ps = [1, 2, 3, 4] if quick else [1, 2, 3, 4, 5, 6]
    corpus = []
    cp = os.path.join(V.VERIF, "corpus", "C07", "cases.txt")
    if os.path.exists(cp):
        corpus = [l.strip() for l in open(cp) if l.strip() and not l.startswith("#")]
    for P in Ps:
        cs = [c for c in corpus if toks(c)[0] == "coll" and toks(c)[1] == "mpi" and int(toks(c)[6]) == P]
        if cs:      # corpus witnesses include undefined behaviour (F-C07-4 overruns a heap buffer): own launch, so nothing leaks into the random stream
            groups.append((P, "corpus%d" % P, cs))
        rk = ctx.rng("commkind", P)
        world = gen_coll(ctx, "mpi", P, 350 if quick else 3000)
        # the same collectives on a duplicate of the world communicator, on a split communicator whose ranks are REVERSED, and on
        # MPI_COMM_SELF obtained through the converting constructor from Communication<No_Comm> (every rank = a one-process run)
        mixed = [rk.choice(["", "", "@dup ", "@rev ", "@rev "]) + c for c in world]
        selfc = ["@self " + c for c in gen_coll(ctx, "mpi", 1, 40 if quick else 300)] if P > 1 else []
        groups.append((P, "mpi%d" % P, mixed + selfc))
    seqc = [c for c in corpus if c.split()[0] in ("pack", "layout") or (c.split()[0] == "coll" and c.split()[1] == "seq")]
    groups.append((1, "seq", seqc + gen_coll(ctx, "seq", 1, 500 if quick else 5000) + gen_pack(ctx, table, 300 if quick else 3000)))
    p2c = [c for c in corpus if c.split()[0] in ("p2p", "dt", "pks")]
    rk = ctx.rng("commkind", "p2p")
    two = gen_p2p(ctx, 500 if quick else 5000) + gen_dt(ctx, table, 400 if quick else 4000) + gen_pks(ctx, table, 400 if quick else 4000)
    two = [(rk.choice(["", "", "@rev ", "@dup "]) if not c.startswith("layout") else "") + c for c in two]
    groups.append((2, "p2p", p2c + two))
    ncase = nviol = ndis = 0
    kinds = {}
    samples = []
    for P, tag, cases in groups:
        mo = V.run_cases(ctx, [model, lt], cases, tag="model." + tag, timeout=900)
        io = run_impl(ctx, impl, P, cases, "impl." + tag)
        ctx.log("%s: %d cases on %d rank(s)" % (tag, len(cases), P))
        samples += cases[:1]
        for c, m, a in zip(cases, mo, io):
            ncase += 1
            t = toks(c); k = t[0] + ":" + (t[1] + ":" + t[2] + (":asym" if t[3] == "asym" else "") if t[0] == "coll" else t[1] if t[0] in ("p2p",) else t[3] if t[0] == "dt" else "")
            if t[0] == "pks":
                k = "pks:" + ("hop" if "x" in t else "hop-into-used" if any(o.startswith("x|") for o in t) else "local") + (":typed-readback" if any(o.startswith("r|") for o in t) else ":bytes")
            kinds[k] = kinds.get(k, 0) + 1
            kinds["comm:" + comm_of(c)] = kinds.get("comm:" + comm_of(c), 0) + 1
            mm, _, spec = m.partition(" | ")
            if comm_of(c) == "@self":
                mm = ";".join([mm] * P); spec = ";".join([spec] * P)
            if P > 1 and t[0] in ("p2p", "dt", "pks"):
                a2 = ";".join(a.split(";")[:2])      # ranks >= 2 idle
            elif t[0] == "layout":
                a2 = a.split(";")[0]
            else:
                a2 = a
            reason = oracle(c, a2, spec)
            if reason is not None:
                nviol += 1
                if nviol <= 300:
                    ctx.violation(sig_of(c), {"case": c, "ranks": P, "impl": a2, "model": mm, "spec": spec, "oracle": reason,
                                              "replay_cmd": "bin/check C07 --replay <this file>"})
            elif a2 != mm and t[0] != "layout":
                ndis += 1
                ctx.violation("corr:C07/%s" % sig_of(c), {"broken": "corr:C07/%s" % k, "case": c, "ranks": P, "impl": a2, "model": mm, "spec": spec,
                                                          "oracle": "accepts impl output"}, found_input=False)
            if t[0] == "layout" and a2 != mm:
                ndis += 1
                ctx.violation("corr:C07/layout:%s" % t[1], {"broken": "corr:C07/layout (type map size/extent computed by the model differs from MPI's)",
                                                            "case": c, "impl": a2, "model": mm}, found_input=False)
            if "MODEL-EXC" in m:
                ctx.notes.append("model driver exception on %s: %s" % (c[:80], m[:80]))
    bysig = {}
    for sg, _, _ in ctx.viol: bysig[re.sub(r":[a-z_0-9]+$", "", sg)] = bysig.get(re.sub(r":[a-z_0-9]+$", "", sg), 0) + 1
    ctx.log("violations by signature class: %s" % bysig)
    ctx.coverage.update({
        "evaluations": ncase, "distinct_nontrivial": len(set(c for _, _, cs in groups for c in cs if re.search(r"[1-9a-f]", c.split(" ", 5)[-1]))),
        "rule": "cases = corpus + seeded random scripts: per process count P every collective of Communication<MPI_Comm> (blocking, array/scalar forms, "
                "non-blocking variants, every root, lengths 0..17 incl. rank-dependent lengths and permuted displacements with gaps, sentinel-filled "
                "receive buffers longer than needed) over 22 element types with extreme values; reductions with built-in ops and user functors "
                "(trampoline) on values keeping results exact; the same script on Communication<No_Comm>; MPIPack scripts of static/dynamic items from raw "
                "object bytes (buffer bytes, tell/size/eof, read-back into 0xA5-filled objects); MPIPack seek scripts (pack at a cursor before the end: overwrite in the "
                "middle / at 0 / up to the end / beyond the end, placeholder-count pattern, arbitrary byte positions, seek(end)/seek(0), size/tell/eof after every "
                "op, hop to another rank with rrecv, typed read-back); send/recv/rrecv/isend/irecv incl. strings and packs; "
                "datatype content at byte level (random sender bytes incl. padding, sentinel receiver) via send/bcast/raw MPI; layout predicate per type. "
                "non-trivial = some non-zero payload digit; distinct = distinct case lines",
        "samples": samples[:6], "kind_distribution": kinds, "process_counts": Ps,
        "impl_model_disagreements": ndis, "oracle_rejections": nviol, "exhaustive": False,
        "traces_validated_against_impl": ncase, "layout_table": {k: v["desc"] for k, v in table.items()},
    })
    ctx.assumptions += ["MPI library semantics (collectives, matching, MPI_Pack/Unpack, Get_count) are the trusted spec c07_MPI_* / section hypotheses",
                        "OpenMPI packs natively on this platform (little-endian basics, no alignment padding): used for the MPIPack buffer-byte stream",
                        "objects are written/read through their object representation in the dt/pack streams (types are trivially copyable)"]


def replay(ctx, path):
    rep = json.load(open(path))
    case = rep["case"]; P = int(rep.get("ranks", 1))
    isolate(ctx)
    model, impl, table, lt = build(ctx)
    mo = V.run_cases(ctx, [model, lt], [case], tag="rmodel")
    io = run_impl(ctx, impl, P, [case], "rimpl")
    mm, _, spec = mo[0].partition(" | ")
    a = io[0]
    if P > 1 and toks(case)[0] in ("p2p", "dt", "pks"): a = ";".join(a.split(";")[:2])
    print("case  :", case); print("ranks :", P); print("impl  :", a); print("model :", mm); print("spec  :", spec)
    r = oracle(case, a, spec)
    print("oracle:", r or "accepts")
    return 1 if r else 0
