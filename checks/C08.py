"""C08 — eigenvalue routines return an eigen-decomposition (DESIGN.md section 4, C08).  PARTIAL BY DESIGN.

Streams of one run (all seeded, all rebuilt from ctx.repo):
  ev2   bit-exact: FMatrixHelp::eigenValues / eigenValuesVectors on FieldMatrix<double,2,2> (and n = 1) against the
        extracted Flocq binary64 instance of the SAME Gallina text the exact-real theorems are about.
  ho    exact: the LAPACK hand-over (what array/arguments ?syev/?geev receive, how the outputs are read back) with
        recording LAPACK stubs linked instead of LAPACK, against the extracted hand-over model given the same stubs.
  sym   TESTS with stated tolerances (exact rational arithmetic on the impl's own output): all four symmetric entry
        points, float/double, n = 1..6, prescribed spectra, scaled by 2^k.
  nonsym TESTS: DynamicMatrixHelp::eigenValuesNonSym / FMatrixHelp::eigenValuesNonSym with the system LAPACK.
"""
import os, re, struct, math
from fractions import Fraction
import vcheck as V

META = {
    "level": "proof",
    "technique": "Coq proofs in exact real arithmetic (2x2 closed form, 3x3 Smith eigenvalues, LAPACK hand-over index logic, refutations) "
                 "+ bit-exact differential correspondence of the 2x2 double path with the extracted Flocq instance of the same Gallina text "
                 "+ exact hand-over correspondence with recording LAPACK stubs + tolerance TESTS (exact rational oracle) for everything numerical",
    "text": "PARTIAL by design. 'proof' applies ONLY to the exact-arithmetic theorems of coq/Properties_C08.v (2x2 closed form returns an "
            "eigen-decomposition for every real symmetric matrix when the thresholds are 0; refuted for every positive absolute threshold; "
            "row-major/column-major hand-over to ?syev is harmless for symmetric input and returns eigenvectors as rows; the hand-over to ?geev "
            "yields LEFT eigenvectors (refutation of A v = lambda v) and the repaired call yields right eigenvectors; 3x3 closed form over R: "
            "clamp of r inactive (|det B| <= 2 by Cauchy-Schwarz), Smith's values are all roots in ascending order for threshold 0 (both branches), "
            "eig0/orthoComp/eig1/cross product yield an orthonormal eigenbasis for every non-diagonal symmetric matrix (C08_3x3_exact), "
            "pre-scaling makes the 3x3 result invariant under s*A). "
            "Floating-point accuracy, LAPACK and libm are NOT proved: streams 'sym' and 'nonsym' are TESTS with stated tolerances "
            "(64 n eps ||A|| for n = 1, 2 and LAPACK; 8 sqrt(eps) ||A|| for the closed-form 3x3 path), judged in exact integer arithmetic.",
    "note": "Trusted: Coq kernel, Flocq (binary64 semantics = x86-64 SSE2 double, no FMA contraction), extraction, OCaml driver, C++ harness, "
            "the recording LAPACK stubs, the system LAPACK/BLAS and libm (tests only), the Python oracle.",
    "design_ref": "DESIGN.md section 4 C08",
}

H = os.path.join(V.VERIF, "harness", "C08", "impl.cc")
REPO_SRCS = ["dune/common/fmatrixev.cc"] + V.REPO_CC_DEFAULT
S_EXP = 1100
S = 1 << S_EXP                   # fixed-point scale: every finite double is an integer multiple of 2^-1074


# ------------------------------------------------------------------------------------------------ numbers
def d2h(x):
    return "%016x" % struct.unpack(">Q", struct.pack(">d", x))[0]

def f2h(x):
    return "%08x" % struct.unpack(">I", struct.pack(">f", x))[0]

def hexfloat(s):
    """exact value of a C `%La` hex-float string (long double output of the harness) as a Fraction; inf/nan as floats"""
    t = s.strip().lower()
    if t in ("nan", "-nan"):
        return float("nan")
    if t in ("inf", "-inf", "infinity", "-infinity"):
        return float("-inf") if t[0] == "-" else float("inf")
    m = re.fullmatch(r"(-?)0x([0-9a-f]*)\.?([0-9a-f]*)p([-+]?\d+)", t)
    if not m:
        raise ValueError(s)
    mant = int((m.group(2) + m.group(3)) or "0", 16)
    e = int(m.group(4)) - 4 * len(m.group(3))
    v = Fraction(mant) * (Fraction(2) ** e)
    return -v if m.group(1) else v

def isbad(x):
    """NaN or infinity (finite values may be floats or exact Fractions)"""
    return isinstance(x, float) and (math.isnan(x) or math.isinf(x))

def ldexp_any(x, k):
    return x * (Fraction(2) ** k) if isinstance(x, Fraction) else math.ldexp(x, k)

def h2x(s):
    if s == "nan":
        return float("nan")
    if "x" in s or s in ("inf", "-inf"):
        return hexfloat(s)
    if len(s) == 16:
        return struct.unpack(">d", struct.pack(">Q", int(s, 16)))[0]
    return struct.unpack(">f", struct.pack(">I", int(s, 16)))[0]

def tof(x):
    """round a Python float to float32 (as a Python float)"""
    try:
        return struct.unpack(">f", struct.pack(">f", x))[0]
    except OverflowError:
        return math.copysign(float("inf"), x)

def f32_next(x, up):
    """neighbouring binary32 value of the binary32 value x"""
    if x == 0:
        return math.copysign(2.0 ** -149, 1 if up else -1)
    b = struct.unpack(">I", struct.pack(">f", x))[0]
    b += 1 if (x > 0) == up else -1
    return struct.unpack(">f", struct.pack(">I", b))[0]

def f32_round(x, up):
    """the double x rounded up / down to binary32"""
    f = tof(x)
    if up and f < x:
        return f32_next(f, True)
    if not up and f > x:
        return f32_next(f, False)
    return f

def I(x):
    """exact fixed-point integer x * 2^S_EXP of a finite double"""
    n, d = (x.numerator, x.denominator) if isinstance(x, Fraction) else x.as_integer_ratio()
    if S % d:
        return (n * S) // d
    return n * (S // d)


def thresholds(ctx):
    """the literals and the variant of the 2x2 path, re-read from the working tree on every run"""
    txt = ""
    try:
        txt = open(os.path.join(ctx.repo, "dune/common/fmatrixev.hh"), errors="replace").read()
    except OSError:
        pass
    out, src = {}, {}
    m = re.search(r"q\s*<\s*0\s*&&\s*q\s*>\s*-\s*([0-9][0-9.]*(?:[eE][-+]?[0-9]+)?)", txt)
    if m:
        out["thrq"] = float(m.group(1)); src["thrq"] = "extracted"
    else:
        out["thrq"] = 1e-14; src["thrq"] = "DEFAULT (literal not located in source)"
    m = re.search(r"temp\.infinity_norm\(\)\s*<=\s*([0-9][0-9.]*(?:[eE][-+]?[0-9]+)?)\s*\)", txt)
    mr = re.search(r"temp\.infinity_norm\(\)\s*<=\s*std::numeric_limits<\s*K\s*>::epsilon\(\)\s*\*\s*matrix\.infinity_norm\(\)\s*\)", txt)
    if m:
        out["thrid"] = float(m.group(1)); out["rel"] = False; src["thrid"] = "extracted (absolute literal)"
    elif mr:
        out["thrid"] = 2.0 ** -52; out["rel"] = True; src["thrid"] = "extracted (epsilon * matrix.infinity_norm(): fixes/C08-1 applied)"
    else:
        out["thrid"] = 1e-14; out["rel"] = False; src["thrid"] = "DEFAULT (threshold expression not located in source)"
    out["perp"] = bool(re.search(r"eigenVectors\[1\]\s*=\s*\{\s*-\s*eigenVectors\[0\]\[1\]\s*,\s*eigenVectors\[0\]\[0\]\s*\}", txt))
    src["perp"] = "second eigenvector = first rotated by 90 degrees (fixes/C08-3 applied)" if out["perp"] else "second eigenvector from the columns of A - l0 I"
    out["flags"] = ("r" if out["rel"] else "a") + ("p" if out["perp"] else "c")
    return out, src


# ------------------------------------------------------------------------------------------------ generators
def matmul(A, B):
    n = len(A)
    return [[sum(A[i][k] * B[k][j] for k in range(n)) for j in range(n)] for i in range(n)]

def transpose(A):
    return [list(r) for r in zip(*A)]

def rand_orth(rng, n):
    Q = [[1.0 if i == j else 0.0 for j in range(n)] for i in range(n)]
    for _ in range(2):
        u = [rng.gauss(0, 1) for _ in range(n)]
        uu = sum(x * x for x in u) or 1.0
        Hh = [[(1.0 if i == j else 0.0) - 2 * u[i] * u[j] / uu for j in range(n)] for i in range(n)]
        Q = matmul(Q, Hh)
    return Q

def sym_from_spectrum(rng, spec):
    n = len(spec)
    Q = rand_orth(rng, n)
    D = [[spec[i] if i == j else 0.0 for j in range(n)] for i in range(n)]
    A = matmul(matmul(Q, D), transpose(Q))
    for i in range(n):
        for j in range(i):
            A[i][j] = A[j][i]
    return A

def int_sym_exact(rng, n, dvals):
    """integer symmetric matrix M D M with M = (u.u) I - 2 u u^T (M M = (u.u)^2 I): spectrum (u.u)^2 * dvals exactly"""
    u = [rng.randint(-2, 2) for _ in range(n)]
    if not any(u):
        u[0] = 1
    uu = sum(x * x for x in u)
    M = [[(uu if i == j else 0) - 2 * u[i] * u[j] for j in range(n)] for i in range(n)]
    D = [[dvals[i] if i == j else 0 for j in range(n)] for i in range(n)]
    A = matmul(matmul(M, D), M)
    return [[float(x) for x in r] for r in A]

def spectrum(rng, n, kind):
    if kind == "distinct":
        return sorted(rng.uniform(-1, 1) for _ in range(n))
    if kind == "positive":
        return sorted(rng.uniform(0.1, 1) for _ in range(n))
    if kind == "repeated":
        base = [rng.uniform(-1, 1) for _ in range(max(1, n // 2))]
        return sorted(rng.choice(base) for _ in range(n))
    if kind == "clustered":
        c = rng.choice([1.0, -1.0, 0.5, 3.0])
        gap = 10.0 ** (-rng.randint(3, 15))
        return sorted(c * (1 + gap * rng.randint(0, 3)) if rng.random() < 0.75 else rng.uniform(-1, 1) for i in range(n))
    if kind == "rankdef":
        return sorted(0.0 if rng.random() < 0.5 else rng.uniform(-1, 1) for _ in range(n))
    raise ValueError(kind)

def gen_sym(ctx):
    """list of (type, n, matrix rows, tags)"""
    rng = ctx.rng("sym")
    lrng = ctx.rng("sym-l")                   # separate stream: thinning the long double cases does not shift the other cases
    out = []
    per = 6 if ctx.quick else 60
    def add(ty, A, kind, k=0):
        n = len(A)
        if k:
            A = [[math.ldexp(x, k) for x in r] for r in A]
        if ty == "f":
            A = [[tof(x) for x in r] for r in A]
            for i in range(n):
                for j in range(i):
                    A[i][j] = A[j][i]
        if any(math.isinf(x) or math.isnan(x) for r in A for x in r):
            return None
        lo, hi = (1e-150, 1e150) if ty != "f" else (1e-18, 1e18)       # the property's range of magnitudes (squares must not under/overflow)
        if any(x != 0 and not (lo <= abs(x) <= hi) for r in A for x in r):
            return None
        if ty == "l" and (n > 4 or (kind != "corpus" and lrng.random() < 0.5)):
            return None                      # long double: entries are doubles (exact), closed forms n <= 3 and one LAPACK size; thinned
        out.append({"ty": ty, "n": n, "A": A, "kind": kind, "k": k})
        return len(out) - 1
    def scales(ty):
        if ty != "f":
            return [rng.choice([-498, -400, -250, -100, -60, -47, -46, -45, -30, 30, 100, 250, 400, 498]), rng.randint(-498, 498)]
        return [rng.choice([-60, -50, -40, -24, -23, -22, -10, 10, 30, 60]), rng.randint(-60, 60)]
    for ty in ("d", "f", "l"):
        for n in range(1, 7):
            for kind in ("distinct", "positive", "repeated", "clustered", "rankdef"):
                for _ in range(per):
                    A = sym_from_spectrum(rng, spectrum(rng, n, kind))
                    base = add(ty, A, kind)
                    for k in scales(ty)[: (1 if ctx.quick else 2)]:
                        j = add(ty, A, kind + ":scaled", k)
                        if j is not None and base is not None:
                            out[j]["base"] = base
            # exactly repeated / integer spectra
            for _ in range(per):
                dv = [rng.choice([-2, -1, 0, 1, 2, 3]) for _ in range(n)]
                A = int_sym_exact(rng, n, dv)
                base = add(ty, A, "integer-exact-spectrum")
                for k in scales(ty)[:1]:
                    j = add(ty, A, "integer-exact-spectrum:scaled", k)
                    if j is not None:
                        out[j]["base"] = base
            # diagonal, permuted diagonal, nearly diagonal (off-diagonal around the sqrt(eps) / eps decisions of the 3x3 path)
            for _ in range(per):
                dg = [rng.choice([0.0, 1.0, 2.0, -1.0, 1.01, rng.uniform(-2, 2)]) for _ in range(n)]
                A = [[dg[i] if i == j else 0.0 for j in range(n)] for i in range(n)]
                add(ty, A, "diagonal")
                add(ty, A, "diagonal:scaled", scales(ty)[0])
                if n > 1:
                    off = rng.choice([1e-3, 1e-6, 1.4e-8, 1.5e-8, 1.6e-8, 1e-9, 1e-12, 1e-14, 1e-16, 1e-20, 3e-4, 3.4e-4, 3.5e-4])
                    B = [list(r) for r in A]
                    for i in range(n):
                        for j in range(i + 1, n):
                            if rng.random() < 0.6:
                                B[i][j] = B[j][i] = off * rng.choice([1, -1, 0.5])
                    base = add(ty, B, "nearly-diagonal")
                    j = add(ty, B, "nearly-diagonal:scaled", scales(ty)[0])
                    if j is not None:
                        out[j]["base"] = base
        # 2x2: near multiples of the identity, deviation around the absolute threshold and relative to c
        for _ in range(per * 6):
            c = rng.choice([0.0, 1.0, -1.0, 2.0, 1e-3, 1e3, 1e-12])
            delta = rng.choice([1e-3, 1e-6, 1e-9, 1e-12, 3e-14, 1e-14, 0.9e-14, 0.5e-14, 0.4e-14, 1e-15, 1e-17, 1e-20])
            b = rng.choice([[[1, 1], [1, -1]], [[2, 1], [1, 2]], [[1, 0], [0, -1]], [[0, 1], [1, 0]], [[1, 2], [2, 1]], [[1, 1e-3], [1e-3, 1]]])
            A = [[c * (i == j) + delta * b[i][j] for j in range(2)] for i in range(2)]
            A[1][0] = A[0][1]
            base = add(ty, A, "2x2-near-identity")
            if rng.random() < 0.5:
                j = add(ty, A, "2x2-near-identity:scaled", scales(ty)[0])
                if j is not None:
                    out[j]["base"] = base
    # ---- structured stream: exact structural zeros, decoupled coordinates, all symmetric permutations P A P^T
    # (which row pair eig0/eig1 of the 3x3 closed form must pick depends on WHERE the zeros are)
    import itertools
    def eig2(a, b, c):                     # eigenvalues of [[a,b],[b,c]] (float, only used to place the third diagonal entry)
        p, r = 0.5 * (a + c), math.hypot(0.5 * (a - c), b)
        return p - r, p + r
    def permuted(A):
        n = len(A)
        perms = list(itertools.permutations(range(n))) if n <= 3 else [tuple(range(n))] + [tuple(rng.sample(range(n), n)) for _ in range(3 if ctx.quick else 12)]
        seen = set()
        for pm in perms:
            B = [[A[pm[i]][pm[j]] for j in range(n)] for i in range(n)]
            key = tuple(x for r in B for x in r)
            if key not in seen:
                seen.add(key); yield B
    def add_all(ty, A, kind):
        for B in permuted(A):
            base = add(ty, B, kind)
            for k in scales(ty)[: (1 if ctx.quick else 2)]:
                j = add(ty, B, kind + ":scaled", k)
                if j is not None and base is not None:
                    out[j]["base"] = base
    reps = 1 if ctx.quick else 6
    for ty in ("d", "f", "l"):
        ival = lambda: float(rng.choice([-5, -3, -2, -1, 1, 2, 3, 4, 5]))
        rval = lambda: rng.uniform(0.1, 2) * rng.choice([1, -1])
        for rep in range(reps):
            for val, vk in ((ival, "int"), (rval, "rand")):
                # 3x3: every sparsity pattern of the off-diagonal entries (01, 02, 12)
                for pat in itertools.product([0, 1], repeat=3):
                    o01, o02, o12 = (val() if z else 0.0 for z in pat)
                    diags = [[val(), val(), val()]]
                    if sum(pat) == 1:
                        # one coordinate decouples: its diagonal entry below / at / between / above the spectrum of the 2x2 block
                        i, j = [(0, 1), (0, 2), (1, 2)][pat.index(1)]
                        kdec = 3 - i - j
                        a, c = val(), val()
                        b = o01 + o02 + o12
                        lo, hi = eig2(a, b, c)
                        diags = []
                        for m in (lo - abs(val()) - 1, hi + abs(val()) + 1, 0.5 * (lo + hi), math.floor(lo) - 4.0, math.ceil(hi) + 4.0, a, c):
                            dg = [0.0, 0.0, 0.0]; dg[i] = a; dg[j] = c; dg[kdec] = m
                            diags.append(dg)
                    elif sum(pat) == 0:
                        diags = [[val(), val(), val()], [1.0, 1.0, 2.0], [2.0, 2.0, 2.0]]
                    for dg in diags:
                        A = [[dg[0], o01, o02], [o01, dg[1], o12], [o02, o12, dg[2]]]
                        add_all(ty, A, "struct3:pattern%d%d%d:%s" % (pat + (vk,)))
                # two equal rows/columns; rank one / rank two
                a, b, c = val(), val(), val()
                add_all(ty, [[a, a, b], [a, a, b], [b, b, c]], "struct3:equal-rows:" + vk)
                u = [ival(), ival(), ival()]; v = [ival(), 0.0, ival()]
                add_all(ty, [[u[i] * u[j] for j in range(3)] for i in range(3)], "struct3:rank1")
                add_all(ty, [[u[i] * u[j] + v[i] * v[j] for j in range(3)] for i in range(3)], "struct3:rank2")
                add_all(ty, [[u[i] * u[j] - v[i] * v[j] for j in range(3)] for i in range(3)], "struct3:rank2-indefinite")
                # 2x2: b = 0, a = d, tiny b
                for A in ([[val(), 0.0], [0.0, val()]], [[a, b], [b, a]], [[a, 0.0], [0.0, a]], [[a, 1e-9 * b], [1e-9 * b, c]],
                          [[a, 1e-18 * b], [1e-18 * b, a]], [[0.0, b], [b, 0.0]], [[a, b], [b, 0.0]]):
                    add_all(ty, A, "struct2:" + vk)
                # n = 4..6 (LAPACK path): block diagonal 2+2, 1+3, 2+3, 3+3, 1+2+3, arrow, tridiagonal; random symmetric permutations
                def blockdiag(sizes):
                    n = sum(sizes); A = [[0.0] * n for _ in range(n)]; o = 0
                    for sz in sizes:
                        for i in range(sz):
                            for j in range(i, sz):
                                A[o + i][o + j] = A[o + j][o + i] = val()
                        o += sz
                    return A
                for sizes in ((2, 2), (1, 3), (3, 1), (2, 3), (1, 4), (3, 3), (1, 2, 3), (2, 2, 2), (1, 1, 2)):
                    add_all(ty, blockdiag(sizes), "structN:block%s:%s" % ("+".join(map(str, sizes)), vk))
                for n in (4, 5, 6):
                    arrow = [[(val() if (i == j or i == 0 or j == 0) else 0.0) for j in range(n)] for i in range(n)]
                    tri = [[(val() if abs(i - j) <= 1 else 0.0) for j in range(n)] for i in range(n)]
                    for A in (arrow, tri):
                        for i in range(n):
                            for j in range(i):
                                A[i][j] = A[j][i]
                        add_all(ty, A, "structN:arrow/tridiagonal:" + vk)
    # corpus: the DESIGN section 5 witnesses and the pinned tests' matrices
    for ty in ("d", "f", "l"):
        for A in ([[2e-20, 1e-20], [1e-20, 2e-20]], [[2.0, 1.0], [1.0, 2.0]], [[1.0, 0.0], [0.0, 1.0]], [[0.0, 1.0], [1.0, 0.0]],
                  [[1.0, 0.0], [0.0, 0.0]], [[0.0, 0.0], [0.0, 1.0]], [[1.01, 0.0], [0.0, 1.0]], [[0.0, 0.0], [0.0, 0.0]],
                  [[1.0, 1e-9], [1e-9, 1.0]],
                  [[1.0, 0, 2.0], [0, -5.0, 0], [2.0, 0, 3.0]], [[3.0, 0, 2.0], [0, 9.0, 0], [2.0, 0, 1.0]],
                  [[1.0, 0, 0], [0, 1.0, 0], [0, 0, 1.0]], [[0, 1.0, 0], [1.0, 0, 0], [0, 0, 5.0]], [[3.0, -2.0, 0], [-2.0, 3.0, 0], [0, 0, 5.0]],
                  [[0, 0, 0], [0, 1.0, 1.0], [0, 1.0, 1.0]], [[0, 0, 0], [0, 1.0, 0], [0, 0, 0]], [[3.0, 0, 0], [0, 2.0, 0], [0, 0, 4.0]],
                  [[0.0] * 3] * 3):
            add(ty, [[float(x) for x in r] for r in A], "corpus")
    return out

def load_corpus():
    """corpus/C08/cases.txt -> (sym case dicts, nonsym case dicts)"""
    sc, nc = [], []
    cp = os.path.join(V.VERIF, "corpus", "C08", "cases.txt")
    if not os.path.exists(cp):
        return sc, nc
    for l in open(cp):
        t = l.split()
        if not t or t[0].startswith("#"):
            continue
        try:
            n = int(t[2])
            A = [[h2x(t[3 + i * n + j]) for j in range(n)] for i in range(n)]
        except (ValueError, IndexError, struct.error):
            continue
        if t[0] == "sym" and t[1] in ("d", "f"):
            sc.append({"ty": t[1], "n": n, "A": A, "kind": "corpus-file", "k": 0})
        elif t[0] == "nonsym":
            nc.append({"routine": t[1], "n": n, "A": A, "spec": [], "k": 0})
    return sc, nc

def sym_case_line(c):
    h = f2h if c["ty"] == "f" else d2h
    return "sym %s %d %s" % (c["ty"], c["n"], " ".join(h(x) for r in c["A"] for x in r))


def gen_ev2(ctx, thr, symcases, ty="d"):
    """bit-exact 2x2 stream for double (op ev2) or float (op ev2f): case lines"""
    rng = ctx.rng("ev2", ty)
    if ty == "d":
        op, h, cv = "ev2", d2h, (lambda x: x)
        tq, ti = d2h(thr["thrq"]), d2h(thr["thrid"])
        kmax, eps = 510, 2.0 ** -52
    else:
        op, h, cv = "ev2f", f2h, tof
        # a binary32 value q satisfies q > -t (t the double literal) iff q > -roundup32(t); n <= t iff n <= rounddown32(t)
        tq = f2h(f32_round(thr["thrq"], True))
        ti = f2h(2.0 ** -23 if thr["rel"] else f32_round(thr["thrid"], False))
        kmax, eps = 70, 2.0 ** -23
    lines = []
    def add(a, b, c, d):
        lines.append("%s %s %s %s %s %s %s %s" % (op, tq, ti, thr["flags"], h(cv(a)), h(cv(b)), h(cv(c)), h(cv(d))))
    for c in symcases:
        if c["ty"] == ty and c["n"] == 2:
            A = c["A"]; add(A[0][0], A[0][1], A[1][0], A[1][1])
    tid = thr["thrid"] if not (ty == "f" and thr["rel"]) else 2.0 ** -23
    alpha = [0.0, -0.0, 1.0, -1.0, 2.0, 0.5, 3.0, 1e-14, 0.5e-14, 2e-14, 1e-7, 1e-20, 1.0 + eps, 1.0 - eps / 2]
    alpha += [1e150, 1e-150, 5e-324, 2.2250738585072014e-308] if ty == "d" else [1e18, 1e-18, 1e-45, 1.1754943508222875e-38, 1e-9]
    import itertools
    small = [0.0, 1.0, -1.0, 2.0, 1e-14, 0.5e-14, 1e-20, 1.0 + eps]
    for a, b, d in itertools.product(small, repeat=3):
        add(a, b, b, d)
    N = (400 if ty == "d" else 300) if ctx.quick else 6000
    for _ in range(N):
        z = rng.random()
        pick = lambda: rng.choice(alpha) if rng.random() < 0.6 else rng.uniform(-2, 2)
        if z < 0.45:
            a, b, d = pick(), pick(), pick(); c = b
        elif z < 0.6:
            # multiples of the identity plus a perturbation around the threshold of the identity special case
            cc = rng.choice([0.0, 1.0, -3.0, 1e-13]); t = tid * rng.choice([0.25, 0.5, 0.999, 1.0, 1.001, 2.0, 4.0])
            a, b, d = cc + t * rng.choice([0, 0.5, 1]), t * rng.choice([0, 0.5, 1, -1]), cc - t * rng.choice([0, 0.5, 1]); c = b
        elif z < 0.75:
            # non-symmetric with discriminant around 0 and around -thrq (clamp, MathError)
            p2 = rng.choice([0.0, 1e-7, 1e-8, 1.0]); t = thr["thrq"] * rng.choice([0.5, 0.999, 1.0, 1.001, 2.0]) + p2 * p2
            a = 1.0 + p2; d = 1.0 - p2; b = math.sqrt(t) * rng.choice([1, -1]); c = -b
        elif z < 0.9:
            k = rng.randint(-kmax, kmax)
            a, b, d = (math.ldexp(rng.choice([1.0, 2.0, 3.0, rng.uniform(-2, 2)]), k) for _ in range(3)); c = b
        else:
            a, b, c, d = pick(), pick(), pick(), pick()
        add(a, b, c, d)
    for x in (float("inf"), float("nan"), 1.7976931348623157e308 if ty == "d" else 3.4028234663852886e38, 1e200 if ty == "d" else 1e30):
        add(x, 1.0, 1.0, 2.0); add(1.0, x, x, 1.0); add(x, x, x, x)
    return lines


def eig3_float(A):
    """rough eigenvalues of a symmetric 3x3 (floats; only used to aim kernel inputs at realistic values)"""
    q = (A[0][0] + A[1][1] + A[2][2]) / 3.0
    p1 = A[0][1] ** 2 + A[0][2] ** 2 + A[1][2] ** 2
    p2 = sum((A[i][i] - q) ** 2 for i in range(3)) + 2 * p1
    if p2 <= 0:
        return [q, q, q]
    p = math.sqrt(p2 / 6.0)
    B = [[(A[i][j] - (q if i == j else 0.0)) / p for j in range(3)] for i in range(3)]
    det = (B[0][0] * (B[1][1] * B[2][2] - B[1][2] * B[2][1]) - B[0][1] * (B[1][0] * B[2][2] - B[1][2] * B[2][0])
           + B[0][2] * (B[1][0] * B[2][1] - B[1][1] * B[2][0]))
    r = max(-1.0, min(1.0, det / 2.0))
    phi = math.acos(r) / 3.0
    e2 = q + 2 * p * math.cos(phi); e0 = q + 2 * p * math.cos(phi + 2 * math.pi / 3)
    return sorted([e0, 3 * q - e0 - e2, e2])

def gen_k3(ctx, symcases):
    """bit-exact stream for the 3x3 eigenvector kernels Impl::eig0 / orthoComp / eig1 (binary64), aimed at their case splits:
    which row pair has the largest cross product (all symmetric permutations of structured matrices), |e0| vs |e1| in
    orthoComp (axis-aligned vectors, ties), the four branches and the M = 0 exit of eig1"""
    rng = ctx.rng("k3")
    lines = []
    mats = [c["A"] for c in symcases if c["ty"] == "d" and c["n"] == 3 and c["k"] == 0]
    rng.shuffle(mats)
    mats = mats[: (120 if ctx.quick else 1500)]
    hx9 = lambda A: " ".join(d2h(x) for r in A for x in r)
    def unit(v):
        n = math.sqrt(sum(x * x for x in v)) or 1.0
        return [x / n for x in v]
    s2 = math.sqrt(0.5)
    vecs = [[1.0, 0.0, 0.0], [0.0, 1.0, 0.0], [0.0, 0.0, 1.0], [-1.0, 0.0, 0.0], [0.0, -1.0, 0.0], [s2, s2, 0.0], [s2, -s2, 0.0],
            [s2, 0.0, s2], [0.0, s2, s2], [0.6, 0.8, 0.0], [0.8, 0.6, 0.0], [0.0, 0.0, 0.0], [1e-200, 0.0, 1.0], [1.0, 1e-170, 0.0],
            [2.0, 0.0, 0.0], [float("inf"), 0.0, 0.0], [float("nan"), 1.0, 0.0]]
    for v in vecs:
        lines.append("k3 ortho %s" % " ".join(d2h(x) for x in v))
    for _ in range(60 if ctx.quick else 800):
        v = unit([rng.choice([0.0, 1.0, -1.0, rng.gauss(0, 1), 1e-9 * rng.gauss(0, 1)]) for _ in range(3)])
        lines.append("k3 ortho %s" % " ".join(d2h(x) for x in v))
    for A in mats:
        ev = eig3_float(A)
        cands = ev + [A[0][0], A[1][1], A[2][2], rng.uniform(-3, 3)]
        for l in (cands if not ctx.quick else [ev[0], ev[2], rng.choice(cands)]):
            lines.append("k3 eig0 %s %s" % (hx9(A), d2h(l)))
        # eig1: evec0 = (approximate) eigenvector for an extreme eigenvalue by the largest cross product, or an axis / random unit vector
        for l0, l1 in ((ev[2], ev[1]), (ev[0], ev[1])):
            rows = [[A[i][j] - (l0 if i == j else 0.0) for j in range(3)] for i in range(3)]
            cr = lambda a, b: [a[1] * b[2] - a[2] * b[1], a[2] * b[0] - a[0] * b[2], a[0] * b[1] - a[1] * b[0]]
            best = max((cr(rows[0], rows[1]), cr(rows[0], rows[2]), cr(rows[1], rows[2])), key=lambda v: sum(x * x for x in v))
            for e in (unit(best), rng.choice(vecs[:11])):
                lines.append("k3 eig1 %s %s %s" % (hx9(A), " ".join(d2h(x) for x in e), d2h(l1)))
    # multiples of the identity: M = 0 exit of eig1
    for c in (1.0, -2.5, 0.0):
        A = [[c if i == j else 0.0 for j in range(3)] for i in range(3)]
        for e in vecs[:6]:
            lines.append("k3 eig1 %s %s %s" % (hx9(A), " ".join(d2h(x) for x in e), d2h(c)))
    return lines


def gen_ho(ctx):
    rng = ctx.rng("ho")
    lines = []
    for ty in "dfl":
        for info in (0, 2, -1):
            for routine, ns in (("lvecs", range(1, 7)), ("lvals", range(1, 7)), ("vals", range(4, 7)), ("vecs", range(4, 7)),
                                ("fmnonsym", range(1, 7)), ("dyn0", range(1, 8)), ("dyn1", range(1, 8))):
                if routine.startswith("dyn") and ty == "f" and False:
                    continue
                for n in ns:
                    reps = 1 if (ctx.quick and info != 0) else 2
                    for rep in range(reps):
                        e = [10 * i + j + 11 for i in range(n) for j in range(n)] if rep == 0 else [rng.randint(-99, 99) for _ in range(n * n)]
                        lines.append("ho %s %s %d %d %s" % (routine, ty, n, info, " ".join(map(str, e))))
    return lines


def unimodular(rng, n):
    Sm = [[1 if i == j else 0 for j in range(n)] for i in range(n)]
    Si = [[1 if i == j else 0 for j in range(n)] for i in range(n)]
    for _ in range(n + 1):
        i, j = rng.randrange(n), rng.randrange(n)
        if i == j:
            continue
        c = rng.choice([-1, 1, 1, 2])
        E = [[1 if a == b else 0 for b in range(n)] for a in range(n)]; E[i][j] = c
        Ei = [[1 if a == b else 0 for b in range(n)] for a in range(n)]; Ei[i][j] = -c
        Sm = matmul(Sm, E); Si = matmul(Ei, Si)
    return Sm, Si

def gen_nonsym(ctx):
    rng = ctx.rng("nonsym")
    out = []
    per = 5 if ctx.quick else 50
    def add(kind, A, spec, k=0):
        n = len(A)
        Af = [[math.ldexp(float(x), k) for x in r] for r in A]
        out.append({"routine": kind, "n": n, "A": Af, "spec": [(math.ldexp(float(re), k), math.ldexp(float(im), k)) for re, im in spec], "k": k})
    add("dyn1", [[1, 2], [0, 3]], [(1, 0), (3, 0)])                     # F-C08-2 witness
    add("dyn1", [[0, -1], [1, 0]], [(0, 1), (0, -1)])                   # rotation
    add("dyn1", [[2, -3], [3, 2]], [(2, 3), (2, -3)])
    for n in range(1, 7):
        for _ in range(per):
            D = [[0] * n for _ in range(n)]
            spec = []
            i = 0
            while i < n:
                if i + 1 < n and rng.random() < 0.25:
                    a, b = rng.randint(-3, 3), rng.randint(1, 3)
                    D[i][i] = a; D[i + 1][i + 1] = a; D[i][i + 1] = -b; D[i + 1][i] = b
                    spec += [(a, b), (a, -b)]; i += 2
                else:
                    a = rng.randint(-4, 4); D[i][i] = a; spec.append((a, 0)); i += 1
            Sm, Si = unimodular(rng, n)
            A = matmul(matmul(Sm, D), Si)
            k = 0 if rng.random() < 0.5 else rng.choice([-300, -100, -20, 20, 100, 300])
            for kind in ("dyn1", "dyn0", "fm", "dynl1"):
                add(kind, A, spec, k)
            if k == 0:                                   # float variants: integer entries are exact in binary32
                for kind in ("dynf1", "dynf0", "fmf"):
                    add(kind, A, spec, 0)
            # symmetric input through the non-symmetric routine
            if rng.random() < 0.3:
                Bm = matmul(Sm, transpose(Sm))
                add("dyn1", Bm, [], 0)
    # larger sizes (DynamicMatrix only: no template instantiation needed), the same output objects re-used across sizes
    for n in (7, 9, 12, 3, 10, 1, 8):
        for _ in range(1 if ctx.quick else 8):
            D = [[0] * n for _ in range(n)]
            spec = []
            for i in range(n):
                a = rng.randint(-6, 6); D[i][i] = a; spec.append((a, 0))
            Sm, Si = unimodular(rng, n)
            A = matmul(matmul(Sm, D), Si)
            add(rng.choice(["dyn1", "dyn0"]), A, spec, 0)
            add("dyn1", A, spec, rng.choice([0, -40, 40]))
    return out

def nonsym_case_line(c):
    h = f2h if c["routine"] in ("dynf0", "dynf1", "fmf") else d2h
    return "nonsym %s %d %s" % (c["routine"], c["n"], " ".join(h(x) for r in c["A"] for x in r))


# ------------------------------------------------------------------------------------------------ oracles
def tolerances(ty, n, closed, lapack=False):
    """eps of the arithmetic that produced the numbers: K, except that LAPACK runs in double for K = long double"""
    eps = {"d": Fraction(1, 2 ** 52), "f": Fraction(1, 2 ** 23), "l": Fraction(1, 2 ** 52) if lapack else Fraction(1, 2 ** 63)}[ty]
    if n == 3 and closed:
        se = Fraction(math.isqrt(int(eps * 2 ** 120)), 2 ** 60)
        tau = 8 * se
        return {"res": tau, "trace": tau, "orth": tau, "unit": 64 * 3 * eps, "agree": tau, "gap": tau, "name": "8*sqrt(eps)"}
    tau = 64 * n * eps
    return {"res": tau, "trace": tau, "orth": tau, "unit": tau, "agree": tau, "gap": tau, "name": "64*n*eps"}

def parse_sym_out(line, n):
    """-> dict section -> ("EXC", name) | (w list, V rows or None) ; plus 'input' flag"""
    res = {}
    for part in line.split(" | "):
        tk = part.split()
        if not tk:
            continue
        if tk[0] in ("input-unchanged", "INPUT-MODIFIED"):
            res["input"] = tk[0]; continue
        if tk[0] == "alias":
            res["alias"] = " ".join(tk[1:]); continue
        name = tk[0]
        if len(tk) > 1 and tk[1] == "EXC":
            res[name] = ("EXC", " ".join(tk[2:])); continue
        try:
            vals = [h2x(x) for x in tk[1:]]
        except (ValueError, struct.error):
            res[name] = ("BAD", part[:120]); continue
        if len(vals) == n:
            res[name] = (vals, None)
        elif len(vals) == n + n * n:
            res[name] = (vals[:n], [vals[n + i * n: n + (i + 1) * n] for i in range(n)])
        else:
            res[name] = ("BAD", part)
    return res

def ratio(a, b):
    """float(a / b) for (big) integers"""
    try:
        return float(Fraction(a, b)) if b else float("inf")
    except OverflowError:
        return float("inf")

def norm_inf_I(AI):
    return max(sum(abs(x) for x in r) for r in AI)

def check_decomp(ty, n, A, w, Vv, closed, want_vecs, lapack=False):
    """the property applied to one (eigenvalues, eigenvectors) output.  Returns list of (what, detail)."""
    bad = []
    if any(isbad(x) for x in w) or (Vv and any(isbad(x) for r in Vv for x in r)):
        return [("nonfinite", "NaN/inf in the output")]
    tol = tolerances(ty, n, closed, lapack)
    AI = [[I(x) for x in r] for r in A]
    nA = norm_inf_I(AI)
    wI = [I(x) for x in w]
    for i in range(n - 1):
        if wI[i] > wI[i + 1]:
            bad.append(("ascending", "w[%d]=%r > w[%d]=%r" % (i, w[i], i + 1, w[i + 1])))
            break
    tr = sum(AI[i][i] for i in range(n))
    if abs(sum(wI) - tr) * tol["trace"].denominator > tol["trace"].numerator * nA:
        bad.append(("trace", "|sum(w) - trace| = %.3g ||A||, tolerance %s" % (ratio(abs(sum(wI) - tr), nA), tol["name"])))
    if Vv is not None and want_vecs:
        VI = [[I(x) for x in r] for r in Vv]
        worst = 0
        for i in range(n):
            for r in range(n):
                res = sum(AI[r][k] * VI[i][k] for k in range(n)) - wI[i] * VI[i][r]          # scale S^2
                worst = max(worst, abs(res))
        if worst * tol["res"].denominator > tol["res"].numerator * nA * S:
            bad.append(("residual", "max |A v - w v| = %.3g ||A||, tolerance %s" % (ratio(worst, S * nA), tol["name"])))
        for i in range(n):
            uu = sum(x * x for x in VI[i])
            if abs(uu - S * S) * tol["unit"].denominator > tol["unit"].numerator * S * S:
                bad.append(("unit", "|v%d . v%d - 1| = %.3g" % (i, i, ratio(abs(uu - S * S), S * S)))); break
        done = False
        for i in range(n):
            for j in range(i + 1, n):
                gapI = abs(wI[i] - wI[j])
                wellposed = gapI == 0 or gapI * tol["gap"].denominator > tol["gap"].numerator * nA
                if not wellposed:
                    continue
                dt = abs(sum(x * y for x, y in zip(VI[i], VI[j])))
                if dt * tol["orth"].denominator > tol["orth"].numerator * S * S:
                    bad.append(("orth", "|v%d . v%d| = %.3g, eigenvalue gap %.3g ||A||, tolerance %s" % (i, j, ratio(dt, S * S), ratio(gapI, nA) if nA else 0, tol["name"])))
                    done = True; break
            if done:
                break
    return bad

def oracle_sym(c, line):
    """-> list of (signature, detail)"""
    n, ty, A = c["n"], c["ty"], c["A"]
    out = []
    secs = parse_sym_out(line, n)
    if line.startswith(("CRASH", "HANG", "NOT-RUN", "BAD")):
        return [("C08:sym:crash", line)], secs
    if secs.get("input") != "input-unchanged":
        out.append(("C08:sym:input-modified", line[-40:]))
    if "alias" in secs and "DIFF" in secs["alias"]:
        out.append(("C08:sym:alias:n=%d" % n, "eigenvector matrix aliasing the input matrix gives a different result than separate objects: %s" % secs["alias"]))
    elif "alias" not in secs and "lvecs" in secs:
        out.append(("C08:sym:alias:n=%d:missing" % n, "alias section missing"))
    for name in ("vals", "vecs", "lvals", "lvecs"):
        if name not in secs:
            out.append(("C08:sym:%s:n=%d:missing" % (name, n), "section missing")); continue
        s = secs[name]
        if s[0] in ("EXC", "BAD"):
            out.append(("C08:sym:%s:n=%d:exception" % (name, n), "%s %s" % s)); continue
        w, Vv = s
        closed = name in ("vals", "vecs") and n <= 3
        for what, detail in check_decomp(ty, n, A, w, Vv, closed, name in ("vecs", "lvecs"), lapack=not closed):
            sig = "C08:sym:%s:n=%d:%s" % (name, n, what)
            if n == 2 and closed and Vv == [[1.0, 0.0], [0.0, 1.0]] and what in ("residual", "orth", "unit"):
                sig += ":identity-branch"
            elif n == 2 and closed and Vv and what == "orth" and (Vv[0] == Vv[1] or Vv[0] == [-x for x in Vv[1]]):
                sig += ":duplicate"              # the same vector returned twice (eigenvalues coincide in floating point)
            out.append((sig, detail))
    # entry points agree
    for a, b in (("vals", "vecs"), ("lvals", "lvecs"), ("vecs", "lvecs")):
        sa, sb = secs.get(a), secs.get(b)
        if sa and sb and sa[0] not in ("EXC", "BAD") and sb[0] not in ("EXC", "BAD"):
            if any(isbad(x) for x in sa[0] + sb[0]):
                continue
            closed = n == 3
            tol = tolerances(ty, n, closed, lapack=(n > 3 or a.startswith("l") or b.startswith("l")))
            nA = norm_inf_I([[I(x) for x in r] for r in A])
            dmax = max(abs(I(x) - I(y)) for x, y in zip(sa[0], sb[0]))
            if dmax * tol["agree"].denominator > tol["agree"].numerator * nA:
                out.append(("C08:sym:agree:%s/%s:n=%d" % (a, b, n), "eigenvalues differ by %.3g ||A||" % ratio(dmax, nA)))
    return out, secs

def oracle_scaling(c, secs, cb, secsb):
    """eigenvalues of 2^k A are 2^k times those of A, within the stated tolerance"""
    out = []
    n, ty, k = c["n"], c["ty"], c["k"]
    # the scaled matrix may have been rounded (float32 subnormals): only compare when it is the exact multiple
    if any(math.ldexp(x, k) != y for r, rb in zip(cb["A"], c["A"]) for x, y in zip(r, rb)):
        return out
    nA = norm_inf_I([[I(x) for x in r] for r in c["A"]])
    for name in ("vals", "vecs", "lvals", "lvecs"):
        sa, sb = secs.get(name), secsb.get(name)
        if not sa or not sb or sa[0] in ("EXC", "BAD") or sb[0] in ("EXC", "BAD"):
            continue
        if any(isbad(x) for x in sa[0] + sb[0]):
            continue
        tol = tolerances(ty, n, name in ("vals", "vecs") and n <= 3, lapack=not (name in ("vals", "vecs") and n <= 3))
        try:
            dmax = max(abs(I(x) - I(ldexp_any(y, k))) for x, y in zip(sa[0], sb[0]))
        except (OverflowError, ValueError):
            continue
        if dmax * tol["agree"].denominator > 2 * tol["agree"].numerator * nA:
            out.append(("C08:sym:%s:n=%d:scaling" % (name, n), "eigenvalues of 2^%d A differ from 2^%d eig(A) by %.3g ||A||" % (k, k, ratio(dmax, nA))))
    return out

def charpoly(A):
    """Faddeev-LeVerrier over exact rationals: coefficients c[0..n] of det(l I - A) = sum c[k] l^k"""
    n = len(A)
    Af = [[Fraction(x) for x in r] for r in A]
    M = [[Fraction(0)] * n for _ in range(n)]
    c = [Fraction(0)] * (n + 1); c[n] = Fraction(1)
    for k in range(1, n + 1):
        # M_k = A M_{k-1} + c_{n-k+1} I
        AM = [[sum(Af[i][t] * M[t][j] for t in range(n)) for j in range(n)] for i in range(n)]
        M = [[AM[i][j] + (c[n - k + 1] if i == j else 0) for j in range(n)] for i in range(n)]
        AMk = [[sum(Af[i][t] * M[t][j] for t in range(n)) for j in range(n)] for i in range(n)]
        c[n - k] = -sum(AMk[i][i] for i in range(n)) / k
    return c

def oracle_nonsym(c, line):
    out = []
    n, A = c["n"], c["A"]
    if line.startswith(("EXC", "CRASH", "HANG", "NOT-RUN", "BAD")):
        return [("C08:nonsym:%s:exception" % c["routine"], line)]
    parts = line.split(" | ")
    if parts[-1] in ("reuse-ok", "REUSE-DIFF"):
        if parts[-1] == "REUSE-DIFF":
            out.append(("C08:nonsym:%s:reuse" % c["routine"], "re-using the output objects of a previous call (other size, stale contents) changes the result"))
        parts = parts[:-1]
    elif c["routine"].startswith("dyn"):
        out.append(("C08:nonsym:%s:reuse:missing" % c["routine"], "reuse verdict missing"))
    flt = c["routine"] in ("dynf0", "dynf1", "fmf")
    eps_val = Fraction(1, 2 ** 23) if c["routine"] == "fmf" else Fraction(1, 2 ** 52)          # sgeev; dyn* always calls dgeev
    eps_vec = Fraction(1, 2 ** 23) if flt else Fraction(1, 2 ** 52)                             # DynamicVector<float> stores rounded vectors
    tol_cp = Fraction(1, 10 ** 3) if c["routine"] == "fmf" else Fraction(1, 10 ** 9)
    try:
        ev = [h2x(x) for x in parts[0].split()[1:]]
        vv_all = [h2x(x) for x in parts[1].split()[1:]] if len(parts) > 1 else None
    except (ValueError, struct.error):
        return [("C08:nonsym:%s:malformed" % c["routine"], line[:200])]
    if len(ev) != 2 * n or any(isbad(x) for x in ev):
        return [("C08:nonsym:%s:malformed" % c["routine"], line[:200])]
    lam = [(ev[2 * i], ev[2 * i + 1]) for i in range(n)]
    nA = max(sum(abs(x) for x in r) for r in A) or 1.0
    # spectrum: roots of the characteristic polynomial (exact coefficients), relative tolerance 1e-9
    cp = charpoly(A)
    for (re, im) in lam:
        zr, zi = Fraction(re), Fraction(im)
        pr, pi_, mag = Fraction(0), Fraction(0), Fraction(0)
        # Horner in exact complex rationals
        for k in range(n, -1, -1):
            pr, pi_ = pr * zr - pi_ * zi + cp[k], pr * zi + pi_ * zr
        az = max(Fraction(abs(re) + abs(im)), Fraction(nA))        # scale: max(|lambda|, ||A||): a zero eigenvalue is judged relative to ||A||
        for k in range(n + 1):
            mag += abs(cp[k]) * az ** k
        if abs(pr) + abs(pi_) > tol_cp * mag:
            out.append(("C08:nonsym:%s:spectrum" % c["routine"], "lambda=%r%+rj: |p(lambda)| = %.3g * sum|c_k| max(|lambda|,||A||)^k (tolerance %s)" % (re, im, float((abs(pr) + abs(pi_)) / mag) if mag else 0, "1e-3" if c["routine"] == "fmf" else "1e-9")))
            break
    tr = sum(Fraction(A[i][i]) for i in range(n))
    if abs(sum(Fraction(l[0]) for l in lam) - tr) > 64 * n * eps_val * Fraction(nA) * 16 or abs(sum(Fraction(l[1]) for l in lam)) > 64 * n * eps_val * Fraction(nA) * 16:
        out.append(("C08:nonsym:%s:trace" % c["routine"], "sum of eigenvalues differs from the trace"))
    if len(parts) > 1:
        vv = vv_all
        if len(vv) != n * n or any(isbad(x) for x in vv):
            return out + [("C08:nonsym:dyn1:malformed", line[:200])]
        Vv = [vv[i * n:(i + 1) * n] for i in range(n)]
        AF = [[Fraction(x) for x in r] for r in A]
        tol = 64 * n * 16 * eps_vec * Fraction(nA)
        def resid(i, left):
            re, im = lam[i]
            if im == 0:
                x = [Fraction(t) for t in Vv[i]]; y = [Fraction(0)] * n
            elif im > 0 and i + 1 < n:
                x = [Fraction(t) for t in Vv[i]]; y = [Fraction(t) for t in Vv[i + 1]]
            elif i > 0:
                x = [Fraction(t) for t in Vv[i - 1]]; y = [-Fraction(t) for t in Vv[i]]
            else:
                return None
            a, b = Fraction(re), Fraction(im)
            M = transpose(AF) if left else AF
            Ax = [sum(M[r][k] * x[k] for k in range(n)) for r in range(n)]
            Ay = [sum(M[r][k] * y[k] for k in range(n)) for r in range(n)]
            # A (x + i y) = (a + i b)(x + i y)
            r1 = max(abs(Ax[r] - (a * x[r] - b * y[r])) for r in range(n))
            r2 = max(abs(Ay[r] - (b * x[r] + a * y[r])) for r in range(n))
            nv = max(max(abs(t) for t in x), max(abs(t) for t in y))
            return max(r1, r2), nv
        for i in range(n):
            rr = resid(i, False)
            if rr is None:
                continue
            r, nv = rr
            if nv == 0:
                out.append(("C08:nonsym:dyn1:zero-vector", "eigenvector %d is zero" % i)); break
            if r > tol * nv:
                ll = resid(i, True)
                isleft = ll is not None and ll[0] <= tol * ll[1]
                out.append(("C08:nonsym:dyn1:right-eigenvector" + (":is-left-eigenvector" if isleft else ""),
                            "lambda=%r%+rj v=%r: |A v - lambda v| = %.3g ||A|| |v|%s" % (lam[i][0], lam[i][1], Vv[i], float(r / (Fraction(nA) * nv)),
                                                                                       "; but v^T A = lambda v^T holds: v is a LEFT eigenvector" if isleft else "")))
                break
    return out

def oracle_ho(case, line):
    """spec for the hand-over applied to what the impl did: LAPACK (column-major) must see A, or A^T where that is harmless
    (symmetric routines) / compensated (left vectors read for the non-symmetric routine); output row i = i-th LAPACK vector."""
    t = case.split()
    routine, n, info = t[1], int(t[3]), int(t[4])
    e = [int(x) for x in t[5:]]
    A = [e[i * n:(i + 1) * n] for i in range(n)]
    if " | " not in line:
        return "unparsable: %s" % line[:100]
    call, res = line.split(" | ", 1)
    kv = dict(x.split("=", 1) for x in call.split()[2:] if "=" in x)
    if "a" not in kv:
        return "no LAPACK call recorded"
    a = [int(x) for x in kv["a"].split(",")]
    colA = [A[i][j] for j in range(n) for i in range(n)]          # column-major array of A
    rowA = [A[i][j] for i in range(n) for j in range(n)]          # column-major array of A^T
    if int(kv.get("n", -1)) != n or int(kv.get("lda", -1)) < max(1, n):
        return "n/lda wrong: %s" % call
    sym = routine in ("lvecs", "lvals", "vals", "vecs")
    if info != 0:
        return None if res.startswith("EXC InvalidStateException") else "info=%d not reported as InvalidStateException: %s" % (info, res)
    if sym:
        if a != colA and a != rowA:
            return "array handed to syev is neither A nor A^T"
        if int(kv["lwork"]) < max(1, 3 * n - 1):
            return "lwork too small"
        wantv = routine in ("lvecs", "vecs")
        m = re.match(r"w=([-\d,]+)(?: V=([-\d,;]+))?$", res)
        if not m:
            return "unparsable result %s" % res
        if [int(x) for x in m.group(1).split(",")] != [1000 + i for i in range(n)]:
            return "eigenvalues are not LAPACK's w"
        if wantv:
            if kv["jobz"] != "v":
                return "eigenvectors requested but jobz != 'v'"
            if not m.group(2):
                return "no eigenvectors returned"
            Vv = [[int(x) for x in r.split(",")] for r in m.group(2).split(";")]
            want = [[2000 + (k + i * n) for k in range(n)] for i in range(n)]      # row i = column i of Z = Z[k + i*lda]
            if Vv != want:
                return "row i of eigenVectors is not the i-th column of LAPACK's Z"
        return None
    # non-symmetric
    need = 4 * n if ("jobvl=v" in call or "jobvr=v" in call) else 3 * n
    if int(kv["lwork"]) < max(1, need):
        return "lwork too small"
    m = re.match(r"ev=(\S+)(?: V=([-\d,;]+))?$", res)
    if not m:
        return "unparsable result %s" % res
    if m.group(1) != ",".join("%d+%di" % (1000 + i, 3000 + i) for i in range(n)):
        return "eigenvalues are not LAPACK's (wr, wi)"
    if routine == "dyn1":
        if not m.group(2):
            return "no eigenvectors returned"
        Vv = [[int(x) for x in r.split(",")] for r in m.group(2).split(";")]
        vr = [[5000 + (k + i * n) for k in range(n)] for i in range(n)]
        vl = [[4000 + (k + i * n) for k in range(n)] for i in range(n)]
        if a == colA and Vv == vr and kv["jobvr"] == "v":
            return None
        if a == rowA and Vv == vl and kv["jobvl"] == "v":
            return None                                       # left eigenvectors of A^T = right eigenvectors of A
        if a == rowA and Vv == vr:
            return "geev is handed A^T (row-major array read column-major) and its RIGHT eigenvectors are returned: these are LEFT eigenvectors of A"
        return "eigenvectors do not correspond to the matrix handed to geev"
    if a != colA and a != rowA:
        return "array handed to geev is neither A nor A^T"
    return None


# ------------------------------------------------------------------------------------------------ run
def build(ctx, san_mock=True):
    jobs = [dict(srcs=[H], out=ctx.path("impl"), repo_srcs=REPO_SRCS, opt="-O2", libs=["-llapack", "-lblas"]),
            dict(srcs=[H], out=ctx.path("impl_mock"), repo_srcs=REPO_SRCS, opt="-O1", flags=["-DC08_MOCK"], san=san_mock)]
    return V.cxx_many(ctx, jobs)


def params_hook(ctx):
    """regenerate coq/Params_gen.v from ctx.repo (job characters, workspace formulas, 2x2/3x3 variants: tools/params.d/C08.py)"""
    import sys
    V.sh([sys.executable, os.path.join(V.VERIF, "tools", "extract_params.py"), ctx.repo], check=True)


def run(ctx):
    ctx.params_hook = params_hook
    V.coq_stage(ctx)
    thr, thrsrc = thresholds(ctx)
    ctx.notes.append("2x2 thresholds re-read from %s/dune/common/fmatrixev.hh: %r (%r)" % (ctx.repo, thr, thrsrc))
    model = V.build_model(ctx)
    impl, impl_mock = build(ctx)
    san_env = {"ASAN_OPTIONS": "detect_leaks=0"}

    csym, cnonsym = load_corpus()
    symc = gen_sym(ctx)
    for c in symc:                                   # 'base' indices shift by the corpus prefix
        if c.get("base") is not None:
            c["base"] += len(csym)
    symc = csym + symc
    ev2d = gen_ev2(ctx, thr, symc, "d")
    ev2 = ev2d + gen_ev2(ctx, thr, symc, "f")
    e1 = ["e1 %s" % d2h(c["A"][0][0]) for c in symc if c["ty"] == "d" and c["n"] == 1]
    e1_idx = [i for i, c in enumerate(symc) if c["ty"] == "d" and c["n"] == 1]
    ho = gen_ho(ctx)
    k3 = gen_k3(ctx, symc)
    nonsym = cnonsym + gen_nonsym(ctx)
    ctx.log("generated: sym=%d ev2=%d k3=%d ho=%d nonsym=%d" % (len(symc), len(ev2), len(k3), len(ho), len(nonsym)))

    sym_lines = [sym_case_line(c) for c in symc]
    ns_lines = [nonsym_case_line(c) for c in nonsym]
    mo = V.run_cases(ctx, [model], ev2 + e1 + ho + k3, tag="model", timeout=900)
    io = V.run_cases(ctx, [impl], ev2 + sym_lines + ns_lines + k3, tag="impl", timeout=120 if ctx.quick else 600)
    ko = V.run_cases(ctx, [impl_mock], ho, tag="mock", timeout=120 if ctx.quick else 600, env=san_env)
    m_ev2, m_e1, m_ho = mo[:len(ev2)], mo[len(ev2):len(ev2) + len(e1)], mo[len(ev2) + len(e1):len(ev2) + len(e1) + len(ho)]
    m_k3 = mo[len(ev2) + len(e1) + len(ho):]
    i_ev2, i_sym = io[:len(ev2)], io[len(ev2):len(ev2) + len(symc)]
    i_ns, i_k3 = io[len(ev2) + len(symc):len(ev2) + len(symc) + len(nonsym)], io[len(ev2) + len(symc) + len(nonsym):]

    stats = {"ev2_disagree": 0, "ho_disagree": 0, "sym_rejections": 0, "nonsym_rejections": 0, "ho_oracle_rejections": 0,
             "ev2_identity_branch": 0, "ev2_matherror": 0, "ev2_symmetric": 0}
    nonsym_variant = set()

    # ---- ev2: bit-exact diff; the oracle judges symmetric cases on a disagreement
    for case, a, b in zip(ev2, i_ev2, m_ev2):
        t = case.split()
        symm = t[5] == t[6]
        ty = "d" if t[0] == "ev2" else "f"
        lo, hi = (1e-150, 1e150) if ty == "d" else (1e-18, 1e18)
        stats["ev2_symmetric"] += symm
        if "EXC MathError" in b:
            stats["ev2_matherror"] += 1
        if b.endswith(("3ff0000000000000 0000000000000000 0000000000000000 3ff0000000000000", "3f800000 00000000 00000000 3f800000")):
            stats["ev2_identity_branch"] += 1
        if a != b:
            stats["ev2_disagree"] += 1
            if stats["ev2_disagree"] <= 5:
                verdict = None
                if symm and "DIVBYZERO" not in b:
                    A = [[h2x(t[4]), h2x(t[5])], [h2x(t[6]), h2x(t[7])]]
                    if all(math.isfinite(x) and (x == 0 or lo <= abs(x) <= hi) for r in A for x in r):
                        bad, _ = oracle_sym({"n": 2, "ty": ty, "A": A}, a + " | input-unchanged")
                        bad = [x for x in bad if ":l" not in x[0] and "missing" not in x[0]]
                        verdict = bad or None
                if verdict:
                    ctx.violation(verdict[0][0] + ":bitdiff", {"case": case, "impl": a, "model": b, "oracle": verdict, "replay_cmd": "bin/check C08 --replay <this file>"})
                else:
                    ctx.violation("corr:C08/ev2", {"broken": "corr:C08/ev2 (2x2 %s path no longer bit-identical to the Flocq instance of the model)" % ("double" if ty == "d" else "float"),
                                                   "case": case, "impl": a, "model": b, "oracle": "accepts impl output or not applicable"}, found_input=False)
    # ---- k3: the 3x3 eigenvector kernels, bit-exact
    k3_kinds = {}
    for case, a, b in zip(k3, i_k3, m_k3):
        kern = case.split()[1]
        k3_kinds[kern] = k3_kinds.get(kern, 0) + 1
        if a != b:
            stats["k3_disagree"] = stats.get("k3_disagree", 0) + 1
            if stats["k3_disagree"] <= 4:
                ctx.violation("corr:C08/k3:%s" % kern, {"broken": "corr:C08/k3 (Impl::%s no longer bit-identical to the binary64 instance of the model kernel)" % kern,
                                                       "case": case, "impl": a, "model": b, "replay_cmd": "bin/check C08 --replay <this file>"}, found_input=False)
    stats.setdefault("k3_disagree", 0)
    # ---- n = 1
    for k, idx in enumerate(e1_idx):
        got = " | ".join(i_sym[idx].split(" | ")[:2])
        if got != m_e1[k]:
            ctx.violation("corr:C08/e1", {"broken": "corr:C08/e1", "case": sym_lines[idx], "impl": got, "model": m_e1[k]}, found_input=False)

    # ---- ho: exact diff against the hand-over model (current or repaired non-symmetric call) + spec oracle
    for case, a, b in zip(ho, ko, m_ho):
        routine = case.split()[1]
        reason = oracle_ho(case, a)
        alts = b.split(" || ")
        if a in alts:
            if routine.startswith("dyn") and len(alts) >= 2 and alts[0] != alts[1]:
                nonsym_variant.add("pre-fix" if a == alts[0] else "repaired")
            if routine.startswith("dyn") and len(alts) == 3 and a != alts[2]:
                # the model instantiated with the constants re-read from the source must predict the source's behaviour
                ctx.violation("corr:C08/ho:%s:params" % routine, {"broken": "corr:C08/ho (Params_gen constants do not reproduce the call)", "case": case, "impl": a, "model_from_source_constants": alts[2]}, found_input=False)
        else:
            stats["ho_disagree"] += 1
            if reason is None and stats["ho_disagree"] <= 5:
                ctx.violation("corr:C08/ho:%s" % routine, {"broken": "corr:C08/ho", "case": case, "impl": a, "model": b, "oracle": "accepts impl output"}, found_input=False)
        if reason is not None:
            stats["ho_oracle_rejections"] += 1
            sig = "C08:ho:%s:%s" % (routine, "left-eigenvectors" if "LEFT eigenvectors" in reason else "handover")
            ctx.violation(sig, {"case": case, "impl": a, "model": b, "oracle": reason, "replay_cmd": "bin/check C08 --replay <this file>"})

    # ---- sym: tolerance TESTS
    allsecs = []
    kinds = {}
    for c, line, cl in zip(symc, i_sym, sym_lines):
        bad, secs = oracle_sym(c, line)
        allsecs.append(secs)
        kinds[c["kind"]] = kinds.get(c["kind"], 0) + 1
        if "base" in c and c["base"] is not None:
            bad += oracle_scaling(c, secs, symc[c["base"]], allsecs[c["base"]])
        for sig, detail in bad:
            stats["sym_rejections"] += 1
            ctx.violation(sig, {"case": cl, "kind": c["kind"], "scale_2^k": c["k"], "matrix": c["A"], "impl": line, "oracle": detail,
                                "replay_cmd": "bin/check C08 --replay <this file>"})
    # ---- nonsym: TESTS
    for c, line, cl in zip(nonsym, i_ns, ns_lines):
        for sig, detail in oracle_nonsym(c, line):
            stats["nonsym_rejections"] += 1
            ctx.violation(sig, {"case": cl, "matrix": c["A"], "prescribed_spectrum": c["spec"], "impl": line, "oracle": detail,
                                "replay_cmd": "bin/check C08 --replay <this file>"})

    distinct = len(set(ev2)) + len(set(ho)) + len(set(sym_lines)) + len(set(ns_lines))
    nontriv = len(set(l for l in ev2 if len(set(l.split()[4:])) > 1)) + len(set(ho)) + \
        len(set(l for l, c in zip(sym_lines, symc) if c["n"] > 1 and any(c["A"][i][j] != 0 for i in range(c["n"]) for j in range(c["n"]) if i != j))) + \
        len(set(l for l, c in zip(ns_lines, nonsym) if c["n"] > 1))
    ctx.coverage.update({
        "evaluations": len(ev2) + len(e1) + len(ho) + len(symc) + len(nonsym) + len(k3),
        "distinct_nontrivial": nontriv,
        "rule": "ev2/ev2f: exhaustive symmetric 2x2 over an 8-value alphabet + seeded boundary-directed doubles and floats (threshold neighbourhoods, discriminant near 0/-thr, 2^k scalings, "
                "specials), bit-exact vs the extracted Flocq model; ho: every routine x {double,float,long double} x n x info in {0,2,-1} with recording LAPACK stubs, exact vs the "
                "extracted hand-over model; sym/nonsym: TESTS, matrices with prescribed spectrum (distinct/positive/repeated/clustered/rank deficient/exact integer), diagonal, nearly "
                "diagonal, 2x2 near multiples of the identity, each also scaled by 2^k. non-trivial = 2x2 with at least two different entries / n>1 with a non-zero off-diagonal entry "
                "/ every hand-over case; distinct = distinct case lines (total distinct: %d)" % distinct,
        "samples": [ev2[0], ev2[len(ev2) // 2], ho[0], ho[-1], sym_lines[len(sym_lines) // 3][:160], ns_lines[0]],
        "streams": {"ev2_bit_exact_double": len(ev2d), "ev2_bit_exact_float": len(ev2) - len(ev2d), "e1": len(e1), "handover_exact": len(ho), "k3_kernels_bit_exact": len(k3), "k3_by_kernel": k3_kinds, "sym_TESTS": len(symc), "nonsym_TESTS": len(nonsym)},
        "sym_kinds": kinds, "stats": stats,
        "nonsym_handover_variant_matched": sorted(nonsym_variant),
        "thresholds_from_source": {"values": thr, "source": thrsrc},
        "tolerances": {"n=1,2,LAPACK": "64*n*eps*||A||_inf (residual, trace, orthogonality, unit length, entry-point agreement)",
                       "n=3 closed form": "8*sqrt(eps)*||A||_inf", "nonsym": "|p(lambda)| <= 1e-9 sum|c_k| max(|lambda|,||A||)^k; residual 1024 n eps ||A|| |v|"},
        "traces_validated_against_impl": len(ev2) + len(e1) + len(ho) + len(k3),
        "tests_not_proofs": len(symc) + len(nonsym),
        "exhaustive": False,
    })
    ctx.assumptions += ["binary64 arithmetic of the C++ build = Flocq BinarySingleNaN round-to-nearest-even (x86-64 SSE2, no FMA contraction, correctly rounded sqrt)",
                        "LAPACK ?syev/?geev satisfy their documented contracts on the column-major matrix they are given (hypotheses of the hand-over theorems); tested, not proved",
                        "libm acos/cos (3x3 path) are the real functions in the theorems; the 3x3 path is tied to the code by tolerance TESTS only",
                        "floating-point accuracy (all sizes) is TESTED with the stated tolerances, not proved"]


def replay(ctx, path):
    import json
    rep = json.load(open(path))
    case = rep["case"]
    op = case.split()[0]
    thr, _ = thresholds(ctx)
    impl, impl_mock = build(ctx)
    rc = 0
    print("case  :", case)
    if op == "k3":
        model = V.build_model(ctx)
        a = V.run_cases(ctx, [impl], [case], tag="rimpl", timeout=30)[0]
        b = V.run_cases(ctx, [model], [case], tag="rmodel", timeout=60)[0]
        print("impl  :", a); print("model :", b); rc = 1 if a != b else 0
    elif op in ("ev2", "ev2f"):
        model = V.build_model(ctx)
        a = V.run_cases(ctx, [impl], [case], tag="rimpl", timeout=30)[0]
        b = V.run_cases(ctx, [model], [case], tag="rmodel", timeout=60)[0]
        print("impl  :", a); print("model :", b)
        t = case.split()
        A = [[h2x(t[4]), h2x(t[5])], [h2x(t[6]), h2x(t[7])]]
        if t[5] == t[6]:
            bad, _ = oracle_sym({"n": 2, "ty": "d" if op == "ev2" else "f", "A": A}, a + " | input-unchanged")
            bad = [x for x in bad if ":l" not in x[0] and "missing" not in x[0]]
            print("oracle:", bad or "accepts"); rc = 1 if bad else 0
        if a != b:
            rc = 1
    elif op == "ho":
        model = V.build_model(ctx)
        a = V.run_cases(ctx, [impl_mock], [case], tag="rmock", timeout=30, env={"ASAN_OPTIONS": "detect_leaks=0"})[0]
        b = V.run_cases(ctx, [model], [case], tag="rmodel", timeout=60)[0]
        print("impl  :", a); print("model :", b)
        r = oracle_ho(case, a)
        print("oracle:", r or "accepts"); rc = 1 if r or a not in b.split(" || ") else 0
    elif op == "sym":
        t = case.split()
        n = int(t[2])
        A = [[h2x(t[3 + i * n + j]) for j in range(n)] for i in range(n)]
        a = V.run_cases(ctx, [impl], [case], tag="rimpl", timeout=30)[0]
        print("matrix:", A); print("impl  :", a)
        bad, secs = oracle_sym({"n": n, "ty": t[1], "A": A}, a)
        for name, s in secs.items():
            print("  %-6s %r" % (name, s))
        print("oracle:", bad or "accepts"); rc = 1 if bad else 0
    elif op == "nonsym":
        t = case.split()
        n = int(t[2])
        A = [[h2x(t[3 + i * n + j]) for j in range(n)] for i in range(n)]
        a = V.run_cases(ctx, [impl], [case], tag="rimpl", timeout=30)[0]
        print("matrix:", A); print("impl  :", a)
        bad = oracle_nonsym({"n": n, "A": A, "routine": t[1]}, a)
        print("oracle:", bad or "accepts"); rc = 1 if bad else 0
    return rc
