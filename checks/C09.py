"""C09 — SIMD types are lane-wise transparent, also through the dense-matrix algorithms (DESIGN.md section 4, C09)."""
import os, sys, re, struct, itertools, json
import vcheck as V

META = {
    "level": "proof",
    "technique": "Coq proof (lane commutation of the S-lane LU/solve/invert/determinant over an uninterpreted carrier, all sizes, all lane "
                 "counts, all pivot patterns) + extracted-model vs C++ differential correspondence (bit patterns) with lane-vs-scalar oracle; "
                 "operator table by exhaustive-alphabet correspondence against the C++ scalar operators along the Coq-extracted lane plan",
    "text": "Theorems in coq/Properties_C09.v: every operator family of the list model of LoopSIMD is lane-wise; nested lane index is "
            "div/mod of the flattened index; the S-lane LU (per-lane pivot search with cond, per-lane row swaps, nonsingularLanes mask, "
            "throwEarly) over an uninterpreted carrier returns in lane l exactly the operation tree of the scalar LU on the lane-l matrix "
            "(solve, invert: unless some lane is singular, then FMatrixError; determinant: every lane; the pre-1209091 select-before-product "
            "code kept as a refuted history statement); mv and infinity_norm lane-wise (pre-1037165 HasNaN-not-forwarded code refuted as history); "
            "the literal per-lane swap loops (rows, rhs, column un-permutation) equal the model's gathers; HasNaN/IsNumber/lanes/Scalar/Rebind "
            "are forwarded through LoopSIMD<t,S,A> for every S and alignment A (C09_traits_forward).  Tied to dune/common/simd/loop.hh, interface.hh, "
            "defaults.hh, standard.hh and densematrix.hh on every run (operator table along the extracted lane plan, matrices bit for bit, "
            "valgrind memcheck for dependence on uninitialised lanes).",
    "note": "Trusted: Coq kernel, extraction, OCaml driver (IEEE doubles as carrier), C++ harness, g++ -ffp-contract=off -fwrapv; "
            "libm functions only compared SIMD-vs-scalar in the same binary; Vc / std::experimental::simd backends not built.",
    "design_ref": "DESIGN.md section 4 C09",
}

H = os.path.join(V.VERIF, "harness", "C09")

# ------------------------------------------------------------------------------------------------ values
def dbits(x):
    return "%016x" % struct.unpack("<Q", struct.pack("<d", x))[0]
def fbits(x):
    return "%08x" % struct.unpack("<I", struct.pack("<f", x))[0]
def dval(tok):
    return struct.unpack("<d", struct.pack("<Q", int(tok, 16)))[0]
def fval(tok):
    return struct.unpack("<f", struct.pack("<I", int(tok, 16)))[0]

INF = float("inf")
D_ALPHA = [dbits(x) for x in [0.0, -0.0, 1.0, -1.0, 0.5, 1.5, 2.0, -2.5, 3.0, 10.0, 0.1, 3.141592653589793, 1e16, -1e-300,
                              1.7976931348623157e308, -1.7976931348623157e308, 2.2250738585072014e-308, 5e-324, INF, -INF]] + \
          ["7ff8000000000000", "000fffffffffffff", "3ff0000000000001", "4340000000000000"]
F_ALPHA = [fbits(x) for x in [0.0, -0.0, 1.0, -1.0, 0.5, 1.5, 2.0, -2.5, 3.0, 10.0, 0.1, 3.1415927, 1e10, -1e-30,
                              3.4028234663852886e38, -3.4028234663852886e38, 1.1754943508222875e-38, 1e-45, INF, -INF]] + \
          ["7fc00000", "007fffff", "3f800001", "4b800000"]
I_ALPHA = {
    "int": [0, 1, -1, 2, 3, 7, -8, 31, 32, 255, 65535, 2**31 - 1, -2**31, 2**31 - 2, -2**31 + 1, 0x55555555, 12345, -12345],
    "unsigned": [0, 1, 2, 3, 7, 31, 32, 255, 65535, 2**31 - 1, 2**31, 2**32 - 2, 2**32 - 1, 0x55555555, 0xaaaaaaaa, 12345],
    "long": [0, 1, -1, 2, 3, 7, -8, 63, 64, 2**31 - 1, -2**31, 2**32, 2**63 - 1, -2**63, 2**63 - 2, -2**63 + 1, 0x5555555555555555, -123456789012],
    "short": [0, 1, -1, 2, 3, 7, -8, 15, 16, 255, -256, 32767, -32768, 32766, -32767, 0x5555],
    "char": [0, 1, -1, 2, 3, 7, -8, 8, 64, -64, 127, -128, 126, 97],
    # further integral widths / signedness (index type std::size_t = unsigned long, long long, unsigned short / char, signed char)
    "ulong": [0, 1, 2, 3, 7, 63, 64, 2**32, 2**63, 2**63 - 1, 2**64 - 1, 2**64 - 2, 0x5555555555555555, 12345],
    "llong": [0, 1, -1, 2, 3, 7, -8, 63, 64, 2**32, 2**63 - 1, -2**63, 2**63 - 2, -2**63 + 1, -123456789012],
    "ushort": [0, 1, 2, 3, 15, 16, 255, 256, 32767, 32768, 65535, 65534, 0x5555],
    "uchar": [0, 1, 2, 3, 7, 8, 127, 128, 254, 255, 0x55],
    "schar": [0, 1, -1, 2, 3, 7, -8, 8, 64, -64, 127, -128, 126, 97],
}
C_ALPHA = ["%s,%s" % (dbits(re_), dbits(im_)) for re_, im_ in [(0.0, 0.0), (1.0, 0.0), (0.0, 1.0), (-1.0, 0.0), (0.0, -1.0), (1.0, 1.0), (0.5, -2.5), (2.0, 3.0),
           (INF, 0.0), (0.0, INF), (float("nan"), 0.0), (1.0, float("nan")), (1e308, 1e308), (-0.0, 0.0), (3.0, -4.0), (1e-300, 1e-300)]]
BITS = {"int": 32, "unsigned": 32, "long": 64, "short": 16, "char": 8, "ulong": 64, "llong": 64, "ushort": 16, "uchar": 8, "schar": 8}
MIN = {"int": -2**31, "long": -2**63, "llong": -2**63}
SHIFT_COUNTS = {"int": [0, 1, 2, 7, 16, 31], "unsigned": [0, 1, 2, 7, 16, 31], "long": [0, 1, 2, 31, 32, 63],
                "short": [0, 1, 2, 7, 15], "char": [0, 1, 2, 7], "ulong": [0, 1, 2, 31, 32, 63], "llong": [0, 1, 2, 31, 32, 63],
                "ushort": [0, 1, 2, 7, 15], "uchar": [0, 1, 2, 7], "schar": [0, 1, 2, 7]}

def alpha(T):
    if T in ("double", "adouble"): return D_ALPHA
    if T == "float": return F_ALPHA
    if T == "bool": return ["0", "1"]
    if T == "cdouble": return C_ALPHA
    return [str(x) for x in I_ALPHA[T]]

def canon(T, tok):
    """canonical form of an operand token as the harness would print the same value"""
    if T in ("double", "adouble"):
        v = int(tok, 16); return "nan" if (v & 0x7ff0000000000000) == 0x7ff0000000000000 and (v & 0xfffffffffffff) else "%016x" % v
    if T == "float":
        v = int(tok, 16); return "nan" if (v & 0x7f800000) == 0x7f800000 and (v & 0x7fffff) else "%08x" % v
    if T == "cdouble":
        return ",".join(canon("double", x) for x in tok.split(","))
    return tok

def numeric(T, tok):
    if tok == "nan": return float("nan")
    if T in ("double", "adouble"): return dval(tok)
    if T == "float": return fval(tok)
    return int(tok)

# ------------------------------------------------------------------------------------------------ operator table
# op ids >= 10 are C++ scalar operators (evaluated by the harness in scalar mode); 0..5 structural (see C09_Model.v)
OPS = ["pos", "neg", "bnot", "lnot", "add", "sub", "mul", "div", "mod", "band", "bor", "bxor", "shl", "shr",
       "lt", "gt", "le", "ge", "eq", "ne", "land", "lor", "inc", "dec", "max", "min", "nzmask",
       "cos", "sin", "tan", "acos", "asin", "atan", "cosh", "sinh", "tanh", "acosh", "asinh", "atanh",
       "exp", "log", "log10", "exp2", "expm1", "log1p", "log2", "logb", "sqrt", "cbrt", "erf", "erfc", "tgamma", "lgamma",
       "ceil", "floor", "trunc", "round", "rint", "nearbyint", "fabs", "abs", "ilogb", "lround", "llround", "lrint", "llrint",
       "isnan", "isinf", "isfinite", "real", "imag"]
OPID = {n: i + 10 for i, n in enumerate(OPS)}
OPNAME = {i + 10: n for i, n in enumerate(OPS)}
UNARY_ARITH = ["pos", "neg", "lnot"]
BIN_ARITH = ["add", "sub", "mul", "div"]
BIN_INT = ["mod", "band", "bor", "bxor"]
CMP = ["lt", "gt", "le", "ge", "eq", "ne"]
LOGIC = ["land", "lor"]
MATH = OPS[OPS.index("cos"):OPS.index("isfinite") + 1] + ["real", "imag"]
MATH_NONEST = ["ilogb", "lround", "llround", "lrint", "llrint"]

def valid(T, name, x, y):
    """False where the SCALAR expression is undefined / traps (simd/DESIGN.md Note 4: not required of the simd type either)"""
    if T in I_ALPHA:
        if name in ("div", "mod"):
            if int(y) == 0: return False
            if T in MIN and int(x) == MIN[T] and int(y) == -1: return False
        if name in ("shl", "shr"):
            if not (0 <= int(y) < BITS[T]): return False
    return True

GROUP1 = ("ulong", "llong", "ushort", "uchar", "schar", "cdouble")


def scalar_type(T):
    return "double" if T == "adouble" else T


class OpGen:
    def __init__(self, ctx):
        self.ctx = ctx
        self.rng = ctx.rng("ops")
        self.cases = []          # (line, meta)
        self.quick = ctx.quick

    def add(self, T, S, m, name, form, toks):
        self.cases.append("op %s %d %d %d %s %s %s" % (T, S, m, OPID.get(name, 0), form, name if name else "-", " ".join(toks)))

    def chunks(self, items, Slist, m=1):
        """split a list of operand tuples into vectors of S*m lanes, cycling through the lane counts"""
        i, k = 0, 0
        while i < len(items):
            S = Slist[k % len(Slist)]; k += 1
            L = S * m
            ch = items[i:i + L]; i += L
            while len(ch) < L:
                ch.append(items[self.rng.randrange(len(items))])
            yield S, ch

    def gen_type(self, T, Slist, m=1):
        rng = self.rng
        A = alpha(T)
        isint, isfp, isbool = T in I_ALPHA, T in ("double", "float", "adouble"), T == "bool"
        iscplx = T == "cdouble"; ordered = not iscplx
        pairs = [(x, y) for x in A for y in A]
        thin = 6 if self.quick else 2
        def binary(name, forms, pr):
            pr = [p for p in pr if valid(T, name, p[0], p[1])]
            if not pr: return
            for S, ch in self.chunks(list(pr), Slist, m):
                self.add(T, S, m, name, forms[0], [p[0] for p in ch] + [p[1] for p in ch])
            for fi, form in enumerate(forms[1:]):
                sub = pr[fi::thin]
                rng.shuffle(sub)
                for S, ch in self.chunks(sub, Slist, m):
                    if form in ("vs", "avs"):
                        s = ch[0][1]; ch = [p for p in ch if valid(T, name, p[0], s)] or None
                        if ch is None: continue
                        while len(ch) < S * m: ch.append(ch[0])
                        self.add(T, S, m, name, form, [p[0] for p in ch] + [s])
                    elif form == "sv":
                        s = ch[0][0]; ch = [p for p in ch if valid(T, name, s, p[1])] or None
                        if ch is None: continue
                        while len(ch) < S * m: ch.append(ch[0])
                        self.add(T, S, m, name, form, [s] + [p[1] for p in ch])
                    else:
                        self.add(T, S, m, name, form, [p[0] for p in ch] + [p[1] for p in ch])
        def unary(name, form="u"):
            for S, ch in self.chunks([(x,) for x in A], Slist, m):
                self.add(T, S, m, name, form, [p[0] for p in ch])
        nested = m > 1
        if iscplx:
            for n in ("pos", "neg", "real", "imag"): unary(n)
            for n in BIN_ARITH: binary(n, ["vv", "vs", "sv", "avv", "avs"], pairs)
        if not isbool and ordered:
            for n in UNARY_ARITH: unary(n)
            for n in BIN_ARITH: binary(n, ["vv", "vs", "sv", "avv", "avs"], pairs)
            for n in ("inc", "dec"):
                unary(n, "pre"); unary(n, "post")
            binary("max", ["vv"], pairs); binary("min", ["vv"], pairs)
            unary("", "hmax"); unary("", "hmin")
            # a few random (non-alphabet-ordered) reductions
            for _ in range(20 if self.quick else 200):
                S = rng.choice(Slist); self.add(T, S, m, "", rng.choice(["hmax", "hmin"]), [rng.choice(A) for _ in range(S * m)])
        elif isbool:
            unary("lnot")
        if isint:
            unary("bnot")
            for n in BIN_INT: binary(n, ["vv", "vs", "sv", "avv", "avs"], pairs)
            sp = [(x, str(c)) for x in A for c in SHIFT_COUNTS[T]]
            for n in ("shl", "shr"): binary(n, ["vv", "vs", "avv", "avs"], sp)
        if isbool:
            for n in ("band", "bor", "bxor"): binary(n, ["vv", "vs", "sv", "avv", "avs"], pairs)
        for n in (CMP if ordered else ["eq", "ne"]): binary(n, ["vv", "vs", "sv"], pairs)
        for n in (LOGIC if ordered else []): binary(n, ["vv", "vs"] + ([] if (nested and not getattr(self.ctx, "nested_sv", False)) else ["sv"]), pairs)
        if isfp:
            for n in MATH:
                if nested and n in MATH_NONEST: continue
                unary(n)
        # ---- ALIASING: the scalar operand is a reference to lane k of the vector itself (v /= v[0], v -= Simd::lane(k, v), m ^= m[0]),
        #      the vector operand is the vector itself (v @= v, v @ v); expected = scalar operation on the ORIGINAL lane operands
        def alias(name, forms_k, forms_self, values):
            nrep = 1 if self.quick else 4
            for S in Slist:
                L = S * m
                for k in sorted(set([0, L // 2, L - 1])):
                    for _ in range(nrep):
                        for form in forms_k:
                            for attempt in range(20):
                                vk = rng.choice(values)
                                if not valid(T, name, vk, vk): continue
                                ok = [x for x in values if (valid(T, name, x, vk) if form != "svk" else valid(T, name, vk, x))]
                                if not ok: continue
                                vec = [rng.choice(ok) for _ in range(L)]; vec[k] = vk
                                self.add(T, S, m, name, "%s:%d" % (form, k), vec); break
                for _ in range(nrep):
                    ok = [x for x in values if valid(T, name, x, x)]
                    for form in forms_self:
                        if ok: self.add(T, S, m, name, form, [rng.choice(ok) for _ in range(L)])
        sv_ok = not (nested and not getattr(self.ctx, "nested_sv", False))
        if not isbool:
            for n in BIN_ARITH: alias(n, ["avsk", "avsl", "vsk", "vsl", "svk"], ["vvself", "avvself"], A)
        if not isbool and ordered:
            for n in ("max", "min"): alias(n, [], ["vvself"], A)
        if isint:
            for n in BIN_INT: alias(n, ["avsk", "avsl", "vsk", "vsl", "svk"], ["vvself", "avvself"], A)
            for n in ("shl", "shr"): alias(n, ["avsk", "avsl", "vsk"], ["vvself", "avvself"], [str(c) for c in SHIFT_COUNTS[T]])
        if isbool:
            for n in ("band", "bor", "bxor"): alias(n, ["avsk", "avsl", "vsk", "vsl", "svk"], ["vvself", "avvself"], A)
        for n in (CMP if ordered else ["eq", "ne"]): alias(n, ["vsk", "vsl", "svk"], ["vvself"], A)
        for n in (LOGIC if ordered else []): alias(n, ["vsk", "vsl"] + (["svk"] if sv_ok else []), ["vvself"], A)
        # ---- SPECIAL MEMBERS / CONVERSIONS / further overloads (dimension audit)
        plain = (m == 1)
        for _ in range(4 if self.quick else 30):
            S = rng.choice(Slist); L = S * m
            va = [rng.choice(A) for _ in range(L)]; vb = [rng.choice(A) for _ in range(L)]
            self.add(T, S, m, "", "copy", va)
            self.add(T, S, m, "", "swap", va + vb)
            self.add(T, S, m, "", "bcastk:%d" % rng.choice(sorted(set([0, L // 2, L - 1]))), va)
            self.add(T, S, m, "nzmask", "morself", va); self.add(T, S, m, "nzmask", "mandself", va)
            if plain:                                       # a second simd type with the same scalar and lane count (other alignment) exists
                self.add(T, S, m, "", "conv", va)
                self.add(T, S, m, "", "cond2", [rng.choice("01") for _ in range(L)] + va + vb)
            if ordered and not isbool and not nested:
                for n in CMP: self.add(T, S, m, n, "vsi", va + [str(rng.choice([0, 1, 2, 3, 7] if T in ("unsigned", "ulong", "ushort", "uchar") else [0, 1, -1, 2, 3, 7]))])
            if isint and not nested:
                ok = [x for x in A if True]
                for n in ("shl", "shr"): self.add(T, S, m, n, "vsu", va + [str(rng.choice(SHIFT_COUNTS[T]))])
        for _ in range(12 if self.quick else 80):
            S = rng.choice(Slist); L = S * m
            mask = [rng.choice("01") for _ in range(L)]
            self.add(T, S, m, "", rng.choice(["condself", "condsame"]), mask + [rng.choice(A) for _ in range(L)] + [rng.choice(A) for _ in range(L)])
            if isbool:
                self.add(T, S, m, "", "condmask", [rng.choice(A) for _ in range(L)] + [rng.choice(A) for _ in range(L)])
        # interface functions
        unary("nzmask")
        binary("nzmask", ["mor"], pairs); binary("nzmask", ["mand"], pairs)
        unary("", "lane"); unary("", "lanes"); unary("", "icast")
        sc = scalar_type(T)
        for S in Slist:
            desc = ("simd %d 32 scalar %s" % (S, sc)) if T == "adouble" else ("simd %d 0 scalar %s" % (S, sc)) if m == 1 else \
                   ("simd %d 0 simd %d %d scalar %s" % (S, m, 32 if m == 4 else 0, sc))
            self.add(T, S, m, "", "traits", desc.split())
        for x in A[:8]:
            for S in Slist: self.add(T, S, m, "", "bcast", [x])
        ncond = 60 if self.quick else 400
        for _ in range(ncond):
            S = rng.choice(Slist); L = S * m
            z = rng.random()
            mask = [("1" if z < 0.15 else "0" if z < 0.3 else rng.choice("01")) for _ in range(L)]
            self.add(T, S, m, "", "cond", mask + [rng.choice(A) for _ in range(L)] + [rng.choice(A) for _ in range(L)])
            if _ % 4 == 0:
                self.add(T, S, m, "", "condb", [rng.choice("01")] + [rng.choice(A) for _ in range(L)] + [rng.choice(A) for _ in range(L)])
        if isbool:
            for S in Slist:
                L = S * m
                pats = list(itertools.product("01", repeat=L)) if L <= (6 if self.quick else 8) else \
                    [tuple("1" * L), tuple("0" * L)] + [tuple("1" if j != i else "0" for j in range(L)) for i in range(L)] + \
                    [tuple("0" if j != i else "1" for j in range(L)) for i in range(L)] + [tuple(rng.choice("01") for _ in range(L)) for _ in range(40)]
                for p in pats:
                    for f in ("any", "all", "anyf", "allf"):
                        self.add(T, S, m, "", f, list(p))


# ---- plan terms
def parse_term(s, i=0):
    j = i
    while j < len(s) and s[j] not in "(),":
        j += 1
    head = s[i:j]
    if j < len(s) and s[j] == "(":
        args = []; j += 1
        while True:
            a, j = parse_term(s, j)
            args.append(a)
            if s[j] == ",": j += 1; continue
            if s[j] == ")": j += 1; break
        return (head, args), j
    return (head, None), j


class OpEval:
    def __init__(self, case):
        t = case.split()
        self.T, self.S, self.m, self.form, self.name = t[1], int(t[2]), int(t[3]), t[5].split(":")[0], t[6]
        L = self.S * self.m
        v = t[7:]
        self.vec, self.sc = {}, {}
        f = self.form
        sT = scalar_type(self.T)
        self.sT = sT
        if f in ("u", "pre", "post", "hmax", "hmin", "lane", "lanes", "icast", "any", "all", "anyf", "allf",
                 "avsk", "avsl", "vsk", "vsl", "svk", "vvself", "avvself", "copy", "conv", "bcastk", "morself", "mandself"): self.vec["a"] = v[:L]
        elif f == "swap": self.vec["a"], self.vec["b"] = v[:L], v[L:2 * L]
        elif f == "cond2": self.vec["a"], self.vec["b"], self.vec["c"] = v[:L], v[L:2 * L], v[2 * L:3 * L]
        elif f == "vsu": self.vec["a"], self.sc["sb"] = v[:L], v[L]
        elif f == "vsi":
            k = int(v[L]); self.vec["a"] = v[:L]
            self.sc["sb"] = dbits(float(k)) if sT == "double" else fbits(float(k)) if sT == "float" else str(k % 2 ** BITS[sT] if sT in ("unsigned", "ulong", "ushort", "uchar") else k)
        elif f in ("condself", "condsame"): self.vec["a"], self.vec["b"], self.vec["c"] = v[:L], v[L:2 * L], v[2 * L:3 * L]
        elif f == "condmask": self.vec["b"], self.vec["c"] = v[:L], v[L:2 * L]
        elif f in ("vv", "avv", "mor", "mand"): self.vec["a"], self.vec["b"] = v[:L], v[L:2 * L]
        elif f in ("vs", "avs"): self.vec["a"], self.sc["sb"] = v[:L], v[L]
        elif f == "sv": self.sc["sa"], self.vec["b"] = v[0], v[1:1 + L]
        elif f == "cond": self.vec["a"], self.vec["b"], self.vec["c"] = v[:L], v[L:2 * L], v[2 * L:3 * L]
        elif f == "condb": self.sc["sa"], self.vec["b"], self.vec["c"] = v[0], v[1:1 + L], v[1 + L:1 + 2 * L]
        elif f == "bcast": self.sc["sa"] = v[0]

    def leaf(self, h):
        if h in ("T", "F"): return "1" if h == "T" else "0"
        if h in self.sc: return self.sc[h]
        return self.vec[h[0]][int(h[1:])]

    def leaf_type(self, h):
        if self.form in ("cond", "cond2", "condself", "condsame") and h[0] == "a": return "bool"
        if self.form == "condb" and h == "sa": return "bool"
        return self.sT

    def scalar_key(self, term):
        head, args = term
        name = OPNAME[int(head[1:])]
        toks = [self.leaf(a[0]) for a in args]
        return (self.sT, name, tuple(toks))

    def needs(self, term, acc):
        head, args = term
        if args is None: return
        if head.startswith("#"):
            acc.add(self.scalar_key(term))
        else:
            for a in args: self.needs(a, acc)

    def ev(self, term, table):
        head, args = term
        if args is None:
            return canon(self.leaf_type(head), self.leaf(head))
        if head.startswith("#"):
            return table.get(self.scalar_key(term), "NO-SCALAR-RESULT")
        a = [self.ev(x, table) for x in args]
        if head == "sel": return a[1] if a[0] == "1" else a[2]
        if head == "or": return "1" if (a[0] == "1" or a[1] == "1") else "0"
        if head == "and": return "1" if (a[0] == "1" and a[1] == "1") else "0"
        if head == "not": return "0" if a[0] == "1" else "1"
        if head == "ltmax": return a[1] if numeric(self.sT, a[0]) < numeric(self.sT, a[1]) else a[0]
        if head == "ltmin": return a[1] if numeric(self.sT, a[1]) < numeric(self.sT, a[0]) else a[0]
        return "BAD-TERM"


def scalar_case(key):
    T, name, toks = key
    form = "u" if len(toks) == 1 else "vv"
    return "op %s 0 1 %d %s %s %s" % (T, OPID[name], form, name, " ".join(toks))


# ------------------------------------------------------------------------------------------------ dense matrices
class LuGen:
    def __init__(self, ctx):
        self.ctx, self.rng, self.quick = ctx, ctx.rng("lu"), ctx.quick

    def perm_lu(self, n, zero_at=None):
        """P*L*U with dyadic L, small-integer U: exact in double; zero_at = diagonal position of U set to 0"""
        r = self.rng
        Lm = [[(1.0 if i == j else (r.choice([0, 0.5, -0.5, 1, -1, 0.25, 2, -2]) if j < i else 0.0)) for j in range(n)] for i in range(n)]
        U = [[(float(r.choice([1, -1, 2, -2, 4, 3, 5, -3])) if i == j else (float(r.randint(-3, 3)) if j > i else 0.0)) for j in range(n)] for i in range(n)]
        if zero_at is not None: U[zero_at][zero_at] = 0.0
        A = [[sum(Lm[i][k] * U[k][j] for k in range(n)) for j in range(n)] for i in range(n)]
        p = list(range(n)); r.shuffle(p)
        return [A[p[i]] for i in range(n)]

    def lane_matrix(self, n, fam):
        r = self.rng
        if fam == "plu": return self.perm_lu(n)
        if fam == "plu0": return self.perm_lu(n, r.randrange(n))
        if fam == "int": return [[float(r.randint(-4, 4)) for _ in range(n)] for _ in range(n)]
        if fam == "rand": return [[r.uniform(-10, 10) for _ in range(n)] for _ in range(n)]
        if fam == "graded":
            A = [[float(r.randint(-5, 5)) for _ in range(n)] for _ in range(n)]
            return [[A[i][j] * 2.0 ** r.randint(-3, 3) for j in range(n)] for i in range(n)]
        if fam == "zero": return [[0.0] * n for _ in range(n)]
        if fam == "zerocol":
            A = self.perm_lu(n); k = r.randrange(n)
            for i in range(n): A[i][k] = 0.0 if r.random() < 0.8 else -0.0
            return A
        if fam == "dupcol":
            A = self.perm_lu(n)
            if n >= 2:
                k = r.randrange(1, n); j = r.randrange(k); c = r.choice([1.0, 2.0, -0.5])
                for i in range(n): A[i][k] = c * A[i][j]
            return A
        if fam == "duprow":
            A = self.perm_lu(n)
            if n >= 2:
                k = r.randrange(1, n); j = r.randrange(k)
                A[k] = list(A[j])
            return A
        if fam == "zerorow":
            A = self.perm_lu(n); A[r.randrange(n)] = [0.0] * n
            return A
        if fam == "special":
            A = [[float(r.randint(-4, 4)) for _ in range(n)] for _ in range(n)]
            for _ in range(r.randint(1, 3)):
                A[r.randrange(n)][r.randrange(n)] = r.choice([INF, -INF, float("nan"), 1e308, 5e-324, -0.0, 1e-300, 1e200])
            return A
        if fam == "identityish":
            A = [[(float(r.choice([1, 2, -1])) if i == j else 0.0) for j in range(n)] for i in range(n)]
            p = list(range(n)); r.shuffle(p)
            return [A[p[i]] for i in range(n)]
        raise ValueError(fam)

    FAMS = ["plu", "plu", "plu0", "int", "rand", "graded", "zerocol", "zerocol", "dupcol", "dupcol", "duprow", "zerorow", "special", "identityish", "zero"]

    def case(self, prefix, kind, n, S, piv, fams):
        r = self.rng
        lanes = [self.lane_matrix(n, f) for f in fams]
        vals = [dbits(lanes[l][i][j]) for i in range(n) for j in range(n) for l in range(S)]
        if kind in ("solve", "mv", "prods", "solvealias"):
            vals += [dbits(float(r.randint(-5, 5)) if r.random() < 0.7 else r.uniform(-3, 3)) for _ in range(n * S)]
        return "%s %s %d %d %d %s" % (prefix, kind, n, S, 1 if piv else 0, " ".join(vals))

    def nanpos_cases(self, prefix, S, ns):
        """NaN / inf in every (first, middle, last) row x column position of ONE lane, for all norms (the NaN-propagating
        infinity_norm must not lose it whatever its position) and for mv / prods"""
        r = self.rng
        out = []
        for n in ns:
            pos = sorted(set([0, n // 2, n - 1]))
            lanes = sorted(set([0, S - 1] + ([S // 2] if not self.quick else [])))
            for l in lanes:
                for pr in pos:
                    for pc in pos:
                        for v in ([float("nan"), INF] if self.quick else [float("nan"), INF, -INF]):
                            A = [[[float(r.randint(-4, 4)) for _ in range(S)] for _ in range(n)] for _ in range(n)]
                            A[pr][pc][l] = v
                            vals = [dbits(A[i][j][k]) for i in range(n) for j in range(n) for k in range(S)]
                            out.append("%s norms %d %d 1 %s" % (prefix, n, S, " ".join(vals)))
                            if pr == pc:
                                b = [dbits(float(r.randint(-3, 3))) for _ in range(n * S)]
                                out.append("%s %s %d %d 1 %s" % (prefix, r.choice(["mv", "prods"]), n, S, " ".join(vals + b)))
        return out

    def gen_tagged(self):
        """the dense-matrix stream over the over-aligned, float, nested and Rebind-derived number types"""
        r = self.rng
        cases = []
        N = 6 if self.quick else 60
        sing = ["plu0", "zerocol", "dupcol", "duprow", "zerorow", "zero"]
        for tag, (kind, S, desc, dbl) in VTYPES.items():
            pre = "lu:" + tag
            cases.append("%s traits 0 %d 0 %s" % (pre, S, desc))
            for n in (4, 5):
                for k in ("det", "solve", "invert"):
                    for l in range(S):
                        fams = [(r.choice(sing) if j == l else r.choice(["plu", "graded", "int"])) for j in range(S)]
                        cases.append(self.case(pre, k, n, S, True, fams))
                    for _ in range(N):
                        cases.append(self.case(pre, k, n, S, r.random() < 0.8, [r.choice(self.FAMS) for _ in range(S)]))
                    cases.append(self.case("dlu:" + tag, k, n, S, True, [r.choice(self.FAMS) for _ in range(S)]))
            for n in (1, 2, 3):
                for k in ("det", "solve", "invert"):
                    for _ in range(3 if self.quick else 20):
                        cases.append(self.case(pre, k, n, S, True, [r.choice(["int", "rand", "plu", "zerocol", "special"]) for _ in range(S)]))
            for n in (1, 2, 3, 4, 5):
                for k in ("mv", "prods", "norms"):
                    for _ in range(2 if self.quick else 12):
                        cases.append(self.case(pre, k, n, S, True, [r.choice(["int", "rand", "special", "graded"]) for _ in range(S)]))
            cases += self.nanpos_cases(pre, S, (1, 2, 3, 5) if self.quick else (1, 2, 3, 4, 5))
            cases += self.nanpos_cases("dlu:" + tag, S, (3,))
        return cases

    def gen(self, Slist):
        r = self.rng
        cases = []
        cp = os.path.join(V.VERIF, "corpus", "C09", "cases.txt")
        if os.path.exists(cp):
            cases += [l.strip() for l in open(cp) if l.strip() and not l.startswith("#") and int(l.split()[3]) in Slist]
        big = [4, 5] if self.quick else [4, 5, 6]
        N = 14 if self.quick else 150
        sing = ["plu0", "zerocol", "dupcol", "duprow", "zerorow", "zero"]
        for S in Slist:
            for n in big:
                for kind in ("det", "solve", "invert"):
                    # every lane singular in turn (different construction), the others regular
                    for l in range(S):
                        for sf in (sing if not self.quick else r.sample(sing, 3)):
                            fams = [(sf if j == l else r.choice(["plu", "graded", "int"])) for j in range(S)]
                            cases.append(self.case("lu", kind, n, S, True, fams))
                    for _ in range(N):
                        fams = [r.choice(self.FAMS) for _ in range(S)]
                        cases.append(self.case("lu", kind, n, S, r.random() < 0.8, fams))
                    for _ in range(N // 2):       # all lanes regular, different pivot orders
                        cases.append(self.case("lu", kind, n, S, True, [r.choice(["plu", "graded", "rand"]) for _ in range(S)]))
                    for _ in range(max(2, N // 4)):
                        cases.append(self.case("dlu", kind, n, S, r.random() < 0.8, [r.choice(self.FAMS) for _ in range(S)]))
            for n in (1, 2, 3):
                for kind in ("det", "solve", "invert"):
                    for _ in range(max(3, N // 3)):
                        cases.append(self.case("lu", kind, n, S, True, [r.choice(["int", "rand", "plu", "zerocol", "special"]) for _ in range(S)]))
            for n in (1, 2, 3, 4, 5):
                for kind in ("mv", "norms", "prods"):
                    for _ in range(max(2, N // 5)):
                        cases.append(self.case("lu", kind, n, S, True, [r.choice(["int", "rand", "special", "graded"]) for _ in range(S)]))
            cases.append("lu traits 0 %d 0 simd %d 0 scalar double" % (S, S))
            # aliasing x == b in solve (lanes must still agree with the scalar call made the same way)
            for n in (2, 3, 4, 5):
                for _ in range(2 if self.quick else 10):
                    cases.append(self.case(r.choice(["lu", "dlu"]), "solvealias", n, S, True, [r.choice(["plu", "int", "graded", "zerocol"]) for _ in range(S)]))
            # (0 x 0: DynamicMatrix::mat_cols() asserts rows() != 0 and FieldMatrix<K,0,0> has no LU: outside the domain, not generated)
            cases += self.nanpos_cases("lu", S, (2, 4) if self.quick else (1, 2, 3, 4, 5))
        return cases + self.gen_tagged()


# further number types of the dense-matrix stream: tag -> (C09_VKIND, flat lanes, type descriptor for the model, double carrier?)
VTYPES = {
    "a4": (1, 4, "simd 4 32 scalar double", True),                   # LoopSIMD<double,4,32>
    "f8": (2, 8, "simd 8 64 scalar float", False),                   # LoopSIMD<float,8,64>
    "n22": (3, 4, "simd 2 0 simd 2 0 scalar double", True),          # LoopSIMD<LoopSIMD<double,2>,2>
    "na22": (4, 4, "simd 2 0 simd 2 16 scalar double", True),        # LoopSIMD<LoopSIMD<double,2,16>,2>
    "rb": (5, 4, "simd 2 64 simd 2 16 scalar double", True),         # Rebind<double, LoopSIMD<LoopSIMD<int,2,16>,2,64>>
}
NORM_NAMES = ["frobenius_norm2", "frobenius_norm", "infinity_norm", "infinity_norm_real", "row0.one_norm", "row0.one_norm_real", "row0.two_norm2",
              "row0.two_norm", "row0.infinity_norm", "row0.infinity_norm_real", "rowN.infinity_norm", "rowN.infinity_norm_real"]
INF_NORM_IDX = (2, 3, 8, 9, 10, 11)

def case_tag(case):
    h = case.split()[0]
    return h.split(":")[1] if ":" in h else ""

ZERO = ("0000000000000000", "8000000000000000", "00000000", "80000000")

def lu_split(line):
    return [f.strip() for f in line.split(" | ")]

def lu_oracle(case, impl):
    """The property applied to the impl's own output: lane l of the S-lane result == scalar result on lane l.
    Returns None (accepted) or (signature, reason)."""
    t = case.split()
    kind, n, S = t[1], int(t[2]), int(t[3])
    if kind == "traits":
        # every trait of the simd type must equal the trait of its scalar type; lane counts as declared
        bad = []
        for name, a, b in re.findall(r"(\w+)=(\d+)/(\d+)", impl):
            if a != b: bad.append("%s: simd type %s, scalar type %s" % (name, a, b))
        m = re.search(r"\blanes=(\d+)", impl)
        if not m: return ("C09:traits:no-result", "impl printed %r" % impl[:200])
        for name in ("lanes", "mask_lanes", "rebind_long_lanes"):
            mm = re.search(r"\b%s=(\d+)" % name, impl)
            if mm and int(mm.group(1)) != S: bad.append("%s = %s, expected %d" % (name, mm.group(1), S))
        for name in ("mask_scalar_bool", "rebind_same", "rebind_long_scalar", "rebind_back", "align_ok"):
            mm = re.search(r"\b%s=(\d+)" % name, impl)
            if mm and mm.group(1) != "1": bad.append("%s is false" % name)
        mm = re.search(r"fm_hasnan=(\d)", impl); hs = re.search(r"hasnan=\d/(\d)", impl)
        if mm and hs and mm.group(1) != hs.group(1): bad.append("HasNaN<FieldMatrix::value_type> %s, scalar %s" % (mm.group(1), hs.group(1)))
        if bad:
            return ("C09:traits:%s" % bad[0].split(":")[0].split(" ")[0], "; ".join(bad))
        return None
    f = lu_split(impl)
    if len(f) != 2:
        return ("C09:%s:no-result" % kind, "impl printed %r" % impl[:200])
    simd, scal = f[0], [x.strip() for x in f[1].split(" ; ")]
    if len(scal) != S:
        return ("C09:%s:no-result" % kind, "expected %d scalar results" % S)
    if "modified" in simd:
        return ("C09:%s:operand-modified" % kind, "inputs changed by the call")
    mflag = re.search(r"\((second call differs|default argument differs|copy of the result differs|differs after an intermediate solve)\)|INCONSISTENT \(([^)]*)\)", impl)
    if mflag:
        return ("C09:%s:history" % kind, "object history / default argument: %s" % (mflag.group(1) or mflag.group(2)))
    if simd == "-":                      # 0 x 0: nothing to return
        return None if all(x == "-" for x in scal) else ("C09:%s:lane-mismatch" % kind, "empty S-lane result, scalar results %s" % scal[:3])
    if any(s.startswith("EXC") for s in scal) or simd.startswith("EXC"):
        if kind in ("solve", "invert", "solvealias"):
            anyexc = any(s.startswith("EXC FMatrixError") for s in scal)
            if anyexc and simd.startswith("EXC FMatrixError"): return None
            if anyexc != simd.startswith("EXC FMatrixError"):
                return ("C09:%s:exception-mismatch" % kind, "S-lane call %s but scalar calls per lane: %s" %
                        ("throws" if simd.startswith("EXC") else "returns", ["throws" if s.startswith("EXC") else "ok" for s in scal]))
        return ("C09:%s:exception-mismatch" % kind, "unexpected exception: simd=%s scalar=%s" % (simd[:40], [s[:20] for s in scal]))
    sv = simd.split()
    bad = []
    for l in range(S):
        lv = scal[l].split()
        mine = sv[l::S]
        if mine != lv:
            bad.append((l, mine, lv))
    if not bad:
        return None
    if kind == "det" and all(lv[0] in ZERO for _, _, lv in bad):
        l, mine, lv = bad[0]
        return ("C09:det:singular-lane", "lane %d of determinant() is %s but the scalar determinant of that lane's matrix is %s (singular lane)" % (l, mine[0], lv[0]))
    if kind == "norms":
        names = NORM_NAMES
        diff = [(l, k) for l, mine, lv in bad for k in range(len(lv)) if mine[k] != lv[k]]
        if all(k in INF_NORM_IDX and bad_lv[k] == "nan" for (l, k) in diff for bad_lv in [next(lv for ll, _, lv in bad if ll == l)]):
            l, k = diff[0]
            return ("C09:norms:infinity-norm-nan", "lane %d of %s() is %s but the scalar call on that lane's matrix returns nan (lane contains nan/inf)"
                    % (l, names[k], next(mine for ll, mine, _ in bad if ll == l)[k]))
    l, mine, lv = bad[0]
    k = next(i for i in range(min(len(mine), len(lv))) if mine[i] != lv[i]) if len(mine) == len(lv) else -1
    return ("C09:%s:lane-mismatch" % kind, "lane %d entry %d: S-lane result %s, scalar result %s" % (l, k, mine[k] if k >= 0 else mine, lv[k] if k >= 0 else lv))


# ------------------------------------------------------------------------------------------------ run
def probe_nested_sv(ctx):
    """compile probe: scalar && nested-LoopSIMD (every combination of V and its scalar type must be accepted)"""
    try:
        V.cxx(ctx, [os.path.join(H, "probe_nested_sv.cc")], ctx.path("probe_nested_sv"), repo_srcs=[], timeout=300)
        rc, out = V.sh([ctx.path("probe_nested_sv")], timeout=30)
        if rc != 0:
            ctx.violation("C09:op:land:sv:nested-wrong", {"case": "2.0 && LoopSIMD<LoopSIMD<double,2>,3>(1.0)", "impl": "probe exit %s" % rc,
                                                          "oracle": "all lanes must be true"})
        return True
    except V.BuildError as e:
        log = str(e)
        m = re.search(r"error: [^\n]*", log)
        ctx.violation("C09:op:land:sv:nested-no-compile",
                      {"case": "2.0 && LoopSIMD<LoopSIMD<double,2>,3>  /  0.0 || LoopSIMD<LoopSIMD<double,2>,3>  (harness/C09/probe_nested_sv.cc)",
                       "impl": "does not compile: " + (m.group(0)[:300] if m else log[-300:]),
                       "oracle": "simd/interface.hh: operators accept arbitrary combinations of V and its scalar type; lane l must be (s && lane(l,v)); "
                                 "vector && scalar compiles, scalar && vector does not for nested LoopSIMD"})
        return False


def build(ctx, Slist):
    fl = ["-fwrapv", "-ffp-contract=off"]
    ctx.nested_sv = probe_nested_sv(ctx)
    jobs = []
    for S in [0] + Slist:
        for grp in (0, 1):                  # two translation units per lane count: the original eight scalar types | the further ones
            jobs.append(dict(srcs=[os.path.join(H, "ops.cc")], out=ctx.path("ops%d" % S + ("" if grp == 0 else "g1")), repo_srcs=[],
                             flags=fl + ["-DC09_LANES=%d" % S, "-DC09_TYPEGROUP=%d" % grp] + (["-DC09_NESTED_SV_LOGIC=1"] if ctx.nested_sv else [])))
    for S in Slist:
        jobs.append(dict(srcs=[os.path.join(H, "lu.cc")], out=ctx.path("lu%d" % S), flags=fl + ["-DC09_LANES=%d" % S]))
    if Slist:
        for tag, (kind, S, desc, dbl) in VTYPES.items():
            jobs.append(dict(srcs=[os.path.join(H, "lu.cc")], out=ctx.path("lu_" + tag), flags=fl + ["-DC09_VKIND=%d" % kind]))
    if Slist:
        # unoptimised build for the memcheck stream (uninitialised reads are optimised into "anything" at -O1)
        jobs.append(dict(srcs=[os.path.join(H, "lu.cc")], out=ctx.path("lu_vg"), flags=fl + ["-DC09_LANES=%d" % (2 if 2 in Slist else Slist[0]), "-g"], opt="-O0"))
    if not ctx.quick and Slist:
        S = 2 if 2 in Slist else Slist[0]
        jobs.append(dict(srcs=[os.path.join(H, "lu.cc")], out=ctx.path("lu_san"), flags=fl + ["-DC09_LANES=%d" % S], san=True))
        jobs.append(dict(srcs=[os.path.join(H, "ops.cc")], out=ctx.path("ops_san"), repo_srcs=[], flags=fl + ["-DC09_LANES=%d" % S], san=True))
    V.cxx_many(ctx, jobs)


def run_ops(ctx, model, Slist, cases, tag="ops"):
    """returns (impl lines, expected lines, plans)"""
    plans = V.run_cases(ctx, [model], cases, tag=tag + "-model", timeout=600)
    evs, need = [], set()
    for c, p in zip(cases, plans):
        e = OpEval(c); evs.append(e)
        if e.form in ("lanes", "traits"): continue
        terms = []
        for vec in p.split(" ; "):
            terms.append([parse_term(x)[0] for x in vec.split()])
        e.terms = terms
        for vec in terms:
            for tm in vec: e.needs(tm, need)
    need = sorted(need)
    scases = [scalar_case(k) for k in need]
    # route cases to the binary of their lane count
    impl = [None] * len(cases)
    groups = {}
    for i, c in enumerate(cases):
        t = c.split(); S, m = int(t[2]), int(t[3])
        key = 0 if (m > 1 or t[1] == "adouble") else S
        groups.setdefault("%d%s" % (key, "g1" if (t[1] in GROUP1 and m == 1) else ""), []).append(i)
    table = {}
    for grp, sfx in ((False, ""), (True, "g1")):
        sel = [(k, c) for k, c in zip(need, scases) if (k[0] in GROUP1) == grp]
        if sel:
            sout = V.run_cases(ctx, [ctx.path("ops0" + sfx)], [c for _, c in sel], tag=tag + "-scalar" + sfx, timeout=600)
            table.update(dict(zip([k for k, _ in sel], sout)))
    for key, idx in groups.items():
        out = V.run_cases(ctx, [ctx.path("ops" + key)], [cases[i] for i in idx], tag="%s-impl%s" % (tag, key), timeout=600)
        for i, o in zip(idx, out): impl[i] = o
    expected = []
    for c, e in zip(cases, evs):
        if e.form == "lanes":
            expected.append("%d %d" % (e.S * e.m, e.S * e.m)); continue
        if e.form == "traits":
            expected.append(plans[len(expected)]); continue
        ex = " ; ".join(" ".join(e.ev(tm, table) for tm in vec) for vec in e.terms)
        expected.append(ex + " ; " + ex if e.form == "vsu" else ex)       # vsu: scalar count and vector of counts of another type, same lanes
    return impl, expected, plans, len(scases)


def run_lu(ctx, model, cases, tag="lu"):
    mo = V.run_cases(ctx, [model], cases, tag=tag + "-model", timeout=900)
    impl = [None] * len(cases)
    groups = {}
    for i, c in enumerate(cases):
        groups.setdefault(case_tag(c) or int(c.split()[3]), []).append(i)
    for S, idx in groups.items():
        exe = ctx.path("lu%d" % S) if isinstance(S, int) else ctx.path("lu_" + S)
        out = V.run_cases(ctx, [exe], [cases[i] for i in idx], tag="%s-impl%s" % (tag, S), timeout=300)
        for i, o in zip(idx, out): impl[i] = o
    return impl, mo


def judge_lu(ctx, cases, impl, mo, stats):
    nviol = ndis = 0
    for c, a, m in zip(cases, impl, mo):
        t = c.split(); kind, n, S = t[1], int(t[2]), int(t[3])
        stats["kinds"][kind] = stats["kinds"].get(kind, 0) + 1
        verdict = lu_oracle(c, a)
        mf = lu_split(m)
        vt = (case_tag(c) or "LoopSIMD<double,S>"); stats["number_types"][vt] = stats["number_types"].get(vt, 0) + 1
        if kind == "traits":
            if verdict is not None:
                nviol += 1
                ctx.violation(verdict[0], {"case": c, "impl": a, "model": m, "oracle": verdict[1], "replay_cmd": "bin/check C09 --replay <this file>"})
            elif a != m:
                ndis += 1
                ctx.violation("corr:C09/traits", {"broken": "corr:C09/traits", "case": c, "impl": a, "model": m, "oracle": "accepts impl output"}, found_input=False)
            else:
                stats["model_agreements"] += 1
            continue
        modelled = kind in ("det", "solve", "invert") and len(mf) >= 3      # every n: closed forms for n <= 3 are in the model too
        if modelled:
            tr = mf[-1]
            mm = re.match(r"piv=(\S*) ok=(\S*)", tr)
            if mm:
                pv = [x.split(",") for x in mm.group(1).split(";") if x]
                ok = [x for x in mm.group(2).split(";") if x]
                seqs = set(tuple(step[l] for step in pv) for l in range(S)) if pv and t[4] == "1" else set()
                if len(seqs) > 1: stats["cases_lanes_pivot_differently"] += 1
                if any(int(step[l]) != i for i, step in enumerate(pv) for l in range(S)) and t[4] == "1": stats["cases_with_row_swap"] += 1
                first_bad = []
                for l in range(S):
                    fb = next((i for i, o in enumerate(ok) if o[l] == "0"), None)
                    first_bad.append(fb)
                    stats["singular_step"][str(fb)] = stats["singular_step"].get(str(fb), 0) + 1
                if any(x is None for x in first_bad) and any(x is not None for x in first_bad): stats["cases_mixed_singular_regular"] += 1
                if any(x is not None and x < n - 1 and any(y is None or y > x for y in first_bad) for x in first_bad):
                    stats["cases_lane_singular_while_other_continues"] += 1
        if verdict is not None:
            nviol += 1
            if nviol <= 60:
                rep = {"case": c, "impl": a, "oracle": verdict[1], "replay_cmd": "bin/check C09 --replay <this file>"}
                if modelled: rep["model"] = m
                ctx.violation(verdict[0], rep)
        if kind in ("mv", "norms", "prods") and len(mf) >= 2:
            af = lu_split(a)
            agree = len(af) == 2 and af[0] == mf[0] and af[1] == mf[1]
            if agree:
                stats["model_agreements"] += 1
            else:
                ndis += 1
                if ndis <= 10:
                    ctx.violation(("corr:C09/%s" % kind) if verdict is None else verdict[0] + ":model-differs",
                                  {"broken": "corr:C09/%s" % kind, "case": c, "impl": a, "model": m,
                                   "oracle": "accepts impl output" if verdict is None else verdict[1]}, found_input=verdict is not None)
        if modelled:
            af = lu_split(a)
            agree = len(af) == 2 and af[0] == mf[0] and af[1] == mf[1]
            if agree:
                stats["model_agreements"] += 1
            else:
                ndis += 1
                if ndis <= 10:
                    if verdict is None:
                        ctx.violation("corr:C09/%s" % kind, {"broken": "corr:C09/%s" % kind, "case": c, "impl": a, "model": m,
                                                            "oracle": "accepts impl output (lanes agree with the scalar runs) but the model predicts different bits"}, found_input=False)
                    else:
                        ctx.violation(verdict[0] + ":model-differs", {"case": c, "impl": a, "model": m, "oracle": verdict[1]})
    return nviol, ndis


def memcheck(ctx, Slist, lcases, limpl, stats):
    """valgrind memcheck over a few S-lane solve / invert / determinant calls: the results must not depend on
    uninitialised memory (an S-lane value that is garbage in some run is not the scalar result)."""
    import shutil
    if not shutil.which("valgrind"):
        ctx.notes.append("valgrind not installed: memcheck stream skipped"); return
    S = 2 if 2 in Slist else Slist[0]
    per = 4 if ctx.quick else 16
    for kind in ("invert", "solve", "det"):
        mine = [c for c, a in zip(lcases, limpl) if c.split()[1] == kind and c.split()[3] == str(S)]
        done = [c for c, a in zip(lcases, limpl) if c.split()[1] == kind and c.split()[3] == str(S) and not a.startswith("EXC")]
        # mostly calls that run to completion (a throwing call ends before the post-processing), one that throws
        sel = [c for c in done if int(c.split()[2]) >= 4][:per] + [c for c in done if int(c.split()[2]) < 4][:2] + [c for c in mine if c not in done][:1]
        if not sel: continue
        cf = ctx.path("vg-%s.cases" % kind)
        open(cf, "w").write("\n".join(sel) + "\n")
        rc, out = V.sh(["valgrind", "-q", "--error-exitcode=9", "--track-origins=yes", ctx.path("lu_vg"), cf], timeout=600)
        stats["memcheck_cases"] += len(sel)
        errs = [l for l in out.split("\n") if l.startswith("==")]
        if rc == 9 or any("uninitialised" in l.lower() for l in errs):
            origin = ""
            for i, l in enumerate(errs):
                if "Uninitialised value was created" in l and i + 1 < len(errs):
                    m = re.search(r"at 0x[0-9A-Fa-f]+: (.*)", errs[i + 1]); origin = m.group(1) if m else errs[i + 1]; break
            fn = re.search(r"::(\w+)\(", origin)
            ctx.violation("C09:%s:uninitialised-read" % kind,
                          {"case": sel[0], "cases_file_content": sel, "impl": "valgrind: result depends on uninitialised value(s); origin: " + origin[:300],
                           "oracle": "lanes of the S-lane %s() result depend on uninitialised memory (created in %s), the scalar call is deterministic" % (kind, fn.group(1) if fn else "?"),
                           "valgrind_excerpt": [l[:200] for l in errs[:14]]})
        elif rc != 0:
            ctx.notes.append("memcheck %s: valgrind rc=%s %s" % (kind, rc, out[-300:]))


def sig_op(case):
    t = case.split()
    return "C09:op:%s:%s" % (t[6] if t[6] != "-" else t[5].split(":")[0], t[5].split(":")[0])


def params_hook(ctx):
    V.sh([sys.executable, os.path.join(V.VERIF, "tools", "extract_params.py"), ctx.repo], check=True)


def source_operator_table(ctx):
    """the operators loop.hh actually defines (macro invocations), compared with the table this check exercises"""
    try:
        src = open(os.path.join(ctx.repo, "dune/common/simd/loop.hh"), errors="replace").read()
    except OSError:
        return
    SYM = {"+": "add", "-": "sub", "*": "mul", "/": "div", "%": "mod", "&": "band", "|": "bor", "^": "bxor", "<<": "shl", ">>": "shr",
           "<": "lt", ">": "gt", "<=": "le", ">=": "ge", "==": "eq", "!=": "ne", "&&": "land", "||": "lor", "++": "inc", "--": "dec", "~": "bnot"}
    found, unknown = {}, []
    for kind, sym in re.findall(r"^\s*DUNE_SIMD_LOOP_(PREFIX|UNARY|POSTFIX|ASSIGNMENT|BINARY|BITSHIFT|COMPARISON|BOOLEAN)_OP\(([^)\s]+)\);", src, re.M):
        s = sym[:-1] if kind == "ASSIGNMENT" else sym
        name = {"+": "pos", "-": "neg"}.get(s, SYM.get(s)) if kind == "UNARY" else SYM.get(s)
        if name is None or name not in OPS: unknown.append("%s_OP(%s)" % (kind, sym))
        else: found.setdefault(kind, []).append(name)
    for fn in re.findall(r"^\s*DUNE_SIMD_LOOP_CMATH_UNARY_OP(?:_WITH_RETURN)?\((\w+)", src, re.M):
        if fn not in OPS: unknown.append("cmath %s" % fn)
        else: found.setdefault("CMATH", []).append(fn)
    for fn in re.findall(r"^\s*DUNE_SIMD_LOOP_STD_BINARY_OP\((\w+)\);", src, re.M):
        if fn not in OPS: unknown.append("std binary %s" % fn)
        else: found.setdefault("STD_BINARY", []).append(fn)
    ctx.coverage["operators_defined_by_loop_hh"] = {k: len(v) for k, v in found.items()}
    expected_min = {"ASSIGNMENT": 10, "BINARY": 8, "BITSHIFT": 2, "COMPARISON": 6, "BOOLEAN": 2, "PREFIX": 2, "POSTFIX": 2, "UNARY": 3, "CMATH": 39, "STD_BINARY": 2}
    missing = [k for k, nmin in expected_min.items() if len(found.get(k, [])) < nmin]
    if unknown:
        ctx.violation("corr:C09/operator-table", {"broken": "corr:C09/operator-table", "detail": "loop.hh defines operators the check's table does not exercise: %s" % unknown,
                                                  "oracle": "n/a"}, found_input=False)
    if missing:
        ctx.notes.append("operator families with fewer macro invocations in loop.hh than the table assumes (macro renamed / operator removed?): %s" % missing)


def run(ctx):
    ctx.params_hook = params_hook
    V.coq_stage(ctx)
    source_operator_table(ctx)
    model = V.build_model(ctx)
    Slist = [1, 2, 3, 4, 8] if not ctx.quick else [1, 2, 3, 4, 8]
    build(ctx, Slist)
    # ---------------- operator table
    g = OpGen(ctx)
    for T in ["int", "unsigned", "long", "short", "char", "bool", "float", "double", "ulong", "llong", "ushort", "uchar", "schar", "cdouble"]:
        g.gen_type(T, Slist)
    g.gen_type("double", [3], m=2)       # LoopSIMD<LoopSIMD<double,2>,3>
    g.gen_type("int", [3], m=2)
    g.gen_type("bool", [3], m=2)
    g.gen_type("double", [2], m=4)       # LoopSIMD<LoopSIMD<double,4,32>,2>
    g.gen_type("adouble", [4])           # LoopSIMD<double,4,32>
    ocases = g.cases
    ctx.log("operator table: %d cases" % len(ocases))
    impl, expected, plans, nscalar = run_ops(ctx, model, Slist, ocases)
    nop_viol, forms, types = 0, {}, {}
    for c, a, e, p in zip(ocases, impl, expected, plans):
        t = c.split()
        forms[t[5]] = forms.get(t[5], 0) + 1; types[t[1] + ("x%s" % t[3] if t[3] != "1" else "")] = types.get(t[1] + ("x%s" % t[3] if t[3] != "1" else ""), 0) + 1
        if a != e:
            nop_viol += 1
            if nop_viol <= 40:
                ctx.violation(sig_op(c), {"case": c, "impl": a, "spec": e, "model_plan": p,
                                          "oracle": "traits of the simd type differ from the forwarded traits of its scalar type (Coq model c09_traits)" if t[5] == "traits" else "some lane of the LoopSIMD result differs from the C++ scalar operation on that lane's operands (plan from the Coq model)",
                                          "replay_cmd": "bin/check C09 --replay <this file>"})
    # ---------------- dense matrices
    lcases = LuGen(ctx).gen(Slist)
    ctx.log("dense matrices: %d cases" % len(lcases))
    limpl, lmo = run_lu(ctx, model, lcases)
    stats = {"kinds": {}, "number_types": {}, "singular_step": {}, "cases_lanes_pivot_differently": 0, "cases_with_row_swap": 0, "cases_mixed_singular_regular": 0,
             "cases_lane_singular_while_other_continues": 0, "model_agreements": 0}
    nviol, ndis = judge_lu(ctx, lcases, limpl, lmo, stats)
    stats["memcheck_cases"] = 0
    memcheck(ctx, Slist, lcases, limpl, stats)
    nsan = 0
    if not ctx.quick:
        # ASan/UBSan builds (lane count 2) must behave identically
        S = 2 if 2 in Slist else Slist[0]
        sub = [i for i, c in enumerate(lcases) if int(c.split()[3]) == S]
        so = V.run_cases(ctx, [ctx.path("lu_san")], [lcases[i] for i in sub], tag="lu-san", timeout=900)
        for i, o in zip(sub, so):
            if o != limpl[i]:
                ctx.violation("C09:%s:sanitizer" % lcases[i].split()[1], {"case": lcases[i], "impl": limpl[i], "impl_sanitized_build": o,
                                                                          "oracle": "ASan/UBSan build behaves differently or aborts"})
        osub = [i for i, c in enumerate(ocases) if c.split()[2] == str(S) and c.split()[3] == "1" and c.split()[1] != "adouble" and c.split()[1] not in GROUP1]
        oo = V.run_cases(ctx, [ctx.path("ops_san")], [ocases[i] for i in osub], tag="ops-san", timeout=900)
        for i, o in zip(osub, oo):
            if o != impl[i]:
                ctx.violation(sig_op(ocases[i]) + ":sanitizer", {"case": ocases[i], "impl": impl[i], "impl_sanitized_build": o,
                                                                 "oracle": "ASan/UBSan build behaves differently or aborts"})
        nsan = len(sub) + len(osub)
    for k in ("cases_lanes_pivot_differently", "cases_mixed_singular_regular", "cases_lane_singular_while_other_continues"):
        if stats[k] == 0:
            ctx.notes.append("generator sanity: %s == 0" % k)
    distinct = len(set(ocases)) + len(set(lcases))
    ctx.coverage.update({
        "evaluations": len(ocases) + len(lcases) + nscalar, "distinct_nontrivial": distinct,
        "rule": "operator table: per type (int unsigned long short char bool float double, nested double/int/bool 3x2, nested aligned 2x4, aligned) every operator "
                "of simd/DESIGN.md x all pairs of a %d/%d-value alphabet (+-0, +-inf, nan, denormals, INT_MIN/MAX, shift counts) packed into lanes, lane counts %s, "
                "forms vv/vs/sv/compound/prefix/postfix and ALIASING forms (scalar operand = reference to own lane k in {0, middle, last} through operator[] and Simd::lane(), "
                "vector operand = the vector itself, cond with aliased arguments / aliased mask; expected = scalar operation on the original lane operands), cmath overloads, cond/lane/broadcast/implCast/mask reductions; each output lane compared with the C++ scalar operator on "
                "the operands named by the Coq-extracted plan.  dense matrices: FieldMatrix/DynamicMatrix<LoopSIMD<double,S>> n=1..%d, lanes drawn independently from families "
                "(P*L*U exact, zero pivot, zero/duplicate column or row, graded, random, inf/nan), every lane made singular in turn; distinct = distinct case lines (all non-trivial)"
                % (len(D_ALPHA), len(I_ALPHA["int"]), Slist, 5 if ctx.quick else 6),
        "samples": ocases[:2] + ocases[len(ocases) // 2: len(ocases) // 2 + 1] + [c[:160] for c in lcases[:2]],
        "op_forms": forms, "op_types": types, "scalar_operator_evaluations": nscalar, "operator_cases": len(ocases), "operator_disagreements": nop_viol,
        "matrix_cases": len(lcases), "matrix": stats, "matrix_oracle_rejections": nviol, "matrix_impl_model_disagreements": ndis,
        "lane_counts": Slist, "exhaustive": False, "sanitizer_cases": nsan, "traces_validated_against_impl": stats["model_agreements"],
    })
    ctx.assumptions += ["IEEE double arithmetic of OCaml (carrier of the extracted LU model) and of g++ -ffp-contract=off coincide on x86-64/SSE2; NaN payloads are not compared",
                        "integer operator table compiled with -fwrapv; expressions that are undefined for the scalar type (division by zero, INT_MIN/-1, shift counts >= width) are not generated",
                        "cmath overloads: SIMD lane vs the same libm function on the scalar in the same binary",
                        "Vc and std::experimental::simd backends not built (not in the baseline configuration)"]


def replay(ctx, path):
    rep = json.load(open(path))
    case = rep["case"]
    if "nested" in rep.get("signature", "") and not case.startswith(("op ", "lu ", "dlu ")):
        ok = probe_nested_sv(ctx)
        print("case  :", case); print("impl  :", "compiles and all lanes true" if ok and not ctx.viol else (ctx.viol[0][1].get("impl") if ctx.viol else "?"))
        print("oracle:", "accepts" if ok and not ctx.viol else "REJECTS (scalar-first logical operator on nested LoopSIMD)")
        return 0 if ok and not ctx.viol else 1
    model = V.build_model(ctx)
    S = int(case.split()[2 if case.startswith("op") else 3])
    Slist = [S] if S and S in (1, 2, 3, 4, 8) else ([2] if not case.startswith("op") else [])
    build(ctx, Slist)
    if case.startswith("op"):
        impl, expected, plans, _ = run_ops(ctx, model, Slist, [case], tag="rops")
        print("case  :", case); print("impl  :", impl[0]); print("plan  :", plans[0]); print("spec  :", expected[0])
        bad = impl[0] != expected[0]
        print("oracle:", "REJECTS (lane differs from the scalar operation)" if bad else "accepts")
        return 1 if bad else 0
    impl, mo = run_lu(ctx, model, [case], tag="rlu")
    print("case  :", case); print("impl  :", impl[0]); print("model :", mo[0])
    v = lu_oracle(case, impl[0])
    print("oracle:", ("REJECTS %s: %s" % v) if v else "accepts")
    return 1 if v else 0
