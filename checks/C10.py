"""C10 — bigunsignedint<k> is arithmetic modulo 2^w (DESIGN.md section 4, C10)."""
import os, sys, re
import vcheck as V

META = {
    "level": "proof",
    "technique": "Coq proof (digit-list model refines arithmetic mod 2^w, all widths/operands) + extracted-model vs C++ differential correspondence with spec oracle",
    "text": "Theorems in coq/Properties_C10.v: every operator of the digit-list model (literal transcription of the C++ loops with "
            "carry/borrow variables) equals exact arithmetic modulo 2^(16n) for every digit count n and all operands, incl. total division "
            "(fuel bound 2^w proved, exact iteration count), shifts by any amount, todouble as exact truncation, constructors, free operators "
            "with unsigned/signed built-in operands on both sides, self-aliasing compound forms, ring laws on digit arrays, every "
            "numeric_limits member, hash_value (bit-exact model of hash_combiner<8>), stream insertion on a stream in every formatting state "
            "(flags, fill, width, locale grouping: C10_print_state); the model is tied "
            "to dune/common/bigunsignedint.hh on every run by running extracted model and the C++ class (17 widths, 1..1024 bits) on identical "
            "exhaustive digit-alphabet, boundary-directed and random operands and random object histories (aliasing, special members, built-in operand types, throwing steps; theorem C10_histories) and by re-reading ~45 constants from the source (tools/params.d/C10.py), "
            "which the `consts`/`limits` cases compare with the compiled values.",
    "note": "Trusted: Coq kernel, extraction, OCaml driver, C++ harness (operands written through the object representation), "
            "g++; std::hash<uint16_t> = identity; std::ldexp exactness.",
    "design_ref": "DESIGN.md section 4 C10",
}

KS = [1, 8, 15, 16, 17, 24, 32, 33, 40, 48, 63, 64, 65, 100, 128, 200, 1024]
ALPHA = ["0000", "0001", "7fff", "8000", "fffe", "ffff"]
BIN = ["add", "sub", "mul", "and", "or", "xor"]
CMP = ["lt", "le", "gt", "ge", "eq", "ne"]


def nd(k):
    return k // 16 + (1 if k % 16 else 0)


def params_hook(ctx):
    V.sh([sys.executable, os.path.join(V.VERIF, "tools", "extract_params.py"), ctx.repo], check=True)


def gen(ctx):
    cases = []
    quick = ctx.quick
    # corpus first
    cp = os.path.join(V.VERIF, "corpus", "C10", "cases.txt")
    if os.path.exists(cp):
        cases += [l.strip() for l in open(cp) if l.strip() and not l.startswith("#")]
    import itertools
    def allvals(n):
        return ["".join(t) for t in itertools.product(ALPHA, repeat=n)]
    # exhaustive alphabet pairs for small n
    for k in ([8, 16, 17, 32] if quick else [8, 16, 17, 24, 32]):
        vals = allvals(nd(k))
        for op in BIN + CMP:
            for a in vals:
                for b in vals:
                    cases.append("%d %s %s %s" % (k, op, a, b))
    if not quick:
        vals = allvals(3)
        for op in ["add", "sub", "mul", "lt", "le"]:
            for a in vals:
                for b in vals:
                    cases.append("48 %s %s %s" % (op, a, b))
    rng = ctx.rng("gen")
    def rdig():
        return rng.choice(ALPHA) if rng.random() < 0.7 else "%04x" % rng.randrange(65536)
    def rval(n):
        z = rng.random()
        if z < 0.1:
            lead = rng.randrange(n + 1)       # leading zero digits
            return "0000" * lead + "".join(rdig() for _ in range(n - lead))
        return "".join(rdig() for _ in range(n))
    N0 = 150 if quick else 2500
    for k in KS:
        n = nd(k)
        N = N0 if n <= 16 else max(60, N0 // 5)      # the exact-integer oracle is quadratic in the width
        for op in BIN + CMP + ["hasheq"]:
            for _ in range(N):
                a = rval(n); b = a if rng.random() < 0.08 else rval(n)
                cases.append("%d %s %s %s" % (k, op, a, b))
        for _ in range(N):
            a = rval(n)
            for op in ["not", "incr", "touint", "todouble", "print"]:
                cases.append("%d %s %s" % (k, op, a))
        # todouble: one non-zero top digit in every position, all-ones
        for i in range(n):
            for top in ["0001", "8000", "ffff"]:
                a = "0000" * (n - 1 - i) + top + "".join(rdig() for _ in range(i))
                cases.append("%d todouble %s" % (k, a))
                cases.append("%d touint %s" % (k, a))
        cases.append("%d todouble %s" % (k, "0000" * n))
        cases.append("%d incr %s" % (k, "ffff" * n))
        # all shift counts below w; shl also at and beyond w (any amount), shr up to w+15 (beyond that the code
        # indexes out of bounds: C10_shift_any, not executed on the impl)
        w = 16 * n
        for a in [rval(n) for _ in range((2 if w <= 256 else 1) if quick else 12)] + ["ffff" * n, "0000" * (n - 1) + "0001", "8000" + "0000" * (n - 1)][:3 if w <= 256 else 2]:
            # every count for widths up to 256 bits; for wider types every count up to 2 digits, around every 7th digit
            # boundary, the last 17 and a random sample (the oracle's exact 2^s arithmetic is quadratic in w)
            counts = range(w) if w <= 256 else sorted(set(list(range(34)) + [16 * j + e for j in range(2, n, 7) for e in (-1, 0, 1)]
                                                          + list(range(w - 17, w)) + [rng.randrange(w) for _ in range(40)]))
            for s in counts:
                cases.append("%d shl %s %d" % (k, a, s))
                cases.append("%d shr %s %d" % (k, a, s))
            for s in [w, w + 1, w + 15, w + 16, w + 17, 2 * w, 3 * w + 5, 100000]:
                cases.append("%d shl %s %d" % (k, a, s))
            for s in [w, w + 1, w + 7, w + 15]:
                cases.append("%d shr %s %d" % (k, a, s))
        # division: a = q*b + r with small quotient (the code subtracts q times)
        for _ in range(40 if quick else 600):
            bv = int(rval(n), 16)
            z = rng.random()
            if z < 0.1:
                bv = 0
            q = rng.choice([0, 1, 2, 3, 255, 256, 257, 4095, 65535 if not quick else 1000, rng.randrange(3000)])
            r = rng.randrange(bv) if bv > 0 else rng.randrange(1 << w)
            av = q * bv + r
            if av >= (1 << w):
                av = rng.randrange(max(bv, 1) * 2) % (1 << w) if bv else av % (1 << w)
            qq = av // bv if bv else 0
            if qq > 70000:
                continue
            fmt = "%0" + str(4 * n) + "x"
            for op in ["div", "mod"]:
                cases.append("%d %s %s %s %d" % (k, op, fmt % av, fmt % bv, qq + 2))
        # division boundaries aimed at the case splits of the proofs: quotient 0 (a < b), a == b, exact multiples,
        # remainder b-1, divisor 1 with a small dividend, dividend below 2^32 with a divisor above it, operands that
        # differ in the top digit only, fuel exactly quotient+1 (the least sufficient fuel: C10_div_fuel_exact)
        fmt = "%0" + str(4 * n) + "x"
        M = 1 << w
        for _ in range(6 if quick else 60):
            bv = max(1, int(rval(n), 16))
            pairs = [(rng.randrange(bv), bv), (bv, bv), (min(M - 1, bv * rng.randrange(1, 50)), bv),
                     (min(M - 1, bv * rng.randrange(1, 50) + bv - 1), bv), (rng.randrange(3000), 1),
                     (rng.randrange(min(M, 1 << 32)), bv), (bv, max(1, bv - (1 << (16 * (n - 1))) if bv >= (1 << (16 * (n - 1))) else bv))]
            for av, dv in pairs:
                qq = av // dv
                if qq > 70000:
                    continue
                for op in ["div", "mod"]:
                    cases.append("%d %s %s %s %d" % (k, op, fmt % av, fmt % dv, qq + 1))
        # both operands the same object: x OP= x
        for a in [rval(n) for _ in range(3 if quick else 20)] + ["0000" * n, "ffff" * n, "0000" * (n - 1) + "0001"]:
            for o in (BIN + ["div", "mod"]) if a in ("0000" * n, "ffff" * n) or rng.random() < 0.5 else BIN:
                cases.append("%d self %s %s 3" % (k, o, a))
        for _ in range(N // 3 + 5):
            x = rng.choice([0, 1, 0xffff, 0x10000, 0xffffffff, 0x100000000, (1 << 64) - 1, 1 << 63, rng.randrange(1 << 64), rng.randrange(1 << 33)])
            cases.append("%d assign %x" % (k, x))
        for x in [-1, -2, -(1 << 31), -(1 << 61), 0, 1, 65535, 65536, (1 << 31) - 1, (1 << 61), rng.randrange(1 << 40), -rng.randrange(1, 1 << 40)]:
            cases.append("%d signed %d" % (k, x))
            if -(1 << 31) <= x < (1 << 31):
                cases.append("%d signed %d int" % (k, x))
            cases.append("%d signed %d cast" % (k, x))
        for x in [-128, -1, 0, 1, 127]:
            for ty in ["schar", "short", "long"]:
                cases.append("%d signed %d %s" % (k, x, ty))
        # mixed operations with a built-in unsigned on either side (free operator templates)
        for _ in range(N // 4 + 6):
            a = rval(n); u = rng.choice([0, 1, 2, 0xffff, 0x10000, 0xffffffff, (1 << 64) - 1, rng.randrange(1 << 64), rng.randrange(1 << 17)])
            for o in ["add", "sub", "mul"]:
                for side in ["mixl", "mixr"]:
                    cases.append("%d %s %s %s %x 0" % (k, side, o, a, u))
            # division with a small quotient on either side
            av = int(a, 16); w_ = 16 * n
            um = u % (1 << w_) if n < 4 else u
            for side, x, y in (("mixl", av, um), ("mixr", um, av)):
                q = (x // y) if y else 0
                if q <= 5000:
                    for o in ["div", "mod"]:
                        cases.append("%d %s %s %s %x %d" % (k, side, o, a, u, q + 2))
            for o in ["and", "or", "xor"]:
                cases.append("%d mixl %s %s %x 0" % (k, o, a, u))
        # mixed operations with a SIGNED built-in on either side (negative: to be rejected as in construction)
        for _ in range(N // 10 + 6):
            a = rval(n); y = rng.choice([-1, -2, -65536, -(1 << 31), -(1 << 61), -rng.randrange(1, 1 << 40), 0, 1, 65535, 65536,
                                          (1 << 31) - 1, 1 << 40, (1 << 61) + 5, rng.randrange(1 << 20)])
            av = int(a, 16)
            for side in ["mixsl", "mixsr"]:
                for o in ["add", "sub", "mul"]:
                    cases.append("%d %s %s %s %d 0 ll" % (k, side, o, a, y))
                    if -(1 << 31) <= y < (1 << 31):
                        cases.append("%d %s %s %s %d 0 int" % (k, side, o, a, y))
                yy = y % (1 << w) if y >= 0 else 0
                x_, y_ = (av, yy) if side == "mixsl" else (yy, av)
                q = (x_ // y_) if y_ else 0
                if y < 0:
                    # rejected after the fix; on the code as written the operand becomes 2^64+y: keep the loop short
                    yc = (y % (1 << 64)) % (1 << w)
                    x2, y2 = (av, yc) if side == "mixsl" else (yc, av)
                    q = (x2 // y2) if y2 else 0
                if q <= 5000:
                    for o in ["div", "mod"]:
                        cases.append("%d %s %s %s %d %d ll" % (k, side, o, a, y, q + 2))
        # object histories with aliasing, special members, built-in operand types, throwing steps (theorem C10_histories)
        for _ in range((60 if quick else 1500) if n <= 16 else (30 if quick else 300)):
            cases.append("%d prog %s" % (k, gen_prog(rng, n, steps=rng.choice([3, 8, 14]))))
        for a_ in ["0000" * n, "ffff" * n, rval(n)]:
            for o in BIN + ["div", "mod"]:          # every operator with all operands the same object, compound and binary
                cases.append("%d prog %s,%s C:%s:0:0,B:%s:1:1:1,Q:eq:0:1" % (k, a_, a_, o, o))
            cases.append("%d prog %s,%s %s" % (k, a_, a_, ",".join("Q:%s:0:0" % c for c in CMP) + ",A:0:0,M:1:1,S:0:0,S:0:1,K:1:1,X:0:0,Q:eq:0:1"))
        # the unsigned built-in types as constructor argument, as operand of the free operators
        for ty, bits in UT + [("char16", 16), ("implicit", 64)]:
            for x in [0, 1, (1 << bits) - 1, rng.randrange(1 << bits)]:
                cases.append("%d assign %x %s" % (k, x, ty))
                if ty not in ("char16", "implicit"):
                    a_ = rval(n)
                    for side in ["mixl", "mixr"]:
                        cases.append("%d %s %s %s %x 0 %s" % (k, side, rng.choice(["add", "sub", "mul"]), a_, x, ty))
        cases.append("%d layout" % k)
        for x in [-(1 << 63), (1 << 63) - 1, 5]:
            cases.append("%d signed %d" % (k, x))
        cases.append("%d signed 7 ptr" % k)
        if n <= 1:
            cases.append("%d div %s %s 65536" % (k, "ffff", "0001"))     # the longest division of the width: 65535 subtractions
            cases.append("%d mod %s %s 65536" % (k, "ffff", "0001"))
        for _ in range(8):
            cases.append("%d stream %s" % (k, rval(n)))
        for _ in range(3):
            cases.append("%d streamsb %s" % (k, rval(n)))
        cases += gen_stream_state(rng, k, n, quick)
        for _ in range(N // 5 + 5):
            cases.append("%d hash %s" % (k, rval(n)))
        for op in ["default", "limits", "consts"]:
            cases.append("%d %s" % (k, op))
        for op in ["max", "min", "digits"]:
            cases.append("%d %s" % (k, op))
    return cases


# 16-bit digits whose hex rendering has leading / embedded / trailing zero nibbles, letters, all-zero, all-f
PRINT_ALPHA = ["0000", "0001", "000f", "0010", "00ff", "0100", "0a0b", "0fff", "1000", "f000", "abcd", "ffff"]
ADJ = "lrinb"            # adjustfield: left, right, internal, no bit, left|right
BASES = "dohn"           # basefield: dec, oct, hex, no bit
FILLS = ["20", "30", "2a", "66", "31", "78"]      # ' ' '0' '*' 'f' '1' 'x'


def gen_stream_state(rng, k, n, quick):
    """print()/operator<< on streams in EVERY formatting state (theorem C10_print_state): case
    `k printst|streamst <value> <adj><base><sb><uc><sp><grp> <width> <fill>`.  Exhaustive over adjustfield x width class
    x fill x uppercase (the other flags drawn at random), a sweep over all 5*4*2*2*2*3 flag combinations at width 0 and at a
    width above 4n, and random states; values: digits with leading/embedded/trailing zero nibbles in every position."""
    out = []
    hexlen = 4 * n
    def pval():
        z = rng.random()
        if z < 0.75:
            return "".join(rng.choice(PRINT_ALPHA) for _ in range(n))
        return "".join("%04x" % rng.randrange(65536) for _ in range(n))
    first = [d + "".join(rng.choice(PRINT_ALPHA) for _ in range(n - 1)) for d in ("0001", "f000", "0000")]   # first hex digit zero / non-zero
    widths = [0, 1, 2, hexlen - 1, hexlen, hexlen + 1, hexlen + 5]
    def flags(adj, uc, base=None, sb=None, sp=None, grp=None):
        return "%s%s%d%d%d%d" % (adj, base if base is not None else rng.choice(BASES), sb if sb is not None else rng.randrange(2), uc,
                                 sp if sp is not None else rng.randrange(2), grp if grp is not None else rng.choice([0, 0, 1, 3]))
    i = 0
    for adj in ADJ:
        for w in widths:
            for fill in (FILLS[:3] if quick else FILLS):
                for uc in (0, 1):
                    i += 1
                    out.append("%d %s %s %s %d %s" % (k, "printst" if i % 2 else "streamst", first[i % 3] if i % 4 == 0 else pval(), flags(adj, uc), w, fill))
    for adj in ADJ:
        for base in BASES:
            for sb in (0, 1):
                for uc in (0, 1):
                    for sp in (0, 1):
                        for grp in (0, 1, 3):
                            i += 1
                            w = 0 if i % 3 else hexlen + 3
                            out.append("%d %s %s %s %d %s" % (k, "streamst" if i % 2 else "printst", pval(), flags(adj, uc, base, sb, sp, grp), w, rng.choice(FILLS)))
    for _ in range(40 if quick else 600):
        out.append("%d %s %s %s %d %s" % (k, rng.choice(["printst", "streamst"]), pval(), flags(rng.choice(ADJ), rng.randrange(2)),
                                          rng.choice(widths + [rng.randrange(2 * hexlen + 2)]), rng.choice(FILLS)))
    return out


ARITH = ["add", "sub", "mul", "div", "mod"]
UT = [("uc", 8), ("us", 16), ("u", 32), ("ul", 64), ("ull", 64), ("bool", 1)]
ST = [("sc", 8), ("s", 16), ("i", 32), ("l", 64), ("ll", 64)]


def gen_prog(rng, n, nreg=3, steps=12, qmax=2500):
    """One object history over nreg registers (instruction set of coq/C10_Model.v c10_instr), generated together with
    an exact-integer simulation that keeps every quotient below qmax (the code divides by repeated subtraction).
    Aliased operands (d == s, d == s == t) are drawn on purpose with high probability."""
    w = 16 * n; M = 1 << w
    def rdig():
        return rng.choice(ALPHA) if rng.random() < 0.6 else "%04x" % rng.randrange(65536)
    regs = []
    for _ in range(nreg):
        z = rng.random()
        regs.append(0 if z < 0.1 else int("".join(rdig() for _ in range(n)), 16) >> (rng.randrange(w) if z < 0.5 else 0))
    st = list(regs)
    fmt = "%0" + str(4 * n) + "x"
    toks = []
    def reg():
        return rng.randrange(nreg)
    def okdiv(x, y):
        return y == 0 or x // y <= qmax
    def apply(o, x, y):
        if o == "add": return (x + y) % M
        if o == "sub": return (x - y) % M
        if o == "mul": return (x * y) % M
        if o == "div": return None if y == 0 else x // y
        if o == "mod": return None if y == 0 else x % y
        if o == "and": return x & y
        if o == "or": return x | y
        return x ^ y
    for _ in range(steps):
        z = rng.random()
        d = reg(); s_ = d if rng.random() < 0.4 else reg(); t_ = rng.choice([d, s_, reg()])
        if z < 0.25:
            o = rng.choice(BIN + ["div", "mod", "div", "mod"])
            if o in ("div", "mod") and not okdiv(st[d], st[s_]):
                o = "sub"
            r = apply(o, st[d], st[s_]); toks.append("C:%s:%d:%d" % (o, d, s_))
            if r is not None: st[d] = r
        elif z < 0.45:
            o = rng.choice(BIN + ["div", "mod", "div", "mod"])
            if o in ("div", "mod") and not okdiv(st[s_], st[t_]):
                o = "xor"
            r = apply(o, st[s_], st[t_]); toks.append("B:%s:%d:%d:%d" % (o, d, s_, t_))
            if r is not None: st[d] = r
        elif z < 0.50:
            toks.append("I:%d" % d); st[d] = (st[d] + 1) % M
        elif z < 0.54:
            toks.append("N:%d:%d" % (d, s_)); st[d] = M - 1 - st[s_]
        elif z < 0.60:
            c = rng.choice([0, 1, 15, 16, 17, w - 1, w, w + 3, 2 * w + 5, rng.randrange(w)])
            toks.append("L:%d:%d:%d" % (d, s_, c)); st[d] = (st[s_] << c) % M
        elif z < 0.66:
            c = rng.choice([0, 1, 15, 16, 17, w - 1, w, w + 15, rng.randrange(w)])
            toks.append("R:%d:%d:%d" % (d, s_, c)); st[d] = st[s_] >> c
        elif z < 0.74:
            toks.append("%s:%d:%d" % (rng.choice("AMKX"), d, s_)); st[d] = st[s_]
        elif z < 0.78:
            toks.append("S:%d:%d" % (d, s_)); st[d], st[s_] = st[s_], st[d]
        elif z < 0.86:
            ty, bits = rng.choice(UT)
            u = rng.choice([0, 1, (1 << bits) - 1, rng.randrange(1 << bits), rng.randrange(1 << min(bits, 9))]) % (1 << bits)
            o = rng.choice(BIN + ["div", "mod"])
            if o in ("div", "mod") and not okdiv(st[d], u % M):
                o = "and"
            r = apply(o, st[d], u % M); toks.append("U:%s:%d:%x:%s" % (o, d, u, ty))
            if r is not None: st[d] = r
        elif z < 0.91:
            ty, bits = rng.choice(ST)
            lo, hi = -(1 << (bits - 1)), (1 << (bits - 1)) - 1
            y = rng.choice([lo, -1, 0, 1, hi, rng.randrange(lo, hi + 1), rng.randrange(0, min(hi, 600) + 1)])
            o = rng.choice(BIN + ["div", "mod"])
            if y >= 0 and o in ("div", "mod") and not okdiv(st[d], y % M):
                o = "or"
            toks.append("G:%s:%d:%d:%s" % (o, d, y, ty))
            if y >= 0:
                r = apply(o, st[d], y % M)
                if r is not None: st[d] = r
        elif z < 0.95:
            u = rng.choice([0, 1, (1 << 64) - 1, rng.randrange(1 << 64), rng.randrange(1 << 17)])
            o = rng.choice(ARITH)
            if o in ("div", "mod") and not okdiv(u % M, st[d]):
                o = "sub"
            r = apply(o, u % M, st[d]); toks.append("V:%s:%d:%x" % (o, d, u))
            if r is not None: st[d] = r
        else:
            c = rng.choice(CMP)
            q = rng.random()
            if q < 0.5:
                toks.append("Q:%s:%d:%d" % (c, d, s_))
            elif q < 0.8:
                toks.append("QU:%s:%d:%x" % (c, d, rng.choice([st[d] % (1 << 64), rng.randrange(1 << 64), 0])))
            else:
                toks.append("QR:%s:%d:%x" % (rng.choice(["eq", "ne"]), d, rng.choice([st[d] % (1 << 64), rng.randrange(1 << 64)])))
    return "%s %s" % (",".join(fmt % r for r in regs), ",".join(toks))


def oracle_line(case, impl, spec):
    """None if the spec accepts the impl's observation, else the reason."""
    t = case.split()
    if t[1] == "todouble":
        if not spec.startswith("VAL "):
            return "no spec value"
        v = int(spec[4:], 16)
        try:
            m, e = impl.split(); m = int(m); e = int(e)
        except Exception:
            return "todouble returned %r" % impl
        from fractions import Fraction
        d = Fraction(m) * (Fraction(2) ** e)
        if v == 0:
            return None if d == 0 else "todouble(0) = %s" % d
        rel = abs(d - v) / v
        return None if rel < Fraction(1, 2 ** 32) else "todouble relative error %.3g >= 2^-32 (value 0x%x, got %s*2^%s)" % (float(rel), v, m, e)
    if t[1] in ("mixsl", "mixsr") and int(t[4]) < 0:
        return None if impl == "EXC Exception" else ("negative built-in operand %s not rejected (direct construction rejects it): "
                                                     "result %s" % (t[4], impl))
    if t[1] == "prog" and impl.startswith("HANG"):
        return "a statement of the history does not return (the property demands: never looping); expected %s" % spec
    if t[1] == "self" and impl.startswith("HANG"):
        return "x %s= x does not return (the property demands: never looping); value semantics give %s" % (t[2], spec)
    if t[1] in ("printst", "streamst"):
        spec = spec.partition(" | ")[0]
        if impl == spec:
            return None
        it, _, ist = impl[1:].rpartition("] ")
        st, _, sst = spec[1:].rpartition("] ")
        if it != st:
            return ("printed text %r is not the hex rendering of the value in a field of the pending width, %r (adjustfield %s, width %s, fill 0x%s, flags %s)"
                    % (it, st, t[3][0], t[4], t[5], t[3]))
        return "stream state after the insertion is %r, expected %r (width consumed, decimal, all other flags unchanged)" % (ist, sst)
    if t[1] == "hash":
        return None          # the property fixes consistency only (hasheq); the bit-exact value is a model tie (corr)
    if t[1] == "hasheq":
        return None if impl == spec else "hash/equality inconsistent: %s" % impl
    return None if impl == spec else "impl result %s but exact arithmetic mod 2^w gives %s" % (impl, spec)


def sig_of(case):
    t = case.split()
    k, op = int(t[0]), t[1]
    extra = ""
    if op == "todouble":
        v = int(t[2], 16); extra = ":ge2^64" if v >= (1 << 64) else ":lt2^64"
    if op in ("mod", "div"):
        extra = ":zero-divisor" if int(t[3], 16) == 0 else ""
    if op == "touint":
        extra = ":n=1" if nd(k) == 1 else ""
    if op in ("mixsl", "mixsr"):
        return "C10:mixed-signed:%s" % ("negative" if int(t[4]) < 0 else "nonnegative")
    if op == "prog":
        return "C10:history"
    if op == "streamsb":
        return "C10:stream:showbase"
    if op == "self":
        return "C10:self-alias:%s" % t[2]
    if op in ("printst", "streamst"):
        return "C10:print-state:adjust=%s:%s" % ({"l": "left", "r": "right", "i": "internal"}.get(t[3][0], "other"), "width0" if t[4] == "0" else "width")
    return "C10:%s%s" % (op, extra)


def run(ctx):
    ctx.params_hook = params_hook
    V.coq_stage(ctx)
    model = V.build_model(ctx)
    impl, impl_san = V.cxx_many(ctx, [
        dict(srcs=[os.path.join(V.VERIF, "harness/C10/impl.cc")], out=ctx.path("impl"), opt="-O2", timeout=1800),
        dict(srcs=[os.path.join(V.VERIF, "harness/C10/impl.cc")], out=ctx.path("impl_san"), san=True, flags=["-DC10_SAN_SUBSET"], timeout=1800),
    ])
    cases = gen(ctx)
    ctx.log("generated %d cases" % len(cases))
    mo = V.run_cases(ctx, [model], cases, tag="model", timeout=600)
    io = V.run_cases(ctx, [impl], cases, tag="impl", timeout=30 if ctx.quick else 120)
    # sanitizer variant on a subsample (memory safety of touint etc.)
    SAN_KS = {"1", "8", "16", "17", "33", "64", "65", "128", "1024"}     # widths instantiated under -DC10_SAN_SUBSET
    sub = [i for i in range(0, len(cases), 5 if ctx.quick else 3) if cases[i].split()[0] in SAN_KS]
    so = V.run_cases(ctx, [impl_san], [cases[i] for i in sub], tag="san", timeout=120 if ctx.quick else 600)
    ndis = nviol = 0
    ops = {}
    persig = {}
    for i, (c, m, a) in enumerate(zip(cases, mo, io)):
        op = c.split()[1]; ops[op] = ops.get(op, 0) + 1
        mm, _, spec = m.partition(" | ")
        written = None
        if op in ("printst", "streamst"):        # third field: the model of print AS WRITTEN (theorem C10_print_width_refuted)
            spec, _, written = spec.partition(" | ")
        reason = oracle_line(c, a, spec)
        if reason is not None:
            nviol += 1
            sg = sig_of(c)
            if written is not None and a == written and c.split()[4] != "0":
                # exactly the behaviour of the code as written: the pending width pads the first hex digit alone (F-C10-7)
                sg = "C10:print-state:width-pads-first-digit"
            if op == "prog":      # WHAT fails in the history, from the impl's own observation
                sg += (":hang" if "HANG" in a else ":throwing-statement-modifies-object" if "modified by a throwing" in a
                       else ":returned-reference" if "does not return *this" in a else ":state")
            persig[sg] = persig.get(sg, 0) + 1
            # capped PER SIGNATURE: hits of a listed known finding must never crowd out a fresh violation
            if persig[sg] <= 25:
                ctx.violation(sg, {"case": c, "impl": a, "model": mm, "spec": spec, "oracle": reason,
                                          "replay_cmd": "bin/check C10 --replay <this file>"})
        elif a != mm and op != "todouble":
            ndis += 1
            ctx.violation("corr:C10/%s" % op, {"broken": "corr:C10/%s" % op, "case": c, "impl": a, "model": mm, "spec": spec,
                                                "oracle": "accepts impl output"}, found_input=False)
        elif op == "todouble" and a != mm:
            # impl within tolerance but not bit-identical to the model: drift, reported as broken correspondence
            ndis += 1
            ctx.violation("corr:C10/todouble", {"broken": "corr:C10/todouble", "case": c, "impl": a, "model": mm}, found_input=False)
        # the model itself must satisfy the spec (sanity of the theorem's reading)
        if mm != spec and op not in ("todouble", "hash") and mm != "OUTOFFUEL":   # (for printst/streamst spec is the first spec field)
            ctx.notes.append("model/spec mismatch on %s: %s vs %s" % (c, mm, spec))
    for j, i in enumerate(sub):
        if j < len(so) and so[j] != io[i]:
            ctx.violation(sig_of(cases[i]) + ":sanitizer", {"case": cases[i], "impl": io[i], "impl_sanitized_build": so[j],
                                                            "oracle": "ASan/UBSan build behaves differently or aborts"})
    distinct = len(set(c for c in cases if re.search(r"[1-9a-f]", " ".join(c.split()[2:]))))
    ctx.coverage.update({
        "evaluations": len(cases), "distinct_nontrivial": distinct,
        "rule": "cases = corpus + exhaustive pairs over digit alphabet {0000,0001,7fff,8000,fffe,ffff}^n for n<=2 (thorough: n<=3) x binary ops and comparisons "
                "+ seeded random operands for k in %s + all shift counts 0..w-1 and counts >= w + constructed divisions (quotient 0, exact multiples, remainder b-1, "
                "least sufficient fuel) + self-aliasing compound forms + signed/unsigned built-in operands on either side + hash values + all numeric_limits members "
                "+ compiled constants + object histories of 3/8/14 statements over three objects (operands aliased with probability 0.4, copy/move/swap, "
                "built-in operands of every integral type, throwing statements) + typed constructor arguments + print/operator<< under stream states (adjustfield x width class x fill x uppercase exhaustive, "
                "all flag combinations at width 0 and above 4n, random states); non-trivial = some operand digit non-zero; distinct = distinct case lines" % KS,
        "samples": cases[:2] + cases[len(cases) // 2: len(cases) // 2 + 2] + cases[-2:],
        "op_distribution": ops, "widths": KS, "impl_model_disagreements": ndis, "oracle_rejections": nviol,
        "sanitizer_cases": len(sub), "exhaustive": False,
        "traces_validated_against_impl": len(cases),
    })
    ctx.assumptions += ["std::hash<uint16_t> is the identity (libstdc++); hash_combiner<8> modelled bit-exactly and compared on every run", "std::ldexp exact for in-range exponents",
                        "operands are written into the C++ object through its object representation (n little-endian uint16 digits)"]


def replay(ctx, path):
    import json
    rep = json.load(open(path))
    case = rep["case"]
    model = V.build_model(ctx)
    impl = V.cxx(ctx, [os.path.join(V.VERIF, "harness/C10/impl.cc")], ctx.path("impl"), opt="-O2")
    mo = V.run_cases(ctx, [model], [case], tag="rmodel")
    io = V.run_cases(ctx, [impl], [case], tag="rimpl", timeout=20)
    mm, _, spec = mo[0].partition(" | ")
    if case.split()[1] in ("printst", "streamst"):
        spec, _, written = spec.partition(" | ")
        print("model of the code as written:", written)
    print("case  :", case); print("impl  :", io[0]); print("model :", mm); print("spec  :", spec)
    r = oracle_line(case, io[0], spec)
    print("oracle:", r or "accepts")
    return 1 if r else 0
