"""C11 — containers behave as their abstract sequence / map under every operation history (DESIGN.md section 4, C11).

Case grammar (one history per line):  <container> <param> <op> <op> ...
  al  N   pb:v er:k pg cl set:i:v hold:k                         Dune::ArrayList<int,N>
  sl  0   pb:i:v pf:i:v pop:i cl:i mins:i:k:v mrem:i:k mend:i:v iaft:i:k:v idel:i:k asg:i self:i cpy:i   two Dune::SLList<int>
  lru K   ins:k:v touch:k ins1:k popf popb rsz:n cl                     Dune::lru<int,int>, find() observed for keys 0..K-1
  rv  n   pb:i:v pop:i rsz:i:k cl:i set:i:j:v fill:i:v mk:i:c:v from:i:a,b,.. swap asg:i at:i:j            two Dune::ReservedVector<int,n>
  bv  bs  rsz:n:v cl sall uall set:i:j:v flip:i:j bset:i breset:i bflip:i abool:i:v abits:i:bits ablk:i:k
          and|or|xor:i:bits andb|orb|xorb:i:k shl:i:k shr:i:k    Dune::BitSetVector<bs>
Impl drivers and the extracted model print the observation after EVERY op (joined by ';'), so each case checks all
its prefixes.  Model driver line:  <model, code after proposed fixes> ## <spec oracle> ## <model of the snapshot code>.
"""
import os, sys, re, json, itertools
import vcheck as V

META = {
    "level": "proof",
    "technique": "Coq refinement proofs (executable models of ArrayList/SLList/lru/ReservedVector/BitSetVector refine list / association-list "
                 "specs for all operation histories) + extracted model vs ASan/UBSan C++ drivers on exhaustive short and boundary-directed long histories, spec oracle",
    "text": "Theorems in coq/Properties_C11.v (all closed under the global context): for EVERY operation history the literal models - ArrayList "
            "(chunk vector with start_/size_/capacity_ index arithmetic, any chunk size, held iterator), SLList at pointer level (heap of nodes, sentinel, "
            "tail_, modify iterators, copy/assignment/comparison), lru (node list + key index), ReservedVector (array + size_) - produce exactly "
            "(ReservedVector: match, unspecified values after a growing resize excepted) the observations of the abstract sequence / recency-ordered map; "
            "BitSetVector (flat vector<bool> + block proxies, every block size >= 1) refines the list of std::bitset blocks.  "
            "Three refutation theorems give Coq witnesses for the snapshot's purge / self-assignment / insert-present-key defects.  The models are tied to "
            "the headers on every run: the real containers (ASan+UBSan build of the working tree) and the extracted models execute the same histories and "
            "their observations after every operation are compared with the extracted spec oracle.",
    "note": "Trusted: Coq kernel, extraction, OCaml driver, C++ harness; std::list/map/vector<bool>/bitset/array/shared_ptr at their abstract semantics.",
    "design_ref": "DESIGN.md section 4 C11",
}

H = os.path.join(V.VERIF, "harness", "C11")
CONT = {"al": "arraylist", "sl": "sllist", "lru": "lru", "rv": "reserved", "bv": "bitset"}
NAME = {"al": "arraylist", "sl": "sllist", "lru": "lru", "rv": "reservedvector", "bv": "bitsetvector"}
SEP = " ## "
AL_N = [0, 1, 2, 3, 4, 5, 7, 10, 16, 100]
RV_N = [1, 2, 3, 4, 5, 8]
BV_BS = [1, 2, 3, 5, 8, 9]


# ----------------------------------------------------------------------------- generators
# Python mirrors of the ABSTRACT state only (sizes), used to emit histories that respect the documented
# preconditions and to aim at the models' case splits (chunk boundaries, empty lists, full vectors).

def al_ops(size, ctr, small):
    ops = [("pb:%d" % ctr, size + 1)]
    if size > 0:
        ks = sorted(set([0, size - 1] + ([size // 2] if not small else [])))
        ops += [("er:%d" % k, size - k - 1) for k in ks]
        ops += [("set:%d:%d" % (size - 1, ctr + 500), size), ("hold:%d" % (size - 1), size)]
        if not small and size > 1:
            ops += [("hold:0", size)]
    ops += [("pg", size), ("cl", 0)]
    return ops


def gen_exhaustive(opsfn, depth, state0, prefix):
    """all histories of exactly `depth` valid ops (every shorter valid history is a prefix of one of them)"""
    out = []
    def rec(state, hist, d, ctr):
        if d == 0:
            out.append(prefix + " " + " ".join(hist)); return
        for op, st in opsfn(state, ctr):
            rec(st, hist + [op], d - 1, ctr + 1)
    rec(state0, [], depth, 1)
    return out


def al_random(rng, N, length):
    cs = max(N, 1)
    start = size = cap = 0
    hist, ctr = [], 1
    phase = "grow"
    for _ in range(length):
        z = rng.random()
        if phase == "grow":
            w = {"pb": 8, "er": 1, "pg": 0.5, "set": 0.7, "hold": 0.5, "cl": 0.05}
        elif phase == "erase":
            w = {"pb": 2, "er": 4, "pg": 3, "set": 0.5, "hold": 0.5, "cl": 0.1}
        else:
            w = {"pb": 4, "er": 2, "pg": 2, "set": 0.5, "hold": 0.5, "cl": 0.3}
        if size == 0:
            for k in ("er", "set", "hold"): w[k] = 0
        op = rng.choices(list(w), weights=list(w.values()))[0]
        if op == "pb":
            hist.append("pb:%d" % ctr); ctr += 1
            if start + size == cap: cap += cs
            size += 1
        elif op == "er":
            # aim the new start_ at chunk boundaries
            cands = [k for k in range(size) if (start + k + 1) % cs in (0, 1, cs - 1)] or list(range(size))
            k = rng.choice(cands) if rng.random() < 0.7 else rng.randrange(size)
            if rng.random() < 0.15: k = size - 1
            hist.append("er:%d" % k); start += k + 1; size -= k + 1
            if rng.random() < 0.5:
                hist.append("pg")
                d = start // cs; start %= cs; cap -= d * cs
                if rng.random() < 0.7:
                    for _ in range(rng.randrange(1, 2 * cs + 2)):
                        hist.append("pb:%d" % ctr); ctr += 1
                        if start + size == cap: cap += cs
                        size += 1
        elif op == "pg":
            hist.append("pg"); d = start // cs; start %= cs; cap -= d * cs
        elif op == "set":
            hist.append("set:%d:%d" % (rng.randrange(size), ctr + 500)); ctr += 1
        elif op == "hold":
            hist.append("hold:%d" % rng.randrange(size))
        else:
            hist.append("cl"); start = size = cap = 0
        if rng.random() < 0.08:
            phase = rng.choice(["grow", "erase", "mixed"])
    return "al %d " % N + " ".join(hist)


def sl_ops(state, ctr, small=True, lists=(0, 1)):
    sz = list(state)
    ops = []
    for i in lists:
        n = sz[i]
        def st(m):
            s = list(sz); s[i] = m; return tuple(s)
        ops += [("pb:%d:%d" % (i, ctr), st(n + 1))]
        if i == 0 or not small:
            ops += [("pf:%d:%d" % (i, ctr), st(n + 1)), ("cl:%d" % i, st(0)), ("mend:%d:%d" % (i, ctr), st(n + 1))]
            ops += [("mins:%d:%d:%d" % (i, k, ctr), st(n + 1)) for k in sorted(set([0, n // 2, n]))]
            if n > 0:
                ops += [("pop:%d" % i, st(n - 1))]
                ops += [("mrem:%d:%d" % (i, k), st(n - 1)) for k in sorted(set([0, n - 1]))]
                ops += [("iaft:%d:%d:%d" % (i, k, ctr), st(n + 1)) for k in sorted(set([0, n - 1]))]
            if n > 1:
                ops += [("idel:%d:%d" % (i, k), st(n - 1)) for k in sorted(set([0, n - 2]))]
            ops += [("self:%d" % i, st(n))]
    ops += [("asg:0", (sz[1], sz[1])), ("asg:1", (sz[0], sz[0])), ("cpy:0", (sz[0], sz[0]))]
    return ops


def sl_random(rng, length):
    sz = [0, 0]; hist = []; ctr = 1
    for _ in range(length):
        i = 0 if rng.random() < 0.7 else 1
        n = sz[i]
        w = {"pb": 4, "pf": 3, "mend": 1.5, "mins": 3, "cl": 0.15, "asg": 0.4, "self": 0.4, "cpy": 0.3}
        if n > 0: w.update({"pop": 1.5, "mrem": 3, "iaft": 2})
        if n > 1: w["idel"] = 2
        if n > 6: w.update({"pop": 4, "mrem": 5, "idel": 3, "pb": 2, "pf": 1})
        op = rng.choices(list(w), weights=list(w.values()))[0]
        v = ctr if rng.random() < 0.8 else rng.randrange(3); ctr += 1
        def pick(hi):       # positions biased to the ends (head / tail maintenance)
            return rng.choice([0, hi, hi, rng.randrange(hi + 1)])
        if op in ("pb", "pf", "mend"): hist.append("%s:%d:%d" % (op, i, v)); sz[i] += 1
        elif op == "mins": hist.append("mins:%d:%d:%d" % (i, pick(n), v)); sz[i] += 1
        elif op == "pop": hist.append("pop:%d" % i); sz[i] -= 1
        elif op == "mrem": hist.append("mrem:%d:%d" % (i, pick(n - 1))); sz[i] -= 1
        elif op == "iaft": hist.append("iaft:%d:%d:%d" % (i, pick(n - 1), v)); sz[i] += 1
        elif op == "idel": hist.append("idel:%d:%d" % (i, pick(n - 2))); sz[i] -= 1
        elif op == "cl": hist.append("cl:%d" % i); sz[i] = 0
        elif op == "asg": hist.append("asg:%d" % i); sz[i] = sz[1 - i]
        elif op == "self": hist.append("self:%d" % i)
        elif op == "cpy": hist.append("cpy:%d" % i); sz[1 - i] = sz[i]
    return "sl 0 " + " ".join(hist)


def lru_ops(nk):
    def f(state, ctr):
        # state: number of distinct keys present is not enough for pop preconditions with the snapshot's duplicate
        # nodes, so the abstract state is the spec's key list (recency order)
        keys = list(state)
        ops = []
        for k in range(nk):
            ops.append(("ins:%d:%d" % (k, ctr), tuple([k] + [x for x in keys if x != k])))
            ops.append(("%s:%d" % (("touch", "ins1")[ctr % 2], k), tuple([k] + [x for x in keys if x != k]) if k in keys else tuple(keys)))
        if keys:
            ops += [("popf", tuple(keys[1:])), ("popb", tuple(keys[:-1]))]
            ops += [("rsz:%d" % (len(keys) - 1), tuple(keys[:-1]))]
        ops += [("rsz:%d" % len(keys), tuple(keys)), ("cl", ())]
        return ops
    return f


def lru_random(rng, nk, length):
    keys = []; hist = []; ctr = 1
    for _ in range(length):
        w = {"ins": 5, "touch": 3, "cl": 0.1}
        if keys: w.update({"popf": 1, "popb": 1.5, "rsz": 0.7})
        op = rng.choices(list(w), weights=list(w.values()))[0]
        if op == "ins":
            k = rng.choice(keys) if keys and rng.random() < 0.4 else rng.randrange(nk)
            hist.append("ins:%d:%d" % (k, ctr)); ctr += 1; keys = [k] + [x for x in keys if x != k]
        elif op == "touch":
            k = rng.choice(keys) if keys and rng.random() < 0.8 else rng.randrange(nk + 1)
            hist.append("%s:%d" % ("touch" if rng.random() < 0.6 else "ins1", k))
            if k in keys: keys = [k] + [x for x in keys if x != k]
        elif op == "popf": hist.append("popf"); keys = keys[1:]
        elif op == "popb": hist.append("popb"); keys = keys[:-1]
        elif op == "rsz":
            n = rng.randrange(len(keys) + 1); hist.append("rsz:%d" % n); keys = keys[:n]
        else: hist.append("cl"); keys = []
    return "lru %d " % nk + " ".join(hist)


def rv_ops(n):
    def f(state, ctr):
        sz = list(state); ops = []
        for i in (0, 1):
            m = sz[i]
            def st(k):
                s = list(sz); s[i] = k; return tuple(s)
            if m < n: ops.append(("%s:%d:%d" % (("pb", "pbm", "eb")[ctr % 3], i, ctr % 3), st(m + 1)))
            if i == 0:
                ops.append(("pop:0", st(max(m - 1, 0))))
                ops += [("rsz:0:%d" % k, st(k)) for k in sorted(set([0, max(m - 1, 0), min(m + 1, n), n]))]
                ops.append(("cl:0", st(0)))
                if m > 0: ops += [("set:0:%d:%d" % (m - 1, ctr % 3), st(m)), ("fill:0:%d" % (ctr % 3), st(m))]
                ops.append(("mk:0:%d:%d" % (min(2, n), ctr % 3), st(min(2, n))))
                ops.append(("at:0:%d" % m, st(m)))
                if m > 0: ops.append(("at:0:%d" % (m - 1), st(m)))
        ops += [("swap", (sz[1], sz[0])), ("asg:0", (sz[1], sz[1])), ("asg:1", (sz[0], sz[0]))]
        return ops
    return f


def rv_random(rng, n, length):
    sz = [0, 0]; hist = []
    for _ in range(length):
        i = rng.randrange(2); m = sz[i]
        w = {"pop": 1.5, "rsz": 1.5, "cl": 0.3, "mk": 0.5, "from": 0.5, "swap": 0.4, "asg": 0.5, "at": 1.5}
        if m < n: w["pb"] = 5
        if m > 0: w.update({"set": 2, "fill": 0.5})
        op = rng.choices(list(w), weights=list(w.values()))[0]
        v = rng.randrange(4)
        if op == "pb": hist.append("%s:%d:%d" % (rng.choice(["pb", "pbm", "eb"]), i, v)); sz[i] += 1
        elif op == "pop": hist.append("pop:%d" % i); sz[i] = max(m - 1, 0)
        elif op == "rsz":
            k = rng.choice([0, n, max(m - 1, 0), min(m + 1, n), rng.randrange(n + 1)]); hist.append("rsz:%d:%d" % (i, k)); sz[i] = k
        elif op == "cl": hist.append("cl:%d" % i); sz[i] = 0
        elif op == "set": hist.append("set:%d:%d:%d" % (i, rng.randrange(m), v))
        elif op == "fill": hist.append("fill:%d:%d" % (i, v))
        elif op == "mk":
            c = rng.randrange(n + 1); sz[i] = c
            hist.append("mk:%d:%d:%d" % (i, c, v) if rng.random() < 0.7 else "mkd:%d:%d" % (i, c))
        elif op == "from":
            c = rng.randrange(n + 1)
            if rng.random() < 0.3: c = min(c, 3); hist.append("il:%d:%d" % (i, c))
            else: hist.append("from:%d:%s" % (i, ",".join(str(rng.randrange(4)) for _ in range(c))))
            sz[i] = c
        elif op == "swap": hist.append("swap"); sz = [sz[1], sz[0]]
        elif op == "asg": hist.append("asg:%d" % i); sz[i] = sz[1 - i]
        elif op == "at": hist.append("at:%d:%d" % (i, rng.choice([0, m, max(m - 1, 0), n, n + 3, rng.randrange(n + 2)])))
    return "rv %d " % n + " ".join(hist)


def bv_ops(bs):
    pats = sorted(set(["1" * bs, "0" * bs, ("10" * bs)[:bs], ("01" * bs)[:bs]]))
    def f(n, ctr):
        ops = [("rsz:%d:%d" % (k, v), k) for k in sorted(set([0, max(n - 1, 0), n + 1])) for v in (0, 1)]
        ops += [("cl", 0), ("sall", n), ("uall", n)]
        if n > 0:
            i = n - 1
            ops += [("%s:%d:%d:1" % (("set", "sidx")[ctr % 2], i, bs - 1), n), ("flip:%d:0" % i, n), ("bflip:%d" % i, n), ("abits:%d:%s" % (i, pats[ctr % len(pats)]), n),
                    ("shl:%d:1" % i, n), ("shr:%d:1" % i, n), ("xor:%d:%s" % (i, pats[(ctr + 1) % len(pats)]), n)]
            if n > 1:
                ops += [("%s:0:%d" % (("ablk", "ablkc")[ctr % 2], i), n), ("orb:%d:0" % i, n), ("andb:0:%d" % i, n)]
        return ops
    return f


def bv_random(rng, bs, length):
    n = 0; hist = []
    def bits(): return "".join(rng.choice("01") for _ in range(bs))
    for _ in range(length):
        w = {"rsz": 1.2, "cl": 0.1, "sall": 0.2, "uall": 0.2}
        if n > 0:
            w.update({"set": 3, "flip": 2, "bset": 0.5, "breset": 0.5, "bflip": 1, "abool": 0.5, "abits": 2, "ablk": 1, "and": 1, "or": 1, "xor": 1,
                      "andb": 0.7, "orb": 0.7, "xorb": 0.7, "shl": 1.5, "shr": 1.5})
        op = rng.choices(list(w), weights=list(w.values()))[0]
        i = rng.randrange(n) if n else 0
        if op == "rsz": k = rng.choice([0, n + 1, n + 2, max(n - 1, 0), rng.randrange(6)]); hist.append("rsz:%d:%d" % (k, rng.randrange(2))); n = k
        elif op in ("cl",): hist.append("cl"); n = 0
        elif op in ("sall", "uall"): hist.append(op)
        elif op == "set":
            z = rng.random(); j = rng.randrange(bs)
            hist.append("set:%d:%d:%d" % (i, j, rng.randrange(2)) if z < 0.5 else "sidx:%d:%d:%d" % (i, j, rng.randrange(2)) if z < 0.8 else "rbit:%d:%d" % (i, j))
        elif op == "flip": hist.append("flip:%d:%d" % (i, rng.randrange(bs)))
        elif op in ("bset", "breset", "bflip"): hist.append("%s:%d" % (op, i))
        elif op == "abool": hist.append("abool:%d:%d" % (i, rng.randrange(2)))
        elif op in ("abits", "and", "or", "xor"): hist.append("%s:%d:%s" % (op, i, bits()))
        elif op in ("ablk", "andb", "orb", "xorb"):
            if op == "ablk" and rng.random() < 0.4: op = "ablkc"
            hist.append("%s:%d:%d" % (op, i, rng.randrange(n)))
        elif op in ("shl", "shr"): hist.append("%s:%d:%d" % (op, i, rng.choice([0, 1, bs - 1, bs, bs + 1, 1000, rng.randrange(bs + 2)])))
    return "bv %d " % bs + " ".join(hist)


# ----------------------------------------------------------------------------- cross-cutting variation (audit dimensions 1-6)
# A generated history is replayed on a tiny abstract simulator (plain Python lists = the spec) so that operations can be rewritten into
# forms whose ARGUMENT ALIASES THE RECEIVER (an element / key / value of the container itself; the token carries the value the spec
# reads before the write), copies, self-swap / self-assignment, the other object as receiver, default-argument spellings, and the
# instance-tracking element type (param + 1000, for SLList param 2).  Abstractly these are the same operations.

INT_MIN, INT_MAX = -2**31, 2**31 - 1
EXTREME = [INT_MIN, INT_MAX, -1, INT_MIN + 1, INT_MAX - 1, 0]


def xval(rng, v, p=0.12):
    """MAGNITUDE / SIGN (audit 2, kind D): element and mapped values at the extremes of int and negative instead of small positive ones"""
    z = rng.random()
    return rng.choice(EXTREME) if z < p else -v if z < 1.5 * p else v


def al_target(rng, cs):
    """PRE-EXISTING STATE (audit 2, kind A): shape of an assignment target: m elements, eraseToHere at k (-1: none), purge flag; aimed at chunk boundaries"""
    m = rng.choice([0, 1, cs, cs + 1, 2 * cs, 2 * cs + 1, 3 * cs + 2, rng.randrange(3 * cs + 3)])
    k = rng.choice([-1, m - 1, cs - 1, cs, 2 * cs - 1, rng.randrange(-1, max(m, 1))])
    if k >= m: k = m - 1
    return "%d:%d:%d" % (m, k, rng.randrange(2))


def vary_al(rng, case):
    t = case.split(); N = int(t[1]); l = []; out = []
    for op in t[2:]:
        a = op.split(":")
        if a[0] == "pb":
            if l and rng.random() < 0.2:
                i = rng.randrange(len(l)); op = "pba:%d:%d" % (i, l[i]); l.append(l[i])
            else:
                v = xval(rng, int(a[1])); op = "pb:%d" % v; l.append(v)
        elif a[0] == "er": l = l[int(a[1]) + 1:]
        elif a[0] == "cl": l = []
        elif a[0] == "set":
            i = int(a[1])
            if len(l) > 1 and rng.random() < 0.4:
                j = rng.randrange(len(l)); op = "seta:%d:%d:%d" % (i, j, l[j]); l[i] = l[j]
            else: l[i] = int(a[2])
        out.append(op)
        if rng.random() < 0.06: out.append(rng.choice(["cpy", "cpyd", "cpya"]))
        if rng.random() < 0.07: out.append(rng.choice(["asgo:", "asgo:", "asgm:"]) + al_target(rng, max(N, 1)))
    if N in (0, 1, 2, 3, 7) and rng.random() < 0.35: N += 1000
    return "al %d " % N + " ".join(out)


def vary_sl(rng, case):
    t = case.split(); L = [[], []]; out = []
    for op in t[2:]:
        a = op.split(":"); i = int(a[1]) if len(a) > 1 else 0; l = L[i]
        if a[0] in ("pb", "pf", "mend"):
            v = xval(rng, int(a[2])); op = "%s:%d:%d" % (a[0], i, v)
            if a[0] != "mend" and l and rng.random() < 0.25:
                k = rng.randrange(len(l)); v = l[k]; op = "%se:%d:%d:%d" % (a[0], i, k, v)
            if a[0] == "pf": l.insert(0, v)
            else: l.append(v)
        elif a[0] == "pop": l.pop(0)
        elif a[0] == "cl": L[i] = []
        elif a[0] == "mins":
            pos, v = int(a[2]), int(a[3])
            if l and rng.random() < 0.3:
                k = rng.randrange(len(l)); v = l[k]; op = "minse:%d:%d:%d:%d" % (i, pos, k, v)
            l.insert(pos, v)
        elif a[0] == "mrem": l.pop(int(a[2]))
        elif a[0] == "iaft": l.insert(int(a[2]) + 1, int(a[3]))
        elif a[0] == "idel": l.pop(int(a[2]) + 1)
        elif a[0] == "asg": L[i] = list(L[1 - i])
        elif a[0] == "cpy": L[1 - i] = list(L[i])
        out.append(op)
    return "sl %d " % (2 if rng.random() < 0.35 else 0) + " ".join(out)


def vary_rv(rng, case):
    t = case.split(); n = int(t[1]); V = [[], []]; out = []
    for op in t[2:]:
        a = op.split(":"); i = int(a[1]) if len(a) > 1 and a[0] != "swap" else 0; v = V[i]
        if a[0] in ("pb", "pbm", "eb"):
            x = xval(rng, int(a[2]), 0.3); op = "%s:%d:%d" % (a[0], i, x); known = [k for k, e in enumerate(v) if e is not None]
            if known and rng.random() < 0.25:
                k = rng.choice(known); x = v[k]; op = "%s:%d:%d:%d" % (rng.choice(["pbe", "ebe"]), i, k, x)
            v.append(x)
        elif a[0] == "pop":
            if v: v.pop()
        elif a[0] == "rsz":
            k = int(a[2]); V[i] = v[:k] + [None] * (k - len(v))
        elif a[0] == "cl": V[i] = []
        elif a[0] == "set":
            x = xval(rng, int(a[3]), 0.3); op = "set:%d:%s:%d" % (i, a[2], x); v[int(a[2])] = x
        elif a[0] == "fill":
            x = xval(rng, int(a[2]), 0.3); op = "fill:%d:%d" % (i, x); known = [k for k, e in enumerate(v) if e is not None]
            if known and rng.random() < 0.5:
                k = rng.choice(known); x = v[k]; op = "fille:%d:%d:%d" % (i, k, x)
            V[i] = [x] * len(v)
        elif a[0] == "mk":
            x = xval(rng, int(a[3]), 0.3); op = "mk:%d:%s:%d" % (i, a[2], x); V[i] = [x] * int(a[2])
        elif a[0] == "mkd": V[i] = [0] * int(a[2])
        elif a[0] == "from": V[i] = [int(x) for x in a[2].split(",")] if len(a) > 2 and a[2] else []
        elif a[0] == "il": V[i] = list(range(1, int(a[2]) + 1))
        elif a[0] == "swap":
            V = [V[1], V[0]]
            if rng.random() < 0.5: op = "swapr:%d" % rng.randrange(2)
        elif a[0] == "asg": V[i] = list(V[1 - i])
        out.append(op)
        if rng.random() < 0.08:
            j = rng.randrange(2); out.append("%s:%d:%d" % (rng.choice(["swaps", "asgs", "cpyc"]), j, len(V[j])))
        if rng.random() < 0.06: out.append("atbig:%d:%d" % (rng.randrange(2), rng.randrange(6)))     # indices 2^31 .. SIZE_MAX (kind C/D)
    if n in (1, 2, 3, 5) and rng.random() < 0.35: n += 1000
    return "rv %d " % n + " ".join(out)


def lru_target(rng, nk, l):
    """PRE-EXISTING STATE (kind A): entries of an assignment target: observed keys (so that a surviving entry is seen by find), overlapping the
    source's keys with other values, in another order, with repeats, usually MORE entries than the source holds"""
    cnt = rng.choice([0, 1, nk, nk + 1, len(l) + 1, rng.randrange(2 * nk + 2)])
    keys = [rng.randrange(nk + 1) for _ in range(cnt)]
    return ",".join("%d=%d" % (k, 9000 + j) for j, k in enumerate(keys))


def vary_lru(rng, case):
    t = case.split(); nk = int(t[1]); l = []; out = []       # l: recency list of [key, value]
    def front(k, v): 
        nonlocal l
        l = [[k, v]] + [e for e in l if e[0] != k]
    for op in t[2:]:
        a = op.split(":")
        if a[0] == "ins":
            k, v = int(a[1]), xval(rng, int(a[2])); op = "ins:%d:%d" % (k, v)
            if l and rng.random() < 0.25:
                k2, v = rng.choice(l); op = "insa:%d:%d:%d" % (k, k2, v)
            front(k, v)
        elif a[0] in ("touch", "ins1"):
            k = int(a[1]); hit = [e for e in l if e[0] == k]
            if hit:
                if rng.random() < 0.4: op = "toucha:%d" % k
                front(k, hit[0][1])
        elif a[0] == "popf": l = l[1:]
        elif a[0] == "popb": l = l[:-1]
        elif a[0] == "rsz": l = l[:int(a[1])]
        elif a[0] == "cl": l = []
        out.append(op)
        if rng.random() < 0.06: out.append(rng.choice(["cpy", "cpyd", "cpya"]))
        if rng.random() < 0.08: out.append("asgo:" + lru_target(rng, nk, l))
    if rng.random() < 0.35: nk += 1000
    return "lru %d " % nk + " ".join(out)


def vary_bv(rng, case):
    t = case.split(); out = []; bs = int(t[1]); n = 0
    for op in t[2:]:
        a = op.split(":")
        if a[0] == "rsz": n = int(a[1])
        elif a[0] == "cl": n = 0
        if a[0] == "rsz" and a[2] == "0" and rng.random() < 0.5: op = "rszd:%s" % a[1]
        elif a[0] == "set" and rng.random() < 0.4:               # MAGNITUDE: set(n, val) with val outside {0, 1}
            op = "setv:%s:%s:%d" % (a[1], a[2], 0 if a[3] == "0" else rng.choice([2, -1, 256, INT_MIN, INT_MAX, 4, -2, 65536]))
        elif a[0] == "set" and a[3] == "1" and rng.random() < 0.5: op = "set1:%s:%s" % (a[1], a[2])
        elif a[0] in ("abits", "and", "or", "xor") and rng.random() < 0.4:   # TWO PARTICIPANTS: the operand block lives in another vector of another size
            m = rng.choice([1, 2, n + 1, max(n - 1, 1), 7]); k = rng.randrange(m)
            tok = {"abits": rng.choice(["xblk", "xblkc"]), "and": "xand", "or": "xior", "xor": "xxor"}[a[0]]
            op = "%s:%s:%s:%d:%d" % (tok, a[1], a[2], m, k)
        elif a[0] in ("shl", "shr") and int(a[2]) >= bs and rng.random() < 0.7:   # MAGNITUDE: counts 2^31, 2^31+1, 2^32, 2^63, SIZE_MAX
            op = "%sb:%s:%d" % (a[0], a[1], rng.randrange(5))
        out.append(op)
        if rng.random() < 0.06:                                  # PRE-EXISTING STATE: whole-vector assignment onto vectors of other sizes / contents
            out.append("asgo:%d:%d:%d" % (rng.choice([0, 1, n + 1, max(n - 1, 0), 2 * n + 3]), rng.randrange(2), n))
    return " ".join(t[:2] + out)


VARY = {"al": vary_al, "sl": vary_sl, "rv": vary_rv, "lru": vary_lru, "bv": vary_bv}


def audit2_directed(rng):
    """dimension audit 2: small deterministic families for the new ops (assignment onto every small target shape, extremes, big indices / counts)"""
    out = []
    for N in (1, 2, 3):                                  # ArrayList: every target shape up to three chunks x sources with start_ != 0
        for m in range(0, 3 * N + 2):
            for k in range(-1, m):
                for p in (0, 1):
                    for tok in ("asgo", "asgm"):
                        if tok == "asgm" and (m + k + p) % 3: continue
                        out.append("al %d pb:1 pb:2 pb:3 pb:4 er:%d %s:%d:%d:%d pb:5 pb:6 set:0:9 er:0 pg pb:7 hold:0 pb:8" % (N, (m + p) % 2, tok, m, k, p))
    out.append("al 2 asgo:5:2:0 pb:1 pb:2 pb:3")            # empty source onto a non-empty target
    out.append("al 1002 pb:1 pb:2 pb:3 er:0 asgo:5:3:0 pb:4 asgm:4:1:1 pb:5 cl pb:6")
    for nk in (2, 3):                                    # lru: every target over <= 3 entries of the observed keys (+ one unobserved key)
        keys = list(range(nk + 1))
        for cnt in range(0, 4):
            for ks in itertools.product(keys, repeat=cnt):
                pre = ",".join("%d=%d" % (k, 90 + j) for j, k in enumerate(ks))
                out.append("lru %d ins:0:5 ins:1:6 asgo:%s touch:%d ins:%d:8 popb touch:0 ins1:1" % (nk, pre, nk - 1, nk - 1))
    out.append("lru 3 asgo:0=1,1=2,2=3 ins:1:4 touch:0")    # empty source onto a full target
    out.append("lru 1003 ins:0:5 ins:1:6 ins:2:7 popb asgo:2=1,0=2,1=3,2=4 touch:2 ins:2:%d popf" % INT_MIN)
    for bs in (1, 3, 8):
        z = "0" * bs; o = "1" * bs; alt = ("10" * bs)[:bs]
        out.append("bv %d rsz:2:0 setv:0:0:2 setv:1:%d:-1 setv:0:0:0 setv:1:0:%d setv:1:0:256 setv:0:%d:%d asgo:0:0:2 asgo:5:1:2 rsz:3:1 asgo:1:1:3 xblk:0:%s:4:3 xblkc:1:%s:1:0 xand:2:%s:3:1 xior:0:%s:2:1 xxor:1:%s:5:4 shlb:2:0 shrb:1:3 bset:0 shlb:0:4 bset:0 shrb:0:1"
                   % (bs, bs - 1, INT_MIN, bs - 1, INT_MAX, alt, o, alt, alt, o))
    for n in (1, 2, 3):
        out.append("rv %d pb:0:%d atbig:0:0 atbig:0:1 atbig:0:2 atbig:0:3 atbig:1:4 atbig:0:5 pop:0 atbig:0:3 pb:1:%d pb:0:-1 asg:0" % (n, INT_MIN, INT_MAX))
        out.append("rv %d mk:0:%d:%d mk:1:%d:%d set:1:0:%d from:0:%s swap asg:1" % (n, n, INT_MAX, n, INT_MIN, INT_MAX, ",".join(str(x) for x in [INT_MIN, -1, INT_MAX][:n])))
    out.append("sl 0 pb:0:%d pf:0:%d pb:1:%d mins:0:1:-1 asg:1 cpy:0 mrem:0:0" % (INT_MIN, INT_MAX, INT_MIN))
    return out


def gen(ctx):
    q = ctx.quick
    cases = []
    cp = os.path.join(V.VERIF, "corpus", "C11", "cases.txt")
    if os.path.exists(cp):
        cases += [l.strip() for l in open(cp) if l.strip() and not l.startswith("#")]
    ncorpus = len(cases)
    # exhaustive short histories
    for N, d in ([(1, 6), (2, 6), (3, 5)] if q else [(1, 7), (2, 7), (3, 7), (4, 6), (0, 5)]):
        cases += gen_exhaustive(lambda s, c: al_ops(s, c, True), d, 0, "al %d" % N)
    cases += gen_exhaustive(lambda s, c: sl_ops(s, c, True), 3 if q else 4, (0, 0), "sl 0")
    cases += gen_exhaustive(lambda s, c: sl_ops(s, c, True, lists=(0,)), 4 if q else 5, (0, 0), "sl 0")
    cases += gen_exhaustive(lru_ops(2), 5 if q else 6, (), "lru 2")
    cases += gen_exhaustive(lru_ops(3), 4 if q else 5, (), "lru 3")
    for n in ([2, 3] if q else [1, 2, 3]):
        cases += gen_exhaustive(rv_ops(n), 3 if q else 4, (0, 0), "rv %d" % n)
    for bs in ([1, 3] if q else [1, 2, 3, 8]):
        cases += gen_exhaustive(bv_ops(bs), 3 if q else 4, 0, "bv %d" % bs)
    nexh = len(cases) - ncorpus
    # boundary-directed random walks
    rng = ctx.rng("gen")
    R = 1 if q else 8
    dn = param("c11_param_al_default_N", 100)          # ArrayList<int> with its default chunk size (driver uses the default template argument)
    for N in sorted(set([n for n in AL_N if n <= 16] + [dn])):
        for j in range(25 * R):
            cases.append(al_random(rng, N, rng.choice([20, 60, 200])))
    for j in range(250 * R):
        cases.append(sl_random(rng, rng.choice([10, 40, 100])))
    for nk in (2, 3, 5):
        for j in range(80 * R):
            cases.append(lru_random(rng, nk, rng.choice([10, 40, 100])))
    for n in RV_N:
        for j in range(30 * R):
            cases.append(rv_random(rng, n, rng.choice([10, 40, 100])))
    for bs in BV_BS:
        for j in range(30 * R):
            cases.append(bv_random(rng, bs, rng.choice([10, 40, 100])))
    # every random walk additionally in its varied form (aliasing arguments, copies, roles, defaults, element-type family)
    vr = ctx.rng("vary")
    base = cases[ncorpus + nexh:]
    cases += [VARY[c.split(" ", 1)[0]](vr, c) for c in base]
    cases += audit2_directed(vr)
    for bs in (64, 65):                                  # word boundaries of std::bitset / vector<bool>
        for j in range(6 * R):
            cases.append(vary_bv(vr, bv_random(rng, bs, rng.choice([10, 40]))))
    for j in range(10 * R):                              # capacity 0
        cases.append(rv_random(rng, 0, rng.choice([5, 20])))
    # rejection stream: push_back / emplace_back on an exactly full ReservedVector (documented precondition size() < n; the driver is
    # built with CHECK_RESERVEDVECTOR, so the real code must refuse by assert; the model must report UB, the spec a violated precondition)
    for n in RV_N:
        for form in ("pb", "pbm", "eb"):
            for i in (0, 1):
                cases.append("rv %d " % n + " ".join("pb:%d:%d" % (i, k) for k in range(n)) + " %s:%d:9" % (form, i))
                cases.append("rv %d mk:%d:%d:7 %s:%d:9" % (n, i, n, form, i))
                cases.append("rv %d rsz:%d:%d pop:%d pb:%d:1 %s:%d:9" % (n, i, n, i, i, form, i))
        for j in range(6 * R):
            h = rv_random(rng, n, rng.choice([5, 20])).split()
            # replay sizes to find the final size of vector 0, then fill it and push once more
            cases.append(" ".join(h) + " rsz:0:%d %s:0:5" % (n, rng.choice(["pb", "pbm", "eb"])))
    return cases, ncorpus, nexh


# ----------------------------------------------------------------------------- build / run

def probes(ctx):
    """compile-only probes of the public interface with default template arguments; returns dict name -> (ok, log)"""
    res = {}
    for name in ("probe_sllist", "probe_lru", "probe_lru_cfind", "probe_lru_cback"):
        cmd = ["g++", "-std=gnu++20", "-fsyntax-only", "-w", "-DHAVE_CONFIG_H", "-I" + os.path.join(V.VERIF, "harness", "common", "include"),
               "-I" + os.path.join(V.VERIF, "harness", "common"), "-I" + ctx.repo, os.path.join(H, name + ".cc")]
        rc, out = V.sh(cmd, timeout=120)
        res[name] = (rc == 0, out[-1500:])
    return res


def build_impl(ctx, pr):
    jobs = []
    for k, b in CONT.items():
        flags = []
        if k == "sl" and pr["probe_sllist"][0]: flags.append("-DC11_SL_DEFAULT_ALLOC")
        if k == "rv": flags.append("-DCHECK_RESERVEDVECTOR")      # the header's own size checks (assert) are part of the observed behaviour
        if k == "lru" and pr["probe_lru"][0]: flags.append("-DC11_LRU_SELF_CONTAINED")
        if k == "lru" and pr["probe_lru_cfind"][0]: flags.append("-DC11_LRU_CONST_FIND")
        if k == "lru" and pr["probe_lru_cback"][0]: flags.append("-DC11_LRU_CONST_BACK")
        jobs.append(dict(srcs=[os.path.join(H, b + ".cc")], out=ctx.path("impl_" + b), san=True, flags=flags))
    V.cxx_many(ctx, jobs)
    return {k: ctx.path("impl_" + b) for k, b in CONT.items()}


def build_deep(ctx, pr):
    """OPTIONAL deep drivers (private members read with g++ -fno-access-control); a compile failure only downgrades the evidence"""
    from concurrent.futures import ThreadPoolExecutor
    def one(kb):
        k, b = kb
        flags = ["-DC11_DEEP", "-fno-access-control"]
        if k == "sl" and pr["probe_sllist"][0]: flags.append("-DC11_SL_DEFAULT_ALLOC")
        try:
            V.cxx(ctx, [os.path.join(H, b + ".cc")], ctx.path("deep_" + b), san=True, flags=flags)
            return k, ctx.path("deep_" + b), None
        except V.BuildError as e:
            return k, None, "deep driver for %s does not compile against this tree (private members renamed?): deep stream skipped; %s" % (b, str(e)[-300:].replace("\n", " "))
    with ThreadPoolExecutor(max_workers=2) as ex:
        res = list(ex.map(one, [("al", "arraylist"), ("sl", "sllist")]))
    for k, path, err in res:
        if err: ctx.notes.append(err)
    return {k: path for k, path, err in res if path}


SAN_ENV = {"ASAN_OPTIONS": "detect_leaks=1:abort_on_error=0:symbolize=0", "UBSAN_OPTIONS": "print_stacktrace=0"}


def run_impl(ctx, impls, cases, tag="impl"):
    """returns list of impl observation lines aligned with cases"""
    out = [None] * len(cases)
    from concurrent.futures import ThreadPoolExecutor
    def one(k):
        idx = [i for i, c in enumerate(cases) if c.split(" ", 1)[0] == k]
        if not idx: return
        # split into a few shards to use the cores
        nsh = max(1, min(4, len(idx) // 2000))
        for s in range(nsh):
            sub = idx[s::nsh]
            r = V.run_cases(ctx, [impls[k]], [cases[i] for i in sub], tag="%s_%s_%d" % (tag, k, s), timeout=900, env=SAN_ENV)
            for i, l in zip(sub, r): out[i] = l
    with ThreadPoolExecutor(max_workers=5) as ex:
        list(ex.map(one, list(CONT)))
    return [o if o is not None else "NOT-RUN" for o in out]


def canon_impl(line):
    # harness appends ";UB" itself; a crash of the harness process as a whole is reported by run_cases
    if line.startswith("CRASH(") or line.startswith("HANG("):
        return "UB"
    return line


def spec_match(spec_step, impl_step):
    if "*" not in spec_step:
        return spec_step == impl_step
    rx = re.escape(spec_step).replace(r"\*", r"-?[0-9]+")
    return re.fullmatch(rx, impl_step) is not None


def judge(case, impl, model_line):
    """oracle: the spec applied to the impl's own output.  Returns dict(ok, step, op, reason, sig, drift)"""
    parts = [x.strip() for x in model_line.split(SEP.strip())]
    m, s, o = parts[:3] if len(parts) >= 3 else ("?", "?", "?")
    t = case.split()
    k, ops = t[0], t[2:]
    ist, sst, mst = impl.split(";"), s.split(";"), m.split(";")
    res = {"ok": True, "model": m, "spec": s, "orig": o, "drift": None, "deep": parts[3] if len(parts) > 3 else "-"}
    if "UNKNOWN" in s:
        res["ok"] = None
        return res
    if "PRE" in sst:
        j = sst.index("PRE")
        op = ops[j] if j < len(ops) else "?"
        if k == "rv" and op.split(":")[0] in ("pb", "pbm", "eb") and all(spec_match(x, y) for x, y in zip(sst[:j], ist[:j])) and len(ist) > j:
            # rejection stream: the spec refuses the op (vector exactly full); model must say UB, the checked build must refuse as well
            res["rejection"] = True
            if mst[j:j + 1] != ["UB"]:
                res.update(ok=False, step=j, op=op, sig="corr:C11/reservedvector:rejection-model", reason="model does not report UB for %s on a full vector: %r" % (op, mst[j:j + 1]))
            elif ist[j] != "UB":
                res.update(ok=False, step=j, op=op, sig="C11:reservedvector:full-push-not-refused",
                           reason="after op #%d (%s) on an exactly full vector the checked build shows %r instead of refusing (assert)" % (j, op, ist[j]))
            return res
        res["ok"] = None      # any other history outside the documented preconditions: not judged
        return res
    for j in range(len(sst)):
        a = ist[j] if j < len(ist) else "<missing>"
        if not spec_match(sst[j], a):
            op = ops[j] if j < len(ops) else "?"
            opn = op.split(":")[0]
            res.update(ok=False, step=j, op=op, reason="after op #%d (%s) impl shows %r, the abstract %s shows %r" % (j, op, a, NAME[k], sst[j]))
            if impl == o and o != m:
                res["sig"] = {"al": "C11:arraylist:purge-stale-chunks", "sl": "C11:sllist:self-assignment-clears",
                              "lru": "C11:lru:insert-present-key-duplicates"}.get(k, "C11:%s:%s" % (NAME[k], opn))
            else:
                res["sig"] = "C11:%s:%s" % (NAME[k], opn)
            return res
    if len(ist) != len(sst):
        res.update(ok=False, step=len(sst), op="?", reason="impl printed %d observations for %d ops" % (len(ist), len(sst)), sig="C11:%s:length" % NAME[k])
        return res
    if impl != m:
        res["drift"] = "impl accepted by the spec but differs from the model"
    return res


def shrink(ctx, impls, model, case, sig):
    """delta debugging on the op list with the impl in the loop: drop ops while the same signature still fails"""
    t = case.split(); head, ops = t[:2], t[2:]
    ALIAS = ("pba", "seta", "pbe", "pfe", "minse", "ebe", "fille", "insa", "toucha", "swaps", "asgs", "cpyc")
    if any(o.split(":")[0] in ALIAS or (o.startswith("asgo:") and head[0] == "bv") for o in ops):
        return case          # these tokens carry values / sizes that depend on the preceding ops: dropping ops would make the history inconsistent
    def fails(ops2):
        c = " ".join(head + ops2)
        mo = V.run_cases(ctx, [model], [c], tag="shr_m", timeout=60)
        io = V.run_cases(ctx, [impls[head[0]]], [c], tag="shr_i", timeout=60, env=SAN_ENV)
        j = judge(c, canon_impl(io[0]), mo[0])
        return j["ok"] is False and j.get("sig") == sig
    # cut the tail after the failing step first
    n = 0
    changed = True
    while changed and n < 400:
        changed = False
        i = len(ops) - 1
        while i >= 0 and n < 400:
            cand = ops[:i] + ops[i + 1:]
            n += 1
            if cand and fails(cand):
                ops = cand; changed = True
            i -= 1
    return " ".join(head + ops)


def params_hook(ctx):
    V.sh([sys.executable, os.path.join(V.VERIF, "tools", "extract_params.py"), ctx.repo], check=True)


def param(name, default):
    try:
        return int(json.load(open(os.path.join(V.VERIF, "build", "params_report.json")))[name]["value"])
    except Exception:
        return default


def run(ctx):
    ctx.params_hook = params_hook
    V.coq_stage(ctx)
    model = V.build_model(ctx)
    pr = probes(ctx)
    from concurrent.futures import ThreadPoolExecutor
    with ThreadPoolExecutor(max_workers=2) as ex:
        fdeep = ex.submit(build_deep, ctx, pr)
        impls = build_impl(ctx, pr)
        deep = fdeep.result()
    if not pr["probe_sllist"][0]:
        ctx.violation("C11:sllist:compile:push_front-default-allocator",
                      {"case": "harness/C11/probe_sllist.cc", "oracle": "SLList<int> (default allocator) must compile push_front under -std=gnu++20", "log": pr["probe_sllist"][1]})
    if not pr["probe_lru"][0]:
        ctx.violation("C11:lru:compile:resize-needs-cassert",
                      {"case": "harness/C11/probe_lru.cc", "oracle": "lru.hh must be self-contained: lru::resize uses assert", "log": pr["probe_lru"][1]})
    if not pr["probe_lru_cfind"][0]:
        ctx.violation("C11:lru:compile:const-find",
                      {"case": "harness/C11/probe_lru_cfind.cc", "oracle": "lru::find(key) const must be instantiable", "log": pr["probe_lru_cfind"][1]})
    if not pr["probe_lru_cback"][0]:
        ctx.violation("C11:lru:compile:const-back",
                      {"case": "harness/C11/probe_lru_cback.cc", "oracle": "a const lru must offer back() as it offers front()", "log": pr["probe_lru_cback"][1]})
    cases, ncorpus, nexh = gen(ctx)
    ctx.log("generated %d cases (%d corpus, %d exhaustive)" % (len(cases), ncorpus, nexh))
    mo = V.run_cases(ctx, [model], cases, tag="model", timeout=900)
    ctx.log("model done")
    io = [canon_impl(l) for l in run_impl(ctx, impls, cases)]
    ctx.log("impl done")
    # deep stream: private state of ArrayList / SLList against the model's internal state (drift is evidence, not a violation)
    deep_cmp = deep_diff = 0
    deep_samples = []
    if deep:
        didx = [i for i, c in enumerate(cases) if c.split(" ", 1)[0] in deep]
        dout = run_impl(ctx, deep, [cases[i] for i in didx], tag="deep")
        for i, d in zip(didx, dout):
            parts = [x.strip() for x in mo[i].split(SEP.strip())]
            if len(parts) < 4 or "UB" in parts[3] or "PRE" in parts[1]:
                continue
            deep_cmp += 1
            if canon_impl(d) != parts[3] and io[i] == parts[0]:
                deep_diff += 1
                if len(deep_samples) < 3: deep_samples.append({"case": cases[i][:200], "impl_private_state": d[:300], "model_private_state": parts[3][:300]})
        if deep_diff:
            ctx.notes.append("MODEL DRIFT (deep stream): private state differs from the model on %d histories while the public stream agrees" % deep_diff)
        ctx.log("deep stream: %d histories compared, %d differ" % (deep_cmp, deep_diff))
    nviol = ndrift = nskip = nms = nrej = 0
    steps = 0
    kinds, opk, fails_by_sig = {}, {}, {}
    for c, a, m in zip(cases, io, mo):
        t = c.split()
        kinds[t[0]] = kinds.get(t[0], 0) + 1
        steps += len(t) - 2
        for op in t[2:]:
            key = t[0] + ":" + op.split(":")[0]; opk[key] = opk.get(key, 0) + 1
        j = judge(c, a, m)
        if j.get("rejection"): nrej += 1
        if j["ok"] is None:
            nskip += 1; continue
        if j.get("rejection"):
            if j["ok"] is False:
                nviol += 1
                fails_by_sig.setdefault(j["sig"], []).append((c, a, j))
            continue
        # model vs spec (the theorem's reading, re-checked on the generated cases)
        if not all(spec_match(x, y) for x, y in zip(j["spec"].split(";"), j["model"].split(";"))) or len(j["spec"].split(";")) != len(j["model"].split(";")):
            nms += 1
            if nms <= 3: ctx.notes.append("model/spec mismatch on %s" % c[:300])
        if j["ok"] is False:
            nviol += 1
            fails_by_sig.setdefault(j["sig"], []).append((c, a, j))
        elif j["drift"]:
            ndrift += 1
            if ndrift <= 5:
                ctx.violation("corr:C11/%s" % NAME[t[0]], {"broken": "corr:C11/%s" % NAME[t[0]], "case": c, "impl": a, "model": j["model"], "spec": j["spec"],
                                                          "oracle": "accepts impl output"}, found_input=False)
    known = [k for k in V.load_known("C11") if k.get("status") == "known"]
    for sig, lst in fails_by_sig.items():
        lst.sort(key=lambda x: len(x[0]))
        c, a, j = lst[0]
        is_known = any(re.search(k["signature"], sig) for k in known)
        small = c
        if not is_known:
            try:
                small = shrink(ctx, impls, model, c, sig)
            except Exception as e:       # shrinking is best effort
                ctx.notes.append("shrink failed: %r" % e)
        if small != c:
            m2 = V.run_cases(ctx, [model], [small], tag="shr_m", timeout=60)[0]
            a2 = canon_impl(V.run_cases(ctx, [impls[small.split()[0]]], [small], tag="shr_i", timeout=60, env=SAN_ENV)[0])
            j2 = judge(small, a2, m2)
            if j2["ok"] is False:
                c, a, j = small, a2, j2
        ctx.violation(sig, {"case": c, "impl": a, "model": j["model"], "spec": j["spec"], "model_of_snapshot_code": j["orig"], "oracle": j["reason"],
                            "failing_cases_with_this_signature": len(lst), "replay_cmd": "bin/check C11 --replay <this file>"})
    if nms:
        ctx.violation("corr:C11/model-vs-spec", {"broken": "extracted model disagrees with the spec oracle on %d generated cases (theorem reading)" % nms}, found_input=False)
    distinct = len(set(cases))
    ctx.coverage.update({
        "evaluations": steps, "distinct_nontrivial": distinct,
        "rule": "evaluation = one operation of a history executed on impl, model and spec with the full observation compared afterwards; "
                "distinct_nontrivial = distinct histories (each has >= 3 ops; all its prefixes are checked).  Histories = corpus + ALL valid histories of a fixed "
                "small length over a per-container op alphabet (positions at both ends/middle) + seeded random walks (len<=200) aimed at chunk boundaries, "
                "erase-purge-append, emptying/refilling, full vectors, self-assignment, present-key insert",
        "samples": [cases[i][:200] for i in (0, len(cases) // 3, len(cases) // 2, len(cases) - 1)] if cases else [],
        "histories": len(cases), "histories_by_container": kinds, "op_distribution": opk, "corpus_cases": ncorpus, "exhaustive_histories": nexh,
        "arraylist_chunk_sizes": AL_N, "reservedvector_capacities": RV_N, "bitsetvector_block_sizes": BV_BS,
        "oracle_rejections": nviol, "oracle_rejections_by_signature": {k: len(v) for k, v in fails_by_sig.items()},
        "impl_model_disagreements_accepted_by_oracle": ndrift, "histories_outside_preconditions_skipped": nskip, "rejection_histories_full_push_refused": nrej,
        "translated_constants": {n: param(n, None) for n in ("c11_param_al_chunk_threshold", "c11_param_al_min_chunk", "c11_param_al_default_N")}, "model_spec_mismatches": nms,
        "sanitizer": "all impl runs are -fsanitize=address,undefined -fno-sanitize-recover=all; an abort inside a history is the observation UB",
        "compile_probes": {k: v[0] for k, v in pr.items()}, "exhaustive": False,
        "harness_workarounds_active": [n for n, ok in (("sllist: allocator with allocate(n,hint)", pr["probe_sllist"][0]), ("lru: <cassert> included by the driver", pr["probe_lru"][0]),
                                                        ("lru: const find() not exercised", pr["probe_lru_cfind"][0]), ("lru: const back(0) instead of back()", pr["probe_lru_cback"][0])) if not ok],
        "secondary_access_paths": "after every op the drivers re-read the whole contents through every other public read path and flag any difference in the observation: "
                                  "ArrayList iterator/const_iterator/converted const_iterator operator[] from begin and from a middle position (both directions), elementAt, "
                                  "+n/-n/+=/-=, distances, order comparisons, reverse walk, post-inc/dec, position(), const and non-const operator[]; SLList iterator/const_iterator/"
                                  "ModifyIterator lockstep walk with all equals() overloads and conversions, operator<<; ReservedVector non-const and c-prefixed iterators, "
                                  "[]/at()/front/back/data const and non-const, at() throwing, hash_value/std::hash, operator<<, push_back(const&)/(&&)/emplace_back, (count)/initializer-list "
                                  "ctors; BitSetVector mutable proxy and iterator reads, back(), the three constructors, operator<<, reference::operator[] assignment, reset(n), "
                                  "assignment from a const proxy; lru const size/front/back/find, insert(key)",
        "deep_stream": {"drivers_built": sorted(deep), "histories_compared": deep_cmp, "histories_with_private_state_drift": deep_diff, "drift_samples": deep_samples,
                        "observables": "ArrayList start_,size_,capacity_,null-chunk pattern; SLList tail_ = last reachable node, size_ = #reachable nodes"},
        "traces_validated_against_impl": len(cases),
    })
    ctx.assumptions += ["std::list / std::map / std::vector<bool> / std::bitset / std::array / std::shared_ptr taken at their abstract semantics",
                        "element type int in the impl drivers, polymorphic T in the theorems",
                        "ArrayList model holds chunks by value (no aliasing of shared_ptr after the proposed purge fix); the snapshot's aliasing is modelled separately with chunk identities (c11_alo_*)"]


def replay(ctx, path):
    rep = json.load(open(path))
    case = rep["case"]
    if case.endswith(".cc"):
        pr = probes(ctx)
        for k, v in pr.items():
            print("%s: %s" % (k, "compiles" if v[0] else "DOES NOT COMPILE\n" + v[1]))
        return 0 if all(v[0] for v in pr.values()) else 1
    model = V.build_model(ctx)
    pr = probes(ctx)
    impls = build_impl(ctx, pr)
    mo = V.run_cases(ctx, [model], [case], tag="rmodel")
    io = canon_impl(V.run_cases(ctx, [impls[case.split()[0]]], [case], tag="rimpl", timeout=60, env=SAN_ENV)[0])
    j = judge(case, io, mo[0])
    print("case  :", case); print("impl  :", io); print("model :", j["model"]); print("spec  :", j["spec"]); print("snapshot-code model:", j["orig"])
    print("oracle:", "accepts" if j["ok"] else j.get("reason", "history outside preconditions"))
    return 1 if j["ok"] is False else 0
