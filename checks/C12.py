"""C12 — ParameterTree returns what the configuration source says, or a precise error (DESIGN.md section 4, C12)."""
import os, sys, re, json, itertools
import vcheck as V

META = {
    "level": "proof",
    "technique": "Coq proof (line machine / tree / Parser<T> model refines the abstract assignment-list and number-text spec) "
                 "+ extracted-model vs C++ differential correspondence with spec oracle; ASan/UBSan build on malformed bytes",
    "text": "Theorems in coq/Properties_C12.v about the executable model of readINITree (line machine incl. quote continuation), "
            "ParameterTree set/get/hasKey/hasSub, readOptions/readNamedOptions and Parser<T>: C12_total (no hang on any bytes), "
            "C12_roundtrip/_bytes (every document of the dialect incl. groups, dotted keys, comments, quoted and multi-line values = "
            "store the written key/value list), C12_values (every key of a hierarchy maps to its written value, unrelated entries "
            "untouched), C12_frame, C12_duplicate, C12_overwrite, C12_default, C12_int_exact, C12_bool/_vector/_bitset_exact, "
            "C12_range_exact (repaired probe) with C12_range_exact_refuted (code as is: F-C12-1), C12_options_pairs/_dangling/"
            "_positional_partial, C12_no_undefined_read_refuted (F-C12-2). The model is tied to dune/common/parametertree*.{hh,cc} on "
            "every run by running extracted model and the C++ classes on identical documents (all documents over a 9-symbol alphabet "
            "up to length 5/6, rendered random hierarchies checked to lie inside the proved dialect, malformed bytes under ASan/UBSan), "
            "value strings and argv vectors; a spec oracle (assignment-list semantics, number-text grammar) judges the impl's output.",
    "note": "Trusted: Coq kernel, extraction, OCaml driver, C++ harness, g++/libstdc++; std::num_get integer grammar is modelled "
            "(DESIGN section 3 item 5); floating-point text conversion (strtod) is not modelled.",
    "design_ref": "DESIGN.md section 4 C12",
}

HARNESS = os.path.join(V.VERIF, "harness/C12/impl.cc")
REPO_SRCS = V.REPO_CC_DEFAULT + ["dune/common/parametertree.cc", "dune/common/parametertreeparser.cc"]


def X(b):
    if isinstance(b, str):
        b = b.encode("latin-1")
    return "x" + b.hex()


def L(items):
    return ",".join(X(i) for i in items) if items else "-"


# ------------------------------------------------------------------ stream 1: rendered hierarchies

SEGS = ["a", "b", "c", "ab", "x1", "K", "key_1", "my key", "z-9", "q)", "A", "0"]
VAL_CH = "abcXYZ019 _-+.,;:/\\()[]{}<>!?*&%$@~^|'\"="


def gen_hierarchy(rng, n, existing=()):
    """n assignments (path tuple, value bytes); merged with `existing` paths the result is a hierarchy."""
    paths = [p for p, _ in existing]
    out = []
    tries = 0
    while len(out) < n and tries < 200:
        tries += 1
        depth = rng.choice([1, 1, 1, 2, 2, 3, 4])
        if paths and rng.random() < 0.5:       # share a prefix with an earlier path
            q = rng.choice(paths)
            keep = rng.randrange(0, len(q))
            p = tuple(q[:keep]) + tuple(rng.choice(SEGS) for _ in range(max(1, depth - keep)))
        else:
            p = tuple(rng.choice(SEGS) for _ in range(depth))
        bad = False
        for q in paths:
            m = min(len(p), len(q))
            if p[:m] == q[:m]:
                bad = True
                break
        if bad:
            continue
        paths.append(p)
        out.append((p, None))
    return [(p, gen_value(rng)) for p, _ in out]


def gen_value(rng):
    """(kind, bytes): kind 'plain' (unquoted single line) or 'quoted'."""
    z = rng.random()
    if z < 0.08:
        return ("plain", b"")
    if z < 0.6:
        n = rng.choice([1, 1, 2, 3, 5, 9])
        s = "".join(rng.choice(VAL_CH) for _ in range(n)).strip(" ")
        if s[:1] in ("'", '"'):
            s = "v" + s
        return ("plain", s.encode())
    # quoted: leading/trailing blanks, several lines, '#' after the first line, other quote char inside
    n = rng.choice([0, 1, 3, 6, 12])
    s = "".join(rng.choice(VAL_CH + "  \n\n\t#") for _ in range(n))
    return ("quoted", s.encode())


def render(rng, assigns, allow_hash=False):
    """Render a hierarchy with random layout choices of the dialect.
    Returns (doc bytes, written values, items) where items is the document as a list of dialect items
    (the constructors of c12_sline in coq/C12_Spec.v); the document is their plain concatenation."""
    crlf = rng.random() < 0.1
    items, values = [], []
    prefix = ()

    def blanks():
        return rng.choice(["", "", " ", "  ", "\t", " \t "])

    for p, (kind, v) in assigns:
        if rng.random() < 0.15:
            items.append(("C", blanks(), rng.choice(["", " comment", " a = b", "[x]"])))
        if rng.random() < 0.1:
            items.append(("B", blanks()))
        # choose how much of the path goes into the group header
        if p[:len(prefix)] == prefix and len(prefix) < len(p) and rng.random() < 0.7:
            pass                                  # keep current group
        else:
            k = rng.randrange(0, len(p))          # new header with the first k segments
            prefix = p[:k]
            items.append(("H", blanks(), blanks(), ".".join(prefix), blanks(), blanks() + rng.choice(["", "", " # group"])))
        key = ".".join(p[len(prefix):])
        v = v.decode("latin-1")
        if kind == "quoted":
            q = rng.choice(["'", '"'])
            body = v.replace("\n", "") if crlf else v   # a CR would become part of a multi-line value
            # '#' is cut from the first line before quotes are seen; the quote must not end a line of the value
            # F-C12-3: a '#' on the first line of a quoted value is cut as a comment by the code as found;
            # the dialect of C12_roundtrip excludes it, the property does not: keep it in some documents
            keep_hash = allow_hash and rng.random() < 0.3
            if not keep_hash:
                first, sep, rest = body.partition("\n")
                first = first.replace("#", "")
                body = first + sep + rest
            while True:
                nb = re.sub(re.escape(q) + r"(?=[ \t\r]*(\n|$|#))", "", body)
                if nb == body:
                    break
                body = nb
            ls = body.split("\n")
            if len(ls) == 1:
                items.append(("Q", blanks(), key, blanks(), blanks(), q, body, blanks(), rng.choice(["", "", "# c", "#"])))
            else:
                items.append(("N", blanks(), key, blanks(), blanks(), q, ls[0], ls[-1], blanks()) + tuple(ls[1:-1]))
            values.append(body.encode("latin-1"))
        else:
            body = v.replace("#", "").strip(" \t")
            if body[:1] in ("'", '"'):
                body = "v" + body
            b3, comment = rng.choice([("", ""), ("", ""), (blanks(), ""), (" ", "# trailing comment"), ("\t", "#x=y")])
            items.append(("A", blanks(), key, blanks(), blanks(), body, b3, comment))
            values.append(body.encode("latin-1"))
    lines = []
    for it in items:
        lines += item_lines(it)
    if crlf:
        # the CR is a trailing blank / part of the comment of every line: push it into the items
        items = [item_with_cr(it) for it in items]
        lines = []
        for it in items:
            lines += item_lines(it)
    doc = "\n".join(lines)
    if rng.random() < 0.7:
        doc += "\n"
        if not items:
            items.append(("B", ""))   # the empty first line
        items.append(("B", ""))
    return doc.encode("latin-1"), values, items


def item_lines(it):
    k = it[0]
    if k == "B":
        return [it[1]]
    if k == "C":
        return [it[1] + "#" + it[2]]
    if k == "H":
        return [it[1] + "[" + it[2] + it[3] + it[4] + "]" + it[5]]
    if k == "A":
        return [it[1] + it[2] + it[3] + "=" + it[4] + it[5] + it[6] + it[7]]
    if k == "Q":
        return [it[1] + it[2] + it[3] + "=" + it[4] + it[5] + it[6] + it[5] + it[7] + it[8]]
    if k == "N":
        return [it[1] + it[2] + it[3] + "=" + it[4] + it[5] + it[6]] + list(it[9:]) + [it[7] + it[5] + it[8]]
    raise ValueError(k)


def item_with_cr(it):
    k = it[0]
    if k == "B":
        return ("B", it[1] + "\r")
    if k == "C":
        return ("C", it[1], it[2] + "\r")
    if k == "H":
        return it[:5] + (it[5] + "\r",)
    if k == "A":
        return it[:6] + ((it[6] + "\r", it[7]) if not it[7] else (it[6], it[7] + "\r"))
    if k == "Q":
        return it[:7] + ((it[7] + "\r", it[8]) if not it[8] else (it[7], it[8] + "\r"))
    return it      # "N" does not occur with CRLF


def fmt_items(items):
    return ",".join(it[0] + ":" + "/".join(X(f) for f in it[1:]) for it in items) if items else "-"


def fmt_assigns(assigns):
    return ",".join("/".join(X(s) for s in p) + "=" + X(v) for p, v in assigns) if assigns else "-"


def gen_rendered(ctx, n):
    rng = ctx.rng("rendered")
    cases = []
    for i in range(n):
        npre = rng.choice([0, 0, 0, 1, 2, 4])
        pre = gen_hierarchy(rng, npre)
        doc = gen_hierarchy(rng, rng.choice([0, 1, 2, 3, 5, 8, 13]), existing=pre)
        # some doc entries re-assign pre-existing keys (overwrite rule)
        for p, _ in pre:
            if rng.random() < 0.5:
                doc.insert(rng.randrange(len(doc) + 1), (p, gen_value(rng)))
        ow = rng.randrange(2)
        predoc, prevals, _ = render(rng, pre)
        d, docvals, items = render(rng, doc, allow_hash=True)
        pa = [(p, v) for (p, _), v in zip(pre, prevals)]
        da = [(p, v) for (p, _), v in zip(doc, docvals)]
        kind = "rendered"
        if doc and rng.random() < 0.12:
            # duplicate: the same key once more in the same source, spelled as a dotted key
            p, _ = rng.choice(doc)
            if items and items[-1] == ("B", ""):
                items.pop()             # the document ended with a line break
            else:
                d += b"\n"
            d += b"[]\n" + ".".join(p).encode("latin-1") + b" = dup\n"
            items += [("H", "", "", "", "", ""), ("A", "", ".".join(p), " ", " ", "dup", "", ""), ("B", "")]
            da.append((p, b"dup"))
            kind = "duplicate"
        qs = [".".join(p) for p, _ in (pre + doc)[:4]]
        qs += [".".join(p[:-1]) for p, _ in doc[:2] if len(p) > 1]
        qs += [q + ".nope" for q in qs[:2]] + ["nope", ""]
        cases.append("inif %d %s %s %s %s %s %s" % (ow, X(predoc), X(d), L(qs), fmt_assigns(pa), fmt_assigns(da), fmt_items(items)))
    return cases


# ------------------------------------------------------------------ stream 2/3: exhaustive and malformed documents

DOC_ALPHA = ["a", ".", "=", "#", "[", "]", '"', " ", "\n"]
FIXED_Q = ["a", "a.a", "", ".", ".a", "a."]


def gen_exhaustive_docs(maxlen, pre=b"", ows=(1,)):
    cases = []
    q = L(FIXED_Q)
    for n in range(maxlen + 1):
        for t in itertools.product(DOC_ALPHA, repeat=n):
            d = "".join(t)
            for ow in ows:
                cases.append("ini %d %s %s %s" % (ow, X(pre), X(d), q))
    return cases


def gen_malformed(ctx, n):
    rng = ctx.rng("malformed")
    cases = []
    pieces = [b"a", b"b", b".", b"=", b"#", b"[", b"]", b'"', b"'", b" ", b"\t", b"\r", b"\n", b"\n", b"\x00", b"\xff", b"\x80",
              b"a.b", b"[a]", b"= ", b'="', b"='", b'"\n', b"a=1\n", b"[a.b]\n", b"\x0b", b"\x0c"]
    q = L(["a", "a.b", "b", "a.a", ""])
    for i in range(n):
        z = rng.random()
        if z < 0.6:
            d = b"".join(rng.choice(pieces) for _ in range(rng.choice([1, 3, 6, 10, 20, 40])))
        elif z < 0.8:
            d = bytes(rng.randrange(256) for _ in range(rng.choice([1, 5, 20, 100])))
        else:
            # a long quoted value that never closes / many continuation lines
            d = b"k = " + rng.choice([b'"', b"'"]) + b"\n".join(bytes(rng.choice(b"ab \t#=\"'") for _ in range(rng.randrange(6))) for _ in range(rng.randrange(30)))
        pre = rng.choice([b"", b"", b"a=0", b"a.b=0\nb=1", b"a=0\n[a]\nb=1"])
        cases.append("inif %d %s %s %s" % (rng.randrange(2), X(pre), X(d), q))
    for name in ["a.ini", "", "x/y"]:
        cases.append("nofile %s" % X(name))
    return cases


# ------------------------------------------------------------------ stream 4: value strings for get<T>

def gen_values(ctx):
    rng = ctx.rng("values")
    quick = ctx.quick
    cases = []
    A = ["0", "1", "9", "-", "+", " ", "x", "\t"]
    for n in range(0, (4 if quick else 5) + 1):
        for t in itertools.product(A, repeat=n):
            s = "".join(t)
            for ty in ["int", "uint", "bool", "arr1", "vec"] + ([] if quick else ["long", "intor1"]):
                cases.append("get %s %s" % (ty, X(s)))
    B = ["1", "-", "+", " "]
    for n in range(0, (7 if quick else 9) + 1):
        for t in itertools.product(B, repeat=n):
            cases.append("get arr3 %s" % X("".join(t)))
    # limits
    lims = [2**31 - 1, 2**31, 2**31 + 1, 2**32 - 1, 2**32, 2**32 + 1, 2**63 - 1, 2**63, 2**63 + 1, 2**64 - 1, 2**64, 2**64 + 1,
            10**19, 10**20, 10**30, 0, 1, 7, 99999]
    deco = ["%s", "-%s", "+%s", " %s", "%s ", "\t%s\n", "000%s", "-000%s", "%s x", "%sx", "%s.", "%s.0", "%se1", "0x%s", "%s -", "- %s", "--%s", "+-%s", "\x0b%s\x0c"]
    for v in lims:
        for d in deco:
            s = d % v
            for ty in ["int", "long", "uint", "ulong", "bool", "arr1", "vec", "intor1"]:
                cases.append("get %s %s" % (ty, X(s)))
    # sequences: n items +- one, trailing garbage of every kind
    toks = ["0", "1", "-1", "+7", "42", "2147483647", "-2147483648", "2147483648", "007", "99999999999999999999"]
    garbage = ["", " ", "\n", " -", " +", " x", " 1x", " -x", " - ", " 99999999999999999999", " 99999999999999999999 ", "-", "+", " 1 -", ".", " .", " 1e", "\x0b", " \x0b-"]
    for _ in range(400 if quick else 4000):
        n = rng.choice([0, 1, 2, 3, 3, 3, 4, 5])
        sep = rng.choice([" ", " ", "  ", "\t", "\n", " \r\n", "\x0b"])
        s = rng.choice(["", "", " ", "\t"]) + sep.join(rng.choice(toks) for _ in range(n)) + rng.choice(garbage)
        for ty in ["arr3", "arr2l", "arr2u", "vec", "arr1"]:
            cases.append("get %s %s" % (ty, X(s)))
    for g in garbage:
        for base in ["1 2 3", "1 2", "1 2 3 4", "-1 -2 -3", "1\t2\n3"]:
            cases.append("get arr3 %s" % X(base + g))
            cases.append("get vec %s" % X(base + g))
    # booleans and bitsets
    words = ["yes", "no", "true", "false", "YES", "No", "tRuE", "FALSE", "0", "1", "2", "-1", "00", "on", "off", "y", "", " yes", "yes ", "truee", "1 ", " 0", "+0", "-0",
             "2147483648", "\xc0", "TRUE\x00"]
    for w in words:
        cases.append("get bool %s" % X(w))
    for _ in range(300 if quick else 3000):
        n = rng.choice([3, 4, 4, 4, 4, 5, 0])
        s = rng.choice(["", " "]) + rng.choice([" ", "  ", "\t", "\n"]).join(rng.choice(words[:16]) for _ in range(n)) + rng.choice(["", " ", "\n"])
        cases.append("get bits4 %s" % X(s))
    # strings and string vectors
    for _ in range(300 if quick else 3000):
        s = "".join(rng.choice(" \t\n\rab\x0b\x0c\x00#\"'=") for _ in range(rng.choice([0, 1, 2, 4, 8])))
        cases.append("get string %s" % X(s))
        cases.append("get vecs %s" % X(s))
    # texts whose reading would change under a locale with decimal comma / digit grouping
    for s in ["1.000", "12.345", "1,5", "1.000.000", "1,000", "1 2.000 3", "1.0001", ".5", "1."]:
        for ty in ["int", "long", "uint", "arr1", "arr3", "vec", "bool"]:
            cases.append("get %s %s" % (ty, X(s)))
    for s in ["", "5", "x", " 12 ", "12 x", "yes", "1 2", " a b ", "0"]:
        for ty in ["intor", "boolor", "longor", "stror", "cstror", "vecor"]:
            cases.append("get %s0 %s" % (ty, X(s)))
            cases.append("get %s1 %s" % (ty, X(s)))
    # further instantiations: other element types, sizes 0/1/2/8, FieldVector, char, short, double
    for v in lims[:6] + [2**15 - 1, 2**15, 2**15 + 1, 2**16 - 1, 2**16, 2**16 + 1]:
        for d in deco:
            for ty in ["short", "ushort", "fv1l", "vecl", "vecu"]:
                cases.append("get %s %s" % (ty, X(d % v)))
    for v in lims:
        for d in deco[:8]:
            for ty in ["llong", "ullong"]:
                cases.append("get %s %s" % (ty, X(d % v)))
    for st in ["", "a", " a", "a ", "ab", "1", "\xff", " \x00 ", "-", "  "]:
        for ty in ["uchar", "schar"]:
            cases.append("get %s %s" % (ty, X(st)))
    for st in ["1 2", "1  2 3", "", " ", "1 x", "1 -", "2147483648"]:
        cases.append("get vecvec %s" % X(st))
    C = ["1", "-", " ", "x", "."]
    for n in range(0, 5):
        for t in itertools.product(C, repeat=n):
            st = "".join(t)
            for ty in ["char", "arr0", "arr2", "arrs2", "bits1", "bits0", "dbl"]:
                cases.append("get %s %s" % (ty, X(st)))
    D = ["1", "0", ".", "e", "-", "+", " "]
    for n in range(0, (5 if quick else 6) + 1):
        for t in itertools.product(D, repeat=n):
            cases.append("get dbl %s" % X("".join(t)))
    dnum = ["0", "-0", "1", "0.1", ".5", "5.", "1e3", "1E-3", "+2.5e+2", "1e308", "1.7976931348623157e308", "1.7976931348623159e308", "1e309",
            "-1e400", "4.9e-324", "2.4e-324", "1e-400", "123456789012345678901234567890", "0.30000000000000004", "9007199254740993",
            "1e", "1e+", ".", "-.", "1.2.3", "0x10", "inf", "nan", "1,5", "1d3", "1f", "00.5", "1e05", "1 ", "\t1.5\n", "1.5x", "--1"]
    for a in dnum + ["3.4028235e38", "3.4028236e38", "3.40282357e38", "1e39", "1.401298464324817e-45", "7e-46", "16777217", "0.1", "1e-50"]:
        cases.append("get flt %s" % X(a))
    for a in dnum:
        cases.append("get dbl %s" % X(a))
        cases.append("get vecd %s" % X(a))
        for b in dnum[:12] + ["x", "", "1e"]:
            for sep in [" ", "\t", ""]:
                cases.append("get fv2d %s" % X(a + sep + b))
                cases.append("get vecd %s" % X(a + sep + b))
    cases += gen_scaled(ctx)
    for _ in range(400 if quick else 4000):
        n = rng.choice([0, 1, 2, 3, 3, 4, 8, 8, 9])
        sep = rng.choice([" ", " ", "  ", "\t", "\n"])
        st = rng.choice(["", " "]) + sep.join(rng.choice(toks) for _ in range(n)) + rng.choice(garbage)
        for ty in ["fv3", "arr2", "arr0", "vecl", "vecu"]:
            cases.append("get %s %s" % (ty, X(st)))
        st = rng.choice(["", " "]) + sep.join(rng.choice(words[:16]) for _ in range(n)) + rng.choice(["", " ", " x"])
        for ty in ["bits8", "bits1", "bits0", "vecb"]:
            cases.append("get %s %s" % (ty, X(st)))
        st = sep.join(rng.choice(["a", "b c".replace(" ", sep), "", "#", "'q'"]) for _ in range(rng.choice([1, 2, 2, 3])))
        cases.append("get arrs2 %s" % X(st))
    return cases


def exact_decimal(fr):
    """the finite decimal expansion of a dyadic rational (a Fraction whose denominator is a power of two)"""
    neg, fr = fr < 0, abs(fr)
    k = fr.denominator.bit_length() - 1
    digits = str(fr.numerator * 5 ** k)
    if k:
        digits = digits.rjust(k + 1, "0")
        digits = digits[:-k] + "." + digits[-k:]
    return ("-" if neg else "") + digits


def respell(rng, text):
    """the same decimal number written with its point moved and the exponent adjusted (exactly the same value)"""
    m = re.fullmatch(r"(-?)(\d*)\.?(\d*)(?:[eE]([+-]?\d+))?", text)
    sign, ip, fp, ex = m.group(1), m.group(2), m.group(3), int(m.group(4) or 0)
    digs = (ip + fp).lstrip("0") or "0"
    ex -= len(fp)
    z = rng.randrange(4)
    if z == 0:
        return "%s%se%d" % (sign, digs, ex)
    if z == 1:
        return "%s0.%se%+d" % (sign, digs, ex + len(digs))
    if z == 2:
        return "%s%s.%sE%d" % (sign, digs[0], digs[1:], ex + len(digs) - 1)
    k = rng.randrange(1, 30)
    return "%s%s%se%d" % (sign, digs, "0" * k, ex - k)


def gen_scaled(ctx):
    """audit 2 (D): floating-point texts of every magnitude -- exactly representable powers of two from the smallest
    denormal to 2^1023 written out in full (up to 1075 characters), dyadic mantissas scaled by 2^+-300 / into the
    denormal range, the neighbourhood of the largest finite value, 17-digit decimals at huge and tiny exponents, mixed
    scales within one sequence -- each also re-spelled with a moved decimal point and adjusted exponent (exactly the
    same number: the exact oracle / the exact-decimal model give both spellings the identical bits)"""
    from fractions import Fraction
    rng = ctx.rng("scaled")
    nums = []
    for e in [-1074, -1073, -1050, -1023, -1022, -1021, -600, -300, -149, -126, -64, -1, 0, 1, 24, 53, 64, 127, 128, 300, 600, 1000, 1023]:
        nums.append(exact_decimal(Fraction(2) ** e))
    for _ in range(60 if ctx.quick else 600):
        mant = rng.choice([1, 3, 5, 2 ** 24 - 1, 2 ** 24 + 1, 2 ** 53 - 1, 2 ** 53 + 1, rng.randrange(1, 2 ** 53), rng.randrange(1, 2 ** 24)])
        e = rng.choice([-1074, -1060, -1022, -350, -300, -200, -149, -140, -30, 0, 30, 100, 200, 300, 900, 970])
        nums.append(exact_decimal(Fraction(mant) * Fraction(2) ** e * rng.choice([1, -1])))
    for _ in range(120 if ctx.quick else 1200):
        digs = "".join(rng.choice("0123456789") for _ in range(rng.choice([1, 2, 8, 16, 17, 18, 25])))
        e = rng.choice([-340, -330, -324, -323, -310, -308, -300, -100, -45, -38, -20, 0, 20, 38, 39, 100, 290, 300, 307, 308, 309])
        nums.append("%s%s.%se%d" % (rng.choice(["", "-", "+"]), digs[0], digs[1:], e))
    cases = []
    for a in nums:
        cases.append("get dbl %s" % X(a))
        if len(a) < 400:
            cases.append("get flt %s" % X(a))
        if not a.startswith("+"):
            b = respell(rng, a)
            cases.append("get dbl %s" % X(b))
            cases.append("get flt %s" % X(b))
    for _ in range(150 if ctx.quick else 1500):
        items = [rng.choice(nums) for _ in range(rng.choice([1, 2, 2, 2, 3, 5]))]
        st = rng.choice([" ", "\t", "\n", "  "]).join(items)
        for ty in ["vecd", "fv2d", "arr2d", "vecf"]:
            cases.append("get %s %s" % (ty, X(st)))
    return cases


# ------------------------------------------------------------------ stream 5: argument vectors

ARGV = ["-a", "1", "--a=1", "-", "--", "--help", "-h", "x", "", "-a.b", "--a.b=2", "--=", "--a", "-b", "a=1", "--b=", "--c=3=4", "-a.", "---x=1", "--a.b.c=5"]


def gen_argv(ctx):
    rng = ctx.rng("argv")
    cases = []
    for n in range(0, 3 if ctx.quick else 4):
        for t in itertools.product(ARGV, repeat=n):
            cases.append("opt %s" % L(list(t)))
    kws = [[], ["a"], ["a", "b"], ["a", "b", "c"], ["a", "a"], ["a.b", "c"], ["", "a"]]
    pres = [b"", b"", b"a = 5", b"a =\nb = 1", b"a.b = 1", b"[a]\nb = 1\n"]
    for _ in range(3000 if ctx.quick else 40000):
        kw = rng.choice(kws)
        req = rng.choice([0, 1, 2, 3, 4294967295, 2147483647, 2147483648])   # audit 2 (C): `required` is unsigned: 2^31 +- 1
        args = [rng.choice(ARGV) for _ in range(rng.choice([0, 1, 2, 2, 3, 4, 5]))]
        if rng.random() < 0.5:
            args = [a for a in args if a not in ("-h", "--help")]
        cases.append("nopt %d %d %d %s %s %s" % (req, rng.randrange(2), rng.randrange(2), L(kw), L(args), X(rng.choice(pres))))
    # the documented mappings (spec oracle applies): positional only / named only, overwrite allowed
    names = ["a", "b", "c", "dd", "e.f", "g"]
    for _ in range(1500 if ctx.quick else 20000):
        kw = rng.sample(names, rng.randrange(0, 6))
        req = rng.choice([0, 1, 2, 3, len(kw), 4294967295])
        if rng.random() < 0.5:
            args = [rng.choice(["1", "x", "", "-", "a=1", "-3", "v w"]) for _ in range(rng.randrange(0, len(kw) + 2))]
        else:
            ks = [rng.choice(kw) for _ in range(rng.randrange(0, len(kw) + 2))] if kw else []
            args = ["--%s=%s" % (k, rng.choice(["1", "", "x=y", "-"])) for k in ks]
        cases.append("nopt %d %d 1 %s %s %s" % (req, rng.randrange(2), L(kw), L(args), X(rng.choice(pres[:3]))))
    pool = ["a", "b", "c", "a.b", "c.d", "x"]
    for _ in range(1000 if ctx.quick else 10000):
        args = []
        for k in [rng.choice(pool) for _ in range(rng.randrange(0, 5))]:
            args += ["-" + k, rng.choice(["1", "", "-v", "x y", "--z=1"])]
        if rng.random() < 0.2:
            args.append("-" + rng.choice(pool))
        cases.append("opt %s" % L(args))
    # audit 2 (C, "capacity exceeds size"): readOptions(argc, argv) with an argv array that goes on behind argc:
    # every vector over the vocabulary up to length 3 with every count, and random longer ones
    for n in range(1, 4):
        for t in itertools.product(ARGV[:12], repeat=n):
            for k in range(0, n + 1):
                if k < n or n == 1:
                    cases.append("optn %d %s" % (k, L(list(t))))
    for _ in range(1500 if ctx.quick else 15000):
        args = [rng.choice(ARGV + ["-" + k for k in pool]) for _ in range(rng.randrange(1, 7))]
        cases.append("optn %d %s" % (rng.randrange(0, len(args) + 1), L(args)))
    return cases


# ------------------------------------------------------------------ oracle

def conv32(m):
    """exact decimal -> binary32, correctly rounded (ties to even); beyond the finite range: overflow"""
    import struct
    from fractions import Fraction
    neg, man, ex = m.group(1) == "-", int(m.group(2)), int(m.group(3))
    if man == 0 or ex + len(str(man)) < -60:
        bits = 0
    elif ex > 60 - len(str(man)) + 20:
        return "f:overflow"
    else:
        x = Fraction(man) * Fraction(10) ** ex
        if x >= Fraction(2 ** 25 - 1, 2 ** 24) * 2 ** 127:
            return "f:overflow"
        b0 = struct.unpack(">I", struct.pack(">f", min(float(x), 3.4028234663852886e38)))[0]
        best = None
        for b in (b0 - 1, b0, b0 + 1):
            if b < 0 or b >= 0x7f800000:
                continue
            v = Fraction(struct.unpack(">f", struct.pack(">I", b))[0])
            key = (abs(v - x), b & 1)
            if best is None or key < best[0]:
                best = (key, b)
        bits = best[1]
    if neg:
        bits |= 0x80000000
    return "f:%08x" % bits


def round_doubles(line):
    """Model lines carry doubles as exact decimals d:<sign>:<mantissa>:<exp10>; the implementation prints the IEEE bit
    pattern.  Round correctly (exact rational -> binary64, as a correct strtod does); a value beyond the finite
    range makes the extraction fail."""
    import struct
    from fractions import Fraction
    if "d:" not in line and "f:" not in line:
        return line
    over = []

    def conv(m):
        neg, man, ex = m.group(1) == "-", int(m.group(2)), int(m.group(3))
        try:
            if man == 0:
                v = 0.0
            elif ex > 400 + 20 - len(str(man)):
                raise OverflowError
            elif ex + len(str(man)) < -400:     # magnitude, not exponent: 2^-1074 written out in full is 5^1074 * 10^-1074
                v = 0.0
            else:
                v = float(Fraction(man) * Fraction(10) ** ex)
        except OverflowError:
            over.append(1)
            return "d:overflow"
        if v == float("inf"):
            over.append(1)
            return "d:overflow"
        if neg:
            v = -v
        return "d:" + struct.pack(">d", v).hex()
    out = re.sub(r"d:([+-]):(\d+):(-?\d+)", conv, line)
    out = re.sub(r"f:([+-]):(\d+):(-?\d+)", conv32, out)
    return "EXC RangeError" if (over or "f:overflow" in out) else out


DBL_RE = re.compile(r"[ \t\n\x0b\x0c\r]*[+-]?(\d+\.?\d*|\.\d+)([eE][+-]?\d+)?[ \t\n\x0b\x0c\r]*")


def spec_double(text):
    """Independent reading of a floating-point text: blanks, a decimal literal, blanks; correctly rounded; overflow is an error."""
    import struct
    if not DBL_RE.fullmatch(text):
        return "EXC RangeError"
    try:
        v = float(text.strip(" \t\n\x0b\x0c\r"))
    except (ValueError, OverflowError):
        return "?"
    if v in (float("inf"), float("-inf")):
        return "EXC RangeError"
    return "OK d:" + struct.pack(">d", v).hex()


def parse_assigns(f):
    if f == "-":
        return []
    out = []
    for a in f.split(","):
        p, v = a.split("=")
        out.append((tuple(bytes.fromhex(x[1:]) for x in p.split("/")), bytes.fromhex(v[1:])))
    return out


def spec_report(assigns, prefix):
    """report() of a tree holding exactly these assignments: values then subtrees, each in byte order of the keys."""
    def rep(node_path, entries):
        vals = sorted((p[0], v) for p, v in entries if len(p) == 1)
        out = b"".join(k + b' = "' + v + b'"\n' for k, v in vals)
        subs = sorted(set(p[0] for p, v in entries if len(p) > 1))
        for k in subs:
            out += b"[ " + prefix + b"".join(s + b"." for s in node_path) + k + b" ]\n"
            out += rep(node_path + (k,), [(p[1:], v) for p, v in entries if len(p) > 1 and p[0] == k])
        return out
    return rep((), assigns)


def nested_dump(assigns):
    """dump of the tree holding these (path, value) assignments, keys in order of first appearance"""
    vals, subs, order = {}, {}, []
    for p, v in assigns:
        if len(p) == 1:
            if p[0] not in vals:
                order.append(p[0])
            vals[p[0]] = v
        else:
            if p[0] not in subs:
                subs[p[0]] = []
            subs[p[0]].append((p[1:], v))
    out = "{" + "".join("%s=%s;" % (k.hex(), vals[k].hex()) for k in order) + "|"
    for k in subs:
        out += k.hex() + nested_dump(subs[k])
    return out + "}"


def related(p, q):
    m = min(len(p), len(q))
    return p[:m] == q[:m]


def gen_seq(ctx):
    """Object histories: several sources and command lines into one tree (or into one of its subtrees), also after
    rejected ones.  Where every step is well-formed the expected tree is computed here, independently."""
    rng = ctx.rng("seq")
    cases = []
    segs = ["a", "b", "c", "k1", "x y"]
    for _ in range(1500 if ctx.quick else 20000):
        target = rng.choice(["-", "-", "t", "t.u", "a"])
        tpath = () if target == "-" else tuple(target.split("."))
        wellformed = rng.random() < 0.65
        cur, steps = [], []
        for _ in range(rng.choice([1, 2, 2, 3, 4])):
            kind = rng.choice(["I0", "I1", "I1", "O"])
            n = rng.choice([0, 1, 2, 3])
            paths, tries = [], 0
            while len(paths) < n and tries < 50:
                tries += 1
                p = tuple(rng.choice(segs if kind != "O" else segs[:4]) for _ in range(rng.choice([1, 1, 2, 3])))
                full = tpath + p
                if any(related(full, q) and full != q for q, _ in cur):
                    continue                      # would be a value/subtree clash
                if any(related(p, q) for q, _ in paths):
                    continue
                paths.append((p, ("v%d" % rng.randrange(100)).encode()))
            if not wellformed and rng.random() < 0.5:
                z = rng.random()
                if z < 0.4 and paths:
                    paths.append(paths[0])            # duplicate within one source
                elif z < 0.7 and cur:
                    q = rng.choice(cur)[0][len(tpath):] or ("zz",)
                    paths.append((q + ("deeper",), b"clash"))  # a value used as subtree
                else:
                    paths.append((("",), b"empty-key"))
            if kind == "O":
                args = []
                for p, v in paths:
                    args += ["-" + ".".join(p), v.decode()]
                steps.append((kind, L(args)))
            else:
                doc = "".join("%s = %s\n" % (".".join(p), v.decode()) for p, v in paths)
                steps.append((kind, X(doc)))
            for p, v in paths:
                full = tpath + p
                if any(q == full for q, _ in cur):
                    if kind != "I0":
                        cur = [(q, (v if q == full else w)) for q, w in cur]
                else:
                    cur.append((full, v))
        line = "seq %s %s" % (target if target == "-" else X(target), " ".join("%s %s" % st for st in steps))
        if wellformed:
            want = nested_dump([(tuple(s_.encode() for s_ in p), v) for p, v in cur])
            if not cur:
                for seg in reversed(tpath):   # sub(target) has created the (empty) subtrees
                    want = "{|" + seg.encode().hex() + want + "}"
            line += " E=" + want
        cases.append(line)
    # sizes: a long value, many keys, deep nesting, long runs of blanks
    cases.append("ini 1 x %s %s" % (X("k = " + "v" * 100000 + "\n"), L(["k"])))
    cases.append("ini 1 x %s %s" % (X("".join("k%d = %d\n" % (i, i) for i in range(3000))), L(["k0", "k2999"])))
    deep = ".".join("d%d" % i for i in range(300))
    cases.append("ini 1 x %s %s" % (X(deep + " = deep\n"), L([deep, "d0"])))
    cases.append("ini 1 x %s %s" % (X(" " * 50000 + "[" + " " * 50000 + "g" + " " * 1000 + "]\n" + "\t" * 20000 + "k=1"), L(["g.k"])))
    cases.append("get vec %s" % X(" ".join(str(i) for i in range(5000))))
    cases.append("get string %s" % X(" " * 30000 + "s" + "\t" * 30000))
    return cases


def case_kind(c):
    t = c.split()
    if t[0] in ("ini", "inif"):
        return t[0] + (":spec" if len(t) >= 7 else ":bytes")
    if t[0] == "get":
        return "get:" + t[1]
    return t[0]


def sig_of(c, impl, spec, reason=""):
    if reason.startswith("readOptions/readNamedOptions must neither"):
        return "C12:argv:readonly-oversized"
    if reason.startswith("aliasing assignment"):
        return "C12:tree:alias-assign"
    if reason.startswith("copy/assignment"):
        return "C12:tree:copy"
    if reason.startswith("all readINITree overloads"):
        return "C12:ini:overload"
    if reason.startswith("report()"):
        return "C12:report"
    if reason.startswith("get(key, const char*)"):
        return "C12:get:cstr-default"
    if reason.startswith("const operator[]"):
        return "C12:tree:const-index"
    if reason.startswith("sub(key, true)") or reason.startswith("after a non-const sub"):
        return "C12:tree:sub"
    t = c.split()
    if impl.startswith("CRASH") or impl.startswith("HANG"):
        return "C12:%s:%s" % (t[0], "crash" if impl.startswith("CRASH") else "hang")
    if t[0] == "get":
        if t[1].startswith("arr") and impl.startswith("OK") and spec.startswith("EXC"):
            return "C12:range:accepts-malformed"
        return "C12:get:%s" % t[1]
    if t[0] in ("ini", "inif"):
        if len(t) >= 8 and hash_in_quoted(t[7]):
            return "C12:ini:hash-in-quoted-value"
        return "C12:ini:tree" if spec.startswith("ok") else "C12:ini:status"
    return "C12:" + t[0]


def hash_in_quoted(items_field):
    """Does the document (given as dialect items) contain a quoted value with '#' on its first line?"""
    for it in items_field.split(","):
        if it[:2] in ("Q:", "N:"):
            f = it[2:].split("/")
            if "23" in re.findall("..", f[5][1:]):
                return True
    return False


def oracle(c, impl, spec):
    """None if the spec accepts the impl's observation (or does not speak), else the reason."""
    if impl.startswith("CRASH") or impl.startswith("HANG") or impl.startswith("NOT-RUN"):
        return "arbitrary input must not crash or hang: " + impl
    t = c.split()
    if t[0] == "seq":
        if t[-1].startswith("E="):
            sts, _, d = impl.partition(" ")
            if set(sts.split(",")) - {"ok", ""}:
                return "every source of this history is well-formed and must be accepted, statuses: " + sts
            return None if d == t[-1][2:] else "after this history the tree must be %s" % t[-1][2:][:300]
        return None
    if t[0] == "get" and t[1] == "dbl":
        want = spec_double(bytes.fromhex(t[2][1:]).decode("latin-1"))
        return None if want == "?" or impl == want else "the text denotes %s" % want
    if t[0] == "get" and t[1] in ("vecd", "fv2d", "arr2d"):
        # independent reading of a sequence of floating-point texts: the blank-separated items, each as spec_double
        # (only where every item is a complete decimal literal: "1e" / "1.2.3" etc. are left to the model comparison)
        toks = [x for x in re.split(r"[ \t\n\r]+", bytes.fromhex(t[2][1:]).decode("latin-1")) if x]
        if toks and all(DBL_RE.fullmatch(x) and x.strip() == x for x in toks):
            vals = [spec_double(x) for x in toks]
            if "?" not in vals:
                if t[1] != "vecd" and len(toks) != 2:
                    want = "EXC RangeError"
                elif any(v.startswith("EXC") for v in vals):
                    want = "EXC RangeError"
                else:
                    want = "OK [" + ",".join(v[3:] for v in vals) + "]"
                if impl != want:
                    return "the text denotes %s" % want[:300]
        return None
    if t[0] in ("opt", "nopt") and av_field(impl) not in (None, "ok"):
        return "readOptions/readNamedOptions must neither write to the argument vector nor look behind argc: " + av_field(impl)[:200]
    if t[0] == "inif":
        r = oracle_api(t, impl, spec)
        if r is not None:
            return r
    if t[0] in ("ini", "inif"):
        sp = spec.split(" ub=")[0]
        if sp == "?":
            return None
        if sp == "ParameterTreeParserError":
            return None if impl.startswith("ParameterTreeParserError ") else "a key assigned twice in one source must be rejected, got: " + impl[:60]
        got = " ".join(impl.split(" ")[:2])
        return None if got == sp else "tree differs from the written hierarchy: expected %s" % sp
    if spec == "?":
        return None
    return None if strip_av(impl) == spec else "spec says %s" % spec


def av_field(impl):
    m = re.search(r" AV=(\S+)$", impl)
    return m.group(1) if m else None


def strip_av(impl):
    return re.sub(r" AV=\S+$", "", impl)


def sorted_dump(d):
    """The dump of a clash-free tree with the keys of every node in byte order (values, then non-empty subtrees:
    an empty subtree prints only its header and does not come back)."""
    pos = [0]

    def node():
        assert d[pos[0]] == "{"
        pos[0] += 1
        vals, subs = [], []
        while d[pos[0]] != "|":
            j = d.index("=", pos[0]); k = d[pos[0]:j]; e = d.index(";", j)
            vals.append((k, d[j + 1:e])); pos[0] = e + 1
        pos[0] += 1
        while d[pos[0]] != "}":
            j = pos[0]
            while d[j] not in "{!":
                j += 1
            k = d[pos[0]:j]; pos[0] = j
            if d[j] == "!" or k == "":
                raise ValueError      # clash, or an empty key segment (outside the printable fragment)
            subs.append((k, node()))
        pos[0] += 1
        return (vals, subs)

    def nonempty(n):
        return bool(n[0]) or any(nonempty(s) for _, s in n[1])

    def show(n):
        vs = sorted(n[0], key=lambda kv: bytes.fromhex(kv[0]))
        ss = sorted([(k, s) for k, s in n[1] if nonempty(s)], key=lambda ks: bytes.fromhex(ks[0]))
        return "{" + "".join("%s=%s;" % kv for kv in vs) + "|" + "".join(k + show(s) for k, s in ss) + "}"
    try:
        if "!" in d:
            return None
        return show(node())
    except Exception:
        return None


def oracle_api(t, impl, spec):
    """Self-consistency of the remaining public members on the implementation's own tree (op inif)."""
    m = re.search(r" C=(.*?) ov=(.*)$", impl)
    if not m:
        return "api observation missing"
    al = re.search(r" AL=(\S+)", impl)
    if al and al.group(1) != "ok":
        return "aliasing assignment (the source is a subtree of the target / contains the target) must read the source first: " + al.group(1)
    if m.group(1) != "ok":
        return "copy/assignment/move must give an equal, independent tree: " + m.group(1)
    if m.group(2) != "ok":
        return "all readINITree overloads must read the same tree: " + m.group(2)
    # per query: get(k, const char*) = get(k, std::string); sub(k, true) throws exactly when there is no such
    # subtree; both const sub() agree on an existing subtree; a non-const sub(k) that returns has created it
    qm = re.search(r" Q:(\S*)", impl)
    qs = qm.group(1).split(",") if qm and qm.group(1) else []
    ex = re.findall(r" c(x[0-9a-f]*|E)o(x[0-9a-f]*|E)T(\{\d+,\d+\}|E)F(\{\d+,\d+\}|E)M(\d+|E)([01E])#(\d+)", impl)
    for q, (cval, oval, tt, ff, mm_, hs, _) in zip(qs, ex):
        qq = re.fullmatch(r"h([01E])s([01E])g(x[0-9a-f]*|E)", q)
        if not qq:
            continue
        if cval != qq.group(3):
            return "get(key, const char*) must agree with get(key, std::string): %s vs %s" % (cval, qq.group(3))
        if (qq.group(1) == "1" and oval != qq.group(3)) or (qq.group(1) == "0" and oval != "E"):
            return "const operator[] must return the value of a present key and raise RangeError for an absent one: %s (hasKey %s)" % (oval, qq.group(1))
        if qq.group(2) == "1" and (tt == "E" or tt != ff):
            return "sub(key, true) and sub(key, false) must both return the existing subtree: %s / %s" % (tt, ff)
        if qq.group(2) == "0" and tt != "E":
            return "sub(key, true) must raise RangeError for a missing subtree, returned %s" % tt
        if mm_ != "E" and hs != "1":
            return "after a non-const sub(key) that returned, hasSub(key) must hold (got %s)" % hs
    # a copy of a MISSING subtree is a copy of the static empty tree, whose prefix is documented as "<unknown>"
    rcm = re.search(r" rc=(\S+)", impl)
    if rcm and qs:
        q0 = re.fullmatch(r"h([01E])s([01E])g(x[0-9a-f]*|E)", qs[0])
        if q0 and q0.group(2) == "0" and rcm.group(1) != "E":
            want = b'[ <unknown>n ]\nm = "1"\n'.hex()
            if rcm.group(1) != want:
                return "report() of a copy of a missing subtree (prefix <unknown>) after sc[\"n.m\"]=1 must be %r" % bytes.fromhex(want)
    # report() -> readINITree(): where the tree is a printable hierarchy, the text must be accepted and every
    # entry must come back (the re-read tree lists keys in report order: sorted)
    rtm = re.search(r" rt=([01]+)$", spec)
    rrm = re.search(r" rr=(\S+?):(\S+) rt=", impl)
    if rtm and rrm and rtm.group(1)[-1] == "1":
        if rrm.group(1) != "ok":
            return "report() of a printable hierarchy must be readable by readINITree, got " + rrm.group(1)
        want = sorted_dump(impl.split(" ")[1])
        if want is not None and rrm.group(2) != want:
            return "report() read back must give the same entries: expected %s" % want[:300]
    spec = re.sub(r" rt=[01]+$", "", spec)
    sp = spec.split(" ub=")[0]
    if len(t) >= 7 and sp.startswith("ok ") and impl.startswith(sp + " ") and not (len(t) >= 8 and hash_in_quoted(t[7])):
        # the tree is the written hierarchy: report() must list exactly it
        pre, doc, ow = parse_assigns(t[5]), parse_assigns(t[6]), t[1] == "1"
        merged = list(pre)
        for p, v in doc:
            idx = [i for i, (q, _) in enumerate(merged) if q == p]
            if idx:
                if ow:
                    merged[idx[0]] = (p, v)
            else:
                merged.append((p, v))
        want = spec_report(merged, b"P:").hex()
        got = re.search(r" R=([0-9a-f]*)", impl)
        if not got or got.group(1) != want:
            return "report() must list every entry once, values then subtrees in key order: expected " + repr(bytes.fromhex(want))[:300]
    return None


def decode_case(c):
    """Human-readable rendering of a case for replay files."""
    out = []
    for f in c.split():
        if re.fullmatch(r"x([0-9a-f]{2})*", f):
            out.append(repr(bytes.fromhex(f[1:]).decode("latin-1")))
        elif re.fullmatch(r"(x([0-9a-f]{2})*,)+x([0-9a-f]{2})*", f):
            out.append("[" + ", ".join(repr(bytes.fromhex(g[1:]).decode("latin-1")) for g in f.split(",")) + "]")
        else:
            out.append(f)
    return " ".join(out)[:1500]


def build(ctx, san=True):
    model = V.build_model(ctx)
    jobs = [dict(srcs=[HARNESS], out=ctx.path("impl"), repo_srcs=REPO_SRCS, opt="-O2")]
    if san:
        jobs.append(dict(srcs=[HARNESS], out=ctx.path("impl_san"), repo_srcs=REPO_SRCS, san=True))
    bins = V.cxx_many(ctx, jobs)
    return model, bins[0], (bins[1] if san else None)


def split_model(m):
    mm, _, spec = m.partition(" | ")
    # rt=<0|1> (hypotheses of C12_report_roundtrip_partial hold for the model's tree) is spec information
    rt = re.findall(r" rt=([01])", mm)
    if rt:
        mm = re.sub(r" rt=[01]", " rt=", mm)
        spec = spec + " rt=" + "".join(rt)
    return round_doubles(mm), spec


def model_matches(mm, impl):
    """Model observation: one line, or 'as found ~ repaired' where the two variants of readINITree's comment
    search (before / after fixes/C12-3.patch) differ."""
    impl = strip_av(impl)
    if " ~ " in mm:
        a, b = mm.split(" ~ ")
        return "asis" if impl == a else ("fixed" if impl == b else None)
    return "both" if impl == mm else None


def params_hook(ctx):
    V.sh([sys.executable, os.path.join(V.VERIF, "tools", "extract_params.py"), ctx.repo], check=True)


def run(ctx):
    ctx.params_hook = params_hook
    V.coq_stage(ctx)
    model, impl, impl_san = build(ctx)
    quick = ctx.quick
    streams = []
    corpus = []
    cp = os.path.join(V.VERIF, "corpus", "C12", "cases.txt")
    if os.path.exists(cp):
        corpus = [l.rstrip("\n") for l in open(cp) if l.strip() and not l.startswith("#")]
    corpus = corpus + ["inif" + l[3:] for l in corpus if l.startswith("ini ")]
    streams.append(("corpus", corpus))
    streams.append(("rendered", gen_rendered(ctx, 4000 if quick else 60000)))
    streams.append(("exhaustive", gen_exhaustive_docs(5 if quick else 6)
                    + gen_exhaustive_docs(4 if quick else 5, pre=b"a=P\n[.]\na=Q\n", ows=(0, 1))))
    streams.append(("malformed", gen_malformed(ctx, 6000 if quick else 100000)))
    streams.append(("values", gen_values(ctx)))
    streams.append(("argv", gen_argv(ctx)))
    streams.append(("histories", gen_seq(ctx)))
    cases, tags = [], []
    for name, cs in streams:
        cases += cs
        tags += [name] * len(cs)
    ctx.log("generated %d cases (%s)" % (len(cases), ", ".join("%s=%d" % (n, len(c)) for n, c in streams)))
    mo = V.run_cases(ctx, [model], cases, tag="model", timeout=3600)
    # generous budgets: a loaded machine must not look like a hang (a real hang costs this once, later ones 10 s)
    io = V.run_cases(ctx, [impl], cases, tag="impl", timeout=900 if quick else 3600)
    io = confirm_hangs(ctx, impl, cases, io)
    # sanitizer build: everything malformed + corpus + a subsample of the rest
    step = 9 if quick else 4
    sub = [i for i, tg in enumerate(tags) if tg in ("malformed", "corpus") or i % step == 0]
    so = V.run_cases(ctx, [impl_san], [cases[i] for i in sub], tag="san", timeout=1800 if quick else 7200)
    so = confirm_hangs(ctx, impl_san, [cases[i] for i in sub], so)
    # locale independence: the value stream again under a global C++ locale with decimal comma and digit grouping
    vidx = [i for i, tg in enumerate(tags) if tg == "values"]
    lo = run_with_arg(ctx, impl, [cases[i] for i in vidx], "comma-locale")
    nviol = ndis = 0
    persig = {}
    dialect = {"items_ok": 0, "items_not_ok": 0, "bytes_are_rendering": 0, "bytes_differ": 0, "theorem_rhs_equals_model": 0, "theorem_rhs_differs": 0}
    kinds, variants, ub_cases = {}, {"asis": 0, "fixed": 0}, 0
    statuses = {}
    for i, (c, m, a) in enumerate(zip(cases, mo, io)):
        k = case_kind(c)
        kinds[k] = kinds.get(k, 0) + 1
        mm, spec = split_model(m)
        if " ub=1" in spec:
            ub_cases += 1
        md = re.search(r" dialect=(\d)(\d)(\d)", spec)
        if md:
            dialect["items_ok" if md.group(1) == "1" else "items_not_ok"] += 1
            dialect["bytes_are_rendering" if md.group(2) == "1" else "bytes_differ"] += 1
            dialect["theorem_rhs_equals_model" if md.group(3) == "1" else "theorem_rhs_differs"] += 1
            if md.group(1) == "1" and md.group(2) == "1" and md.group(3) != "1":
                ctx.violation("coq:theorem:C12_roundtrip:instance", {"broken": "extracted model contradicts theorem C12_roundtrip on an instance", "case": c}, found_input=False)
            spec = spec[:md.start()]
        st = a.split(" ")[0] if not a.startswith("OK") and not a.startswith("EXC") else a.split(" ")[0]
        statuses[st] = statuses.get(st, 0) + 1
        reason = oracle(c, a, spec)
        if reason is not None:
            nviol += 1
            sg = sig_of(c, a, spec, reason)
            persig[sg] = persig.get(sg, 0) + 1
            if persig[sg] <= 5:
                ctx.violation(sg, {"case": c, "readable": decode_case(c), "impl": a, "model": mm, "spec": spec, "oracle": reason,
                                                   "stream": tags[i], "replay_cmd": "bin/check C12 --replay <this file>"})
            continue
        mt = model_matches(mm, a)
        if mt is None:
            ndis += 1
            if ndis <= 20:
                ctx.violation("corr:C12/%s" % k, {"broken": "corr:C12/%s" % k, "case": c, "readable": decode_case(c), "impl": a, "model": mm, "spec": spec,
                                                  "oracle": "accepts impl output (or does not speak about this input)", "stream": tags[i]}, found_input=False)
        elif mt in variants:
            variants[mt] += 1
    for j, i in enumerate(sub):
        # the verdict of an undefined aliasing assignment (F-C12-4) may differ between the builds; and the sanitizer
        # build runs that test on fewer cases
        nrm = lambda x: re.sub(r" AL=\S+", " AL=*", x)
        if j < len(so) and nrm(so[j]) != nrm(io[i]):
            ctx.violation("C12:%s:sanitizer" % cases[i].split()[0], {"case": cases[i], "readable": decode_case(cases[i]), "impl": io[i], "impl_sanitized_build": so[j],
                                                                     "oracle": "ASan/UBSan build behaves differently or aborts"})
    for j, i in enumerate(vidx):
        if j < len(lo) and lo[j] != io[i]:
            ctx.violation("C12:locale", {"case": cases[i], "readable": decode_case(cases[i]), "impl": io[i], "impl_under_comma_locale": lo[j],
                                         "oracle": "typed retrieval must not depend on the process locale"})
    distinct = len(set(cases))
    nontrivial = len(set(c for c, a in zip(cases, io) if not a.startswith("ok {|}")))
    ctx.coverage.update({
        "evaluations": len(cases), "distinct_nontrivial": nontrivial,
        "rule": "cases = corpus + rendered random hierarchies (group/dotted/blank/comment/quote/multi-line layout choices, prefilled tree, both overwrite modes, "
                "duplicates) + ALL documents over {a . = # [ ] \" space newline} up to length %d (and up to %d into a prefilled tree, both modes) "
                "+ malformed/random bytes + value strings (all strings over {0 1 9 - + space x tab} up to length %d for int/uint/bool/array<int,1>/vector<int>, "
                "all strings over {1 - + space} up to length %d for array<int,3>, type limits +-1 with decorations, token lists with trailing garbage) "
                "+ argv vectors (all vectors over a %d-word vocabulary up to length %d for readOptions, random for readNamedOptions); "
                "non-trivial = distinct case lines whose impl observation is not the empty tree with status ok"
                % ((5, 4, 4, 7, len(ARGV), 2) if quick else (6, 5, 5, 9, len(ARGV), 3)),
        "distinct_cases": distinct,
        "samples": [decode_case(c)[:300] for c in (cases[len(corpus):len(corpus) + 2] + cases[len(cases) // 2: len(cases) // 2 + 2] + cases[-2:])],
        "stream_sizes": {n: len(c) for n, c in streams}, "case_kinds": kinds, "impl_status_distribution": statuses,
        "impl_model_disagreements": ndis, "oracle_rejections": nviol, "oracle_rejections_by_signature": persig,
        "comment_search_variant_matched_on_discriminating_cases": variants,
        "model_flags_undefined_rbegin_read_cases": ub_cases,
        "rendered_documents_vs_dialect_of_C12_roundtrip": dialect,
        "sanitizer_cases": len(sub), "comma_locale_cases": len(vidx), "os_locale_with_decimal_comma": "not installed (C, C.utf8, POSIX only); C++ global locale with custom numpunct used instead",
        "exhaustive": False, "traces_validated_against_impl": len(cases),
    })
    if ub_cases:
        ctx.notes.append("F-C12-2: %d generated documents make readINITree evaluate *(rtrim(value).rbegin()) on an empty string (undefined read, "
                         "benign with libstdc++: reads a zero byte of the SSO header); not observable on the impl, flagged by the model" % ub_cases)
    try:
        rep = json.load(open(os.path.join(V.VERIF, "build", "params_report.json")))
        ctx.coverage["source_constants"] = {k: v for k, v in rep.items() if k.startswith("c12_")}
    except Exception:
        pass
    ctx.assumptions += ["std::num_get integer extraction is modelled (sign, digits, overflow => failbit, eofbit when the text ends inside a number)",
                        "floating-point text conversion (strtod) not modelled: get<double>/FieldVector<double,n> are outside the checked set",
                        "report() (std::map order) not modelled"]


def confirm_hangs(ctx, exe, cases, obs):
    """A case reported as HANG / NOT-RUN is run again alone with its own budget before it counts (DESIGN 2.4:
    a hang reproduces, a loaded machine does not)."""
    out = list(obs)
    redo = [i for i, o in enumerate(out) if o.startswith("HANG") or o.startswith("NOT-RUN")]
    for i in redo[:200]:
        r = V.run_cases(ctx, [exe], [cases[i]], tag="rehang", timeout=120)
        if r:
            out[i] = r[0]
    return out


def run_with_arg(ctx, exe, cases, arg):
    """Like V.run_cases but with an extra argv[2]; crashes are not expected here (same binary, same cases)."""
    cf = ctx.path("loc.cases")
    open(cf, "w").write("\n".join(cases) + "\n")
    rc, out = V.sh([exe, cf, arg], timeout=300)
    lines = out.split("\n")
    if lines and lines[-1] == "":
        lines.pop()
    return lines


def replay(ctx, path):
    rep = json.load(open(path))
    case = rep["case"]
    model, impl, _ = build(ctx, san=False)
    mo = V.run_cases(ctx, [model], [case], tag="rmodel")
    io = V.run_cases(ctx, [impl], [case], tag="rimpl", timeout=20)
    mm, spec = split_model(mo[0])
    print("case  :", decode_case(case)); print("impl  :", io[0]); print("model :", mm); print("spec  :", spec)
    r = oracle(case, io[0], spec)
    print("oracle:", r or ("accepts" if model_matches(mm, io[0]) else "does not reject, but impl differs from model"))
    return 1 if r or not model_matches(mm, io[0]) else 0
