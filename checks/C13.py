"""C13 — IndicesSyncer completes index sets and remote index lists to mutual consistency (DESIGN.md section 4, C13)."""
import os, sys, re, json, glob
import vcheck as V

META = {
    "level": "proof",
    "technique": "Coq proof on a list-level model of IndicesSyncer::sync (pack / unpack / sorted insertion / merge / pointer repair, "
                 "all decompositions, deletion sets, process counts and arrival orders) + extracted-model vs MPI differential "
                 "correspondence with the extracted spec as oracle on the implementation's own dumps, PMPI schedule perturbation, ASan build",
    "text": "Theorems in coq/Properties_C13.v about the model of dune/common/parallel/indicessyncer.hh (coq/C13_Model.v), for every world "
            "(any process count, any neighbour graph incl. newly discovered neighbours), numberer and EVERY arrangement of the incoming "
            "messages on every rank: the collective sync never blocks; index set strictly ordered, new pairs public and numbered by the numberer "
            "(call sequence ascending per message); every list ordered, duplicate-free, all references repaired inside the set; nothing lost "
            "or invented; what a rank believed about a neighbour is completed there with all third-party holders (C13_world_completion); the "
            "result is independent of the processing order (C13_world_order_independent); for a consistent world W (pairwise intersection of "
            "public copies, as C04_spec) and ANY deletion of copies with their remote entries such that each deleted copy is still listed by "
            "another rank, sync returns exactly W up to the local numbers of the re-added pairs (C13_restore / C13_world_restore, full) and a "
            "second sync is idle; isSynced afterwards; calculateMessageSizes announces what is packed; the iterator-tuple insertion and the "
            "RemoteIndexListModifier<true> loops are modelled literally and refine the list-level operations.  The variant of the model that "
            "describes the CURRENT source, the tags, the public flag and the default number are re-read from the source on every run "
            "(tools/params.d/C13.py).  The code before fixes 30ae05b/23083bc is the variant c13_asis; the *_asis_refuted theorems keep its "
            "witnesses.  The model is tied to the code on every run by an MPI harness (checked / ASan / NDEBUG builds, split communicators, "
            "neighbour hints, includeSelf, ignorePublic, two global-index types, hand-grown pairs, second sync); the extracted spec is the oracle "
            "on the implementation's own dumps.",
    "note": "Trusted: Coq kernel, extraction, OCaml driver, C++ MPI harness, PMPI shim, OpenMPI; MPI point-to-point semantics and "
            "RemoteIndices::rebuild (C04) are modelled (the harness checks the rebuilt state against the pairwise intersection), not verified.",
    "design_ref": "DESIGN.md section 4 C13",
}

HARNESS = [os.path.join(V.VERIF, "harness/C13/impl.cc"), os.path.join(V.VERIF, "harness/common/pmpi_sched.c")]
OWNER = 1


# --------------------------------------------------------------------------- cases
# case dict: P, fixed, num, del ('F'|'M'), seed, I = per rank list of (g, a, pub, l) sorted by g, D = per rank sorted globals

OPT_DEFAULT = dict(nb=0, self=0, ign=0, gt=0, twice=0, nobar=0, mc=0, sf=0, da=0, ck=0, hist=0, gs=0, ao=0)


def fmt_case(c):
    t = [c["P"], c["fixed"], c["num"], c["del"], c["seed"]]
    for r in c["I"]:
        t.append(len(r))
        for q in r:
            t += list(q)
    for d in c["D"]:
        t.append(len(d)); t += d
    if c.get("forget"):
        t.append(len(c["forget"]))
        for a, b in c["forget"]:
            t += [a, b]
    for k in ("nb", "self", "ign", "gt", "twice", "nobar", "mc", "sf", "da", "ck", "hist", "gs", "ao"):
        if c.get(k):
            t.append("%s=%d" % (k, c[k]))
    if c.get("fx"):
        t.append("fx=" + ",".join(map(str, c["fx"])))
    if c.get("nm"):
        t.append("nm=" + ",".join(map(str, c["nm"])))
    if c.get("st2"):
        t.append("st2=%d:%s" % (c["st2"], ":".join(".".join(map(str, d)) for d in c["D2"])))
    if c.get("cm"):
        t.append("cm=" + ",".join(map(str, c["cm"])))
    if c.get("nb"):
        for p, h in enumerate(c.get("hints") or []):
            if h:
                t.append("h%d=%s" % (p, ",".join(map(str, h))))
    if c.get("grow"):
        t.append("grow=" + ";".join("%d:%d:%d:%d:%s" % (g["p"], g["g"], g["a"], g["l"], "+".join("%d.%d" % x for x in g["to"])) for g in c["grow"]))
    return " ".join(map(str, t))


def parse_case(line):
    t = line.split()
    P, fixed, num, dl, seed = int(t[0]), int(t[1]), int(t[2]), t[3], int(t[4])
    i = 5
    I, D = [], []
    for _ in range(P):
        n = int(t[i]); i += 1
        I.append([tuple(int(x) for x in t[i + 4 * k: i + 4 * k + 4]) for k in range(n)]); i += 4 * n
    for _ in range(P):
        m = int(t[i]); i += 1
        D.append([int(x) for x in t[i:i + m]]); i += m
    c = dict(P=P, fixed=fixed, num=num, seed=seed, I=I, D=D, forget=[], hints=[[] for _ in range(P)], grow=[], cm=[], **{"del": dl})
    c.update(OPT_DEFAULT)
    if i < len(t) and "=" not in t[i]:
        nf = int(t[i]); i += 1
        c["forget"] = [(int(t[i + 2 * k]), int(t[i + 2 * k + 1])) for k in range(nf)]; i += 2 * nf
    for tok in t[i:]:
        k, v = tok.split("=", 1)
        if k in OPT_DEFAULT:
            c[k] = int(v)
        elif k == "cm":
            c["cm"] = [int(x) for x in v.split(",") if x]
        elif k in ("fx", "nm"):
            c[k] = [int(x) for x in v.split(",") if x]
        elif k == "st2":
            f = v.split(":")
            c["st2"] = int(f[0]); c["D2"] = [[int(x) for x in d.split(".") if x] for d in f[1:]]
        elif k[0] == "h":
            c["hints"][int(k[1:])] = [int(x) for x in v.split(",") if x]
        elif k == "grow":
            for one in v.split(";"):
                f = one.split(":")
                c["grow"].append(dict(p=int(f[0]), g=int(f[1]), a=int(f[2]), l=int(f[3]),
                                      to=[tuple(int(y) for y in x.split(".")) for x in f[4].split("+")]))
    return c


def fixed_of(c, p):
    return c["fx"][p] if c.get("fx") else c["fixed"]


def num_of(c, p):
    return c["nm"][p] if c.get("nm") else c["num"]


def all_fixed(c):
    """every rank processes its messages in fixed order (sync() without numberer always uses the arrival order)"""
    return all(fixed_of(c, p) and num_of(c, p) for p in range(c["P"]))


def lstr(l):
    return "max" if l < 0 else str(l)


def forgotten(c, p, q):
    return (p, q) in (c.get("forget") or []) or (q, p) in (c.get("forget") or [])


def world_struct(c, stage):
    """(isets, lists): isets[p] = sorted [(g, a, pub, l)], lists[p] = {q: [(g, la, ra)] ascending g}.
    stage 'B': the state RemoteIndices::rebuild produces for a decomposition with at most one copy of a global index per rank --
    pairwise intersection of the public copies (all copies with ignorePublic), restricted to the hinted neighbours when neighbour
    hints are given (nb > 0; pairs that forgot each other are simply not hinted), a list exactly when non-empty.
    stage 'D': after forgetting (nb == 0), deleting the copies c['D'] with their remote entries (lists kept when empty) and growing."""
    P = c["P"]
    full = [sorted(r) for r in c["I"]]
    pubs = [{q[0]: q[1] for q in r if (q[2] or c.get("ign"))} for r in full]
    isets, lists = [], []
    for p in range(P):
        dels = set(c["D"][p]) if stage == "D" else set()
        isets.append([q for q in full[p] if q[0] not in dels])
        L = {}
        for q in range(P):
            if q == p:
                continue
            common = sorted(set(pubs[p]) & set(pubs[q]))
            if not common:
                continue
            if c.get("nb"):
                if q not in c["hints"][p] or p not in c["hints"][q]:
                    continue
            elif stage == "D" and forgotten(c, p, q):
                continue
            L[q] = [(g, pubs[p][g], pubs[q][g]) for g in common if g not in dels]
        lists.append(L)
    if stage == "D":
        for gr in c.get("grow") or []:
            p = gr["p"]
            isets[p] = sorted(isets[p] + [(gr["g"], gr["a"], 1, gr["l"])])
            for q, ra in gr["to"]:
                lists[p][q] = sorted(lists[p].get(q, []) + [(gr["g"], gr["a"], ra)])
    return isets, lists


def world_after_rebuild(c, deleted=False):
    """rank dumps in the format of harness/C13/impl.cc for stage B (deleted=False) or D"""
    isets, lists = world_struct(c, "D" if deleted else "B")
    res = []
    for p in range(c["P"]):
        posn = {q[0]: k for k, q in enumerate(isets[p])}
        s = "I" + "".join(" %d.%d.%s.%d" % (q[0], q[1], lstr(q[3]), q[2]) for q in isets[p]) + " R"
        for q in sorted(lists[p]):
            s += " %d:%s" % (q, ",".join("%d.%d.%d.%d" % (g, la, ra, posn[g]) for g, la, ra in lists[p][q]))
        res.append(s + " Y 1")
    return " / ".join(res)


def restore_judged(c):
    """the restore post-condition speaks of the rebuilt state of a full rebuild: not judged when knowledge was restricted or
    extended by hand, or when (ignorePublic) a deleted copy was non-public: re-added pairs are public by construction"""
    if c.get("forget") or c.get("grow"):
        return False
    if c.get("ign"):
        for p, r in enumerate(c["I"]):
            if any((not q[2]) and q[0] in c["D"][p] for q in r):
                return False
    return True


def strip_obs(world, keepY=True):
    """drop the numberer-call records (and optionally the synced flags) of a world dump or of a whole impl line"""
    w = re.sub(r" N [0-9,]+", "", world)
    w = re.sub(r" N(?= |$)", "", w)
    w = re.sub(r" +(?= [/#])", "", w).rstrip()
    if not keepY:
        w = re.sub(r" Y [01](?= |$)", "", w)
    return w


def orders_of(c, rng):
    """per rank the order in which the model processes its sources: ascending for fixed order, a seeded permutation otherwise"""
    _, lists = world_struct(c, "D")
    return orders_from(c, [sorted(l) for l in lists], rng)


def orders_from(c, nbs, rng):
    res = []
    for p in range(c["P"]):
        nb = list(nbs[p])
        if not (fixed_of(c, p) and num_of(c, p) != 0):
            rng.shuffle(nb)
        res.append(",".join(map(str, nb)) if nb else "-")
    return res


def world_delete(c, w, D2):
    """the world dump w after every rank p deleted the copies D2[p] with their remote entries (lists kept when empty)"""
    res = []
    for p, (iset, lists) in enumerate(parse_world(w)):
        dels = set(D2[p])
        iset = [x for x in iset if x[0] not in dels]
        posn = {x[0]: k for k, x in enumerate(iset)}
        s = "I" + "".join(" %d.%d.%s.%d" % x for x in iset) + " R"
        for q in sorted(lists):
            s += " %d:%s" % (q, ",".join("%d.%d.%d.%d" % (g, la, ra, posn[g]) for g, la, ra, k in lists[q] if g not in dels))
        res.append(s + " Y 1")
    return " / ".join(res)


def gen_one(rng, NP, force=None):
    force = force or {}
    P = force.get("P", rng.choice([1, 2, 2, 3, 3, 3, 4, 4, 4][:max(1, min(9, 3 * NP - 3))] if NP < 4 else [1, 2, 2, 3, 3, 3, 4, 4, 4]))
    P = min(P, NP)
    U = rng.choice([1, 2, 3, 4, 5, 6, 7, 8, 10]) if rng.random() > .015 else rng.choice([100, 101, 150, 200])   # (large: beyond one chunk of 100)
    shape = rng.choice(["random", "random", "chain", "star", "all", "third"])
    I = [[] for _ in range(P)]
    base = rng.choice([0, 0, 3, 100])
    for j in range(U):
        g = base + j * rng.choice([1, 1, 2])
        if any(g == q[0] for r in I for q in r):
            g = base + 3 * U + j
        if shape == "chain":
            s = rng.randrange(P); hs = {s, min(P - 1, s + 1)} | ({max(0, s - 1)} if rng.random() < .4 else set())
        elif shape == "star":
            hs = {0, rng.randrange(P)} | ({rng.randrange(P)} if rng.random() < .5 else set())
        elif shape == "all":
            hs = set(range(P))
        elif shape == "third":
            hs = set(rng.sample(range(P), min(P, 3)))
        else:
            hs = {r for r in range(P) if rng.random() < .55} or {rng.randrange(P)}
        hs = sorted(hs)
        own = rng.choice(hs)
        for r in hs:
            a = OWNER if r == own else rng.choice([2, 2, 3])
            if rng.random() < .04:
                a = OWNER                      # equal attributes on two ranks (both "owner"-coloured): la == ra entries
            pub = 0 if rng.random() < .05 else 1
            I[r].append((g, a, pub, 0))
    for r in range(P):
        I[r].sort()
        ls = list(range(len(I[r]))); rng.shuffle(ls)
        I[r] = [(q[0], q[1], q[2], ls[k]) for k, q in enumerate(I[r])]
    pdel = force.get("pdel", rng.choice([0, .3, .3, .6, 1.0]))
    owners = {}
    for r in range(P):
        for q in I[r]:
            owners.setdefault(q[0], set())
    D = []
    for r in range(P):
        d = []
        for k, q in enumerate(I[r]):
            # the owner copy is the one with attribute 1 on the rank chosen as owner; extra attribute-1 copies count as owner too
            if q[1] != OWNER and rng.random() < pdel:
                d.append(q[0])
        D.append(d)
    num = force.get("num", rng.choice([0, 1, 1, 2]))
    fixed = force.get("fixed", rng.choice([0, 1]))
    dl = force.get("del", rng.choice(["M", "M", "m"]) if rng.random() < .18 else "F")
    seed = 0 if rng.random() < .2 else rng.randrange(1, 1 << 30)
    c = dict(P=P, fixed=fixed, num=num, seed=seed, I=I, D=D, forget=[], hints=[[] for _ in range(P)], grow=[], cm=[], **{"del": dl})
    c.update(OPT_DEFAULT)
    # ---- the communicator: MPI_COMM_WORLD's first P ranks in order, or a split communicator whose rank numbering differs from the
    #      world's (communicator rank i = world rank cm[i]): subset, reversed, rotated, shuffled subset.  All rank numbers of the case
    #      (neighbours, hints, forget, grow, dumps, model) are communicator ranks.
    if force.get("cm", rng.random() < .45):
        kind = rng.choice(["reversed", "rotated", "subset", "subset-reversed", "shuffled"])
        if kind == "reversed":
            c["cm"] = list(range(P - 1, -1, -1)) if (P > 1 or NP == 1) else [NP - 1]
        elif kind == "rotated":
            k = rng.randrange(1, NP); c["cm"] = [(i + k) % NP for i in range(P)]
        else:
            w = sorted(rng.sample(range(NP), P))
            if kind == "subset-reversed": w.reverse()
            if kind == "shuffled": rng.shuffle(w)
            c["cm"] = w
        if c["cm"] == list(range(P)):
            c["cm"] = [(i + 1) % NP for i in range(P)] if NP > 1 else []
    # ---- how the remote indices are built: ring / neighbour hints (constructor argument or setNeighbours), includeSelf, ignorePublic
    c["ign"] = force.get("ign", 1 if rng.random() < .15 else 0)
    c["self"] = force.get("self", 1 if rng.random() < .15 else 0)
    c["gt"] = force.get("gt", rng.choice([0, 0, 0, 0, 0, 1, 1, 2, 2, 0]))      # int/chunk 4, long/chunk 100, bigunsignedint<96>/chunk 7
    c["twice"] = force.get("twice", rng.choice([0, 0, 0, 0, 0, 0, 1, 1, 2, 2, 3, 3]))
    # special members / overloads / defaults / communicator kinds / object history (dimension audit)
    c["mc"] = 1 if (dl in "Mm" and rng.random() < .35) else 0
    c["sf"] = 1 if (dl == "F" and rng.random() < .3) else 0
    c["da"] = 1 if rng.random() < .3 else 0
    c["ck"] = (2 if rng.random() < .4 else 0) if P == 1 else (1 if rng.random() < .2 else 0)
    c["hist"] = 1 if (dl != "m" and rng.random() < .2) else 0
    c["nobar"] = 1 if (c["twice"] and rng.random() < .4) else 0      # no barrier between the two syncs
    pubs = [{q[0] for q in r if (q[2] or c["ign"])} for r in I]
    if P >= 3 and dl == "F" and rng.random() < .15:
        # partial knowledge: some pairs of ranks that share public indices do not know of each other
        pairs = [(a, b) for a in range(P) for b in range(a + 1, P) if pubs[a] & pubs[b]]
        rng.shuffle(pairs)
        c["forget"] = pairs[:rng.choice([1, 1, 2])]
    if P >= 2 and force.get("nb", rng.random() < .5):
        c["nb"] = rng.choice([1, 2])
        H = [set() for _ in range(P)]
        for a in range(P):
            for b in range(a + 1, P):
                if (pubs[a] & pubs[b]) and not forgotten(c, a, b):
                    H[a].add(b); H[b].add(a)
                elif not forgotten(c, a, b) and rng.random() < .2:
                    H[a].add(b); H[b].add(a)          # a superset of the true neighbour graph is allowed
        for a in range(P):                            # neighbour mode needs a non-empty hint set on every rank
            if not H[a]:
                b = next(x for x in [(a + 1) % P, (a + P - 1) % P] + list(range(P)) if x != a and not forgotten(c, a, x)) \
                    if any(x != a and not forgotten(c, a, x) for x in range(P)) else (a + 1) % P
                H[a].add(b); H[b].add(a)
        if any(forgotten(c, a, b) for a in range(P) for b in H[a]):
            c["forget"] = [f for f in c["forget"] if f[1] not in H[f[0]]]
        c["hints"] = [sorted(h) for h in H]
    # ---- growth by hand: a rank adds a new pair and tells some of its neighbours (RemoteIndexListModifier<..,true>::insert)
    if P >= 2 and force.get("grow", rng.random() < .15):
        _, lists = world_struct(c, "D")
        allg = {q[0] for r in I for q in r}
        fresh = max(allg | {0}) + 1
        for k in range(rng.choice([1, 1, 2])):
            cand = [p for p in range(P) if lists[p]]
            if not cand:
                break
            p = rng.choice(cand)
            to = rng.sample(sorted(lists[p]), min(len(lists[p]), rng.choice([1, 1, 2])))
            g = fresh + k * rng.choice([1, 3])
            if any(gr["g"] == g for gr in c["grow"]):
                g = fresh + 10 + k
            c["grow"].append(dict(p=p, g=g, a=rng.choice([1, 2, 3]), l=50 + k, to=[(q, rng.choice([1, 2, 3])) for q in sorted(to)]))
    # ---- dimension audit 2
    # C/D: where the globals sit in the value range of the GlobalIndex type (sign boundary / minimum / maximum), order of the add()
    #      calls and of the neighbour hints
    c["gs"] = rng.choice([0, 0, 1, 2, 3])
    c["ao"] = rng.choice([0, 0, 1, 2])
    # B: per-rank useFixedOrder / numberer (sync() on some ranks, sync(numberer[, true]) on others)
    if P >= 2 and not c["nobar"] and rng.random() < .35:
        c["fx"] = [rng.choice([0, 1]) for _ in range(P)]
        c["nm"] = [rng.choice([0, 1, 1, 2]) for _ in range(P)]
        if len(set(c["fx"])) == 1 and len(set(c["nm"])) == 1:
            c["fx"][0] = 1 - c["fx"][0]
    # A: second stage on the synced state: delete again (preferably what was just re-added), sync again with a fresh / the SAME /
    #    a copied IndicesSyncer object
    if P >= 2 and dl != "m" and not c["twice"] and not c["hist"] and not c["nb"] and restore_judged(c) and rng.random() < .8:
        c["st2"] = rng.choice([1, 2, 2, 2, 3])
        D2 = []
        for r in range(P):
            d = []
            for q in I[r]:
                if q[1] != OWNER and rng.random() < (.7 if q[0] in D[r] else .3):
                    d.append(q[0])
            D2.append(d)
        c["D2"] = D2
    if c["forget"] and not c["nb"]:
        c["hist"] = 0      # the hand-filled RemoteIndices of the forgotten-neighbour construction has never been built: rebuild() is not a no-op there
    return c


def corpus_cases():
    p = os.path.join(V.VERIF, "corpus", "C13", "cases.txt")
    if not os.path.exists(p):
        return []
    return [l.strip() for l in open(p) if l.strip() and not l.startswith("#")]


# --------------------------------------------------------------------------- running

def is_noobs(l):
    return l.startswith("CRASH") or l.startswith("HANG") or l.startswith("NOT-RUN") or l.startswith("BADCASE") or "C13-HANG" in l


def run_impl(ctx, exe, np, cases, tag, case_timeout=30, env_extra=None, max_bad=12):
    out, bad, i = [], 0, 0
    chunk = 300
    while i < len(cases):
        part = cases[i:i + chunk]
        if bad >= max_bad:
            out += ["NOT-RUN(too many hangs/crashes)"] * (len(cases) - i); break
        env = {"C13_CASE_TIMEOUT": str(case_timeout), "OMPI_MCA_rmaps_base_oversubscribe": "1", "OMPI_MCA_mpi_yield_when_idle": "1",
               "ASAN_OPTIONS": "detect_leaks=0:abort_on_error=0", "UBSAN_OPTIONS": "print_stacktrace=0"}
        if env_extra: env.update(env_extra)
        cmd = ["mpirun", "--allow-run-as-root", "--oversubscribe", "-np", str(np), exe]
        t = "%s%d" % (tag, i)
        res = V.run_cases(ctx, cmd, part, tag=t, timeout=max(180, len(part) // 2 + 4 * case_timeout), max_restarts=max_bad, env=env)
        for f in glob.glob(ctx.path("%s.cases.*" % t)):
            try: os.remove(f)
            except OSError: pass
        bad += sum(1 for l in res if is_noobs(l))
        out += res
        i += chunk
    return out


def sections(l):
    """[B, D, S, T-or-None, H-or-None, U-or-None] of an impl line, None when there is no observation"""
    if is_noobs(l):
        return None
    parts = l.split(" # ")
    if len(parts) < 3 or not (parts[0].startswith("B ") and parts[1].startswith("D ") and parts[2].startswith("S ")):
        return None
    res = [parts[0][2:], parts[1][2:], parts[2][2:], None, None, None]
    for x in parts[3:]:
        if x.startswith("T "): res[3] = x[2:]
        elif x.startswith("H "): res[4] = x[2:]
        elif x.startswith("U "): res[5] = x[2:]
        else: return None
    return res


def parse_world(w):
    """world dump -> [(iset, lists)] with iset = [(g, a, l-string, pub)], lists = {q: [(g, la, ra, k)]}"""
    out = []
    for r in strip_obs(w, False).split(" / "):
        head, _, tail = r.partition(" R")
        iset = []
        for t in head.split()[1:]:
            g, a, l, p = t.split(".")
            iset.append((int(g), int(a), l, int(p)))
        lists = {}
        for t in tail.split():
            q, _, es = t.partition(":")
            lists[int(q)] = [tuple(int(x) if x != "!" else -1 for x in e.split(".")) for e in es.split(",") if e]
        out.append((iset, lists))
    return out


def world_rebuilt_from(c, w):
    """what rebuild produces on the index sets of the world dump w (pairwise intersection of the public copies, all copies with
    ignorePublic; only hinted pairs with neighbour hints), in dump format"""
    ws = parse_world(w)
    pubs = [{g: a for g, a, l, p in iset if (p or c.get("ign"))} for iset, _ in ws]
    res = []
    for p, (iset, _) in enumerate(ws):
        posn = {x[0]: k for k, x in enumerate(iset)}
        s = "I" + "".join(" %d.%d.%s.%d" % x for x in iset) + " R"
        for q in range(len(ws)):
            if q == p:
                continue
            common = sorted(set(pubs[p]) & set(pubs[q]))
            if not common or (c.get("nb") and (q not in c["hints"][p] or p not in c["hints"][q])):
                continue
            s += " %d:%s" % (q, ",".join("%d.%d.%d.%d" % (g, pubs[p][g], pubs[q][g], posn[g]) for g in common))
        res.append(s + " Y 1")
    return " / ".join(res)


def s_of(l):
    """the S world of an impl line (None when there is none)"""
    sec = sections(l)
    if sec is None:
        return None
    return None if sec[2].startswith("SKIPPED") else strip_obs(sec[2])


def model_head(c):
    nums = [num_of(c, p) for p in range(c["P"])]
    return "%s %d" % (",".join(map(str, nums)) if c.get("nm") else str(c["num"]), 1 if all(n == 1 for n in nums) else 0)


def run_model(ctx, model, lines, tag):
    res = V.run_cases(ctx, [model], lines, tag=tag, timeout=900)
    for f in glob.glob(ctx.path("%s.cases.*" % tag)):
        try: os.remove(f)
        except OSError: pass
    return res


def model_lines(ctx, model, pcs, orders, impl_S, tag):
    lines = []
    for c, o, s in zip(pcs, orders, impl_S):
        lines.append("%s ; %s # %s # %s # %s" % (model_head(c), " ; ".join(o), world_after_rebuild(c), world_after_rebuild(c, True), s or "-"))
    res = V.run_cases(ctx, [model], lines, tag=tag, timeout=900)
    for f in glob.glob(ctx.path("%s.cases.*" % tag)):
        try: os.remove(f)
        except OSError: pass
    return res


def split_model(m):
    parts = m.split(" ## ")
    if len(parts) != 4:
        return None
    fl = dict(kv.split("=") for kv in parts[2].split())
    vd = dict(kv.split("=") for kv in parts[3].split())
    return parts[0], parts[1], fl, vd


def cause_of(asis, fixed):
    """which wart of the tree-as-it-is is active on this case (by the model): list of cause tags"""
    if asis == fixed:
        return []
    causes = []
    if "PASTEND" in asis:
        causes.append("remote-dup")
    def parts(w):
        return [(r.split(" R")[0], r.split(" R")[1] if " R" in r else "") for r in w.split(" / ")]
    try:
        for (ia, ra), (if_, rf) in zip(parts(asis), parts(fixed)):
            if ra != rf and "remote-dup" not in causes and "PASTEND" not in asis: causes.append("remote-dup")
            if ia != if_ and "iset-dup" not in causes: causes.append("iset-dup")
    except Exception:
        pass
    return causes or ["remote-dup"]


def numberer_calls_ok(c, S, exp_D):
    """The recording numberer must be called exactly once per index that sync adds (fix 23083bc), never for known ones; with a
    single old neighbour (one message) the calls must come in ascending global order, as indicessyncer.hh documents.
    -> None or a reason."""
    for r, (sr, dr) in enumerate(zip(S.split(" / "), exp_D.split(" / "))):
        if num_of(c, r) == 0:
            continue                             # sync() without numberer: nothing recorded
        m = re.search(r" N ?([0-9,]*)$", sr.rstrip())
        calls = [int(x) for x in m.group(1).split(",") if x] if m else []
        gs = lambda dump: [int(t.split(".")[0]) for t in dump.split(" R")[0].split()[1:]]
        new = sorted(set(gs(sr)) - set(gs(dr)))
        if sorted(calls) != new:
            return "rank %d: numberer called for %s but the indices added are %s" % (r, calls, new)
        nnb = len(re.findall(r" \d+:", dr))
        if nnb == 1 and calls != sorted(calls):
            return "rank %d: numberer not called in ascending global order within one message: %s" % (r, calls)
    return None


def stage2_inputs(c, impl, m2, rng):
    """model case line of the second stage (st2=) or None: B2 = the world the (repaired) model computes for the first sync,
    D2 = B2 after the second deletion, S2 = the implementation's state after the second sync"""
    if not c.get("st2") or is_noobs(impl):
        return None
    sec, sm = sections(impl), split_model(m2)
    if sec is None or sm is None or sec[5] is None or " ## " not in sec[5] or "PASTEND" in sm[1] or "DEADLOCK" in sm[1] or "OUTOFFUEL" in sm[1]:
        return None
    B2 = sm[1]
    D2 = world_delete(c, B2, c["D2"])
    d2i, s2i = sec[5].split(" ## ", 1)
    nbs = [sorted(l) for _, l in parse_world(D2)]
    o = orders_from(c, nbs, rng)
    return "%s ; %s # %s # %s # %s" % (model_head(c), " ; ".join(o), B2, D2, "-" if s2i.startswith("SKIPPED") else strip_obs(s2i)), B2, D2, o


def judge2(c, impl, st2in, m3):
    """verdict on the second stage -> (kind, signature, reason)"""
    which = {1: "fresh-object", 2: "same-object", 3: "copied-object"}.get(c["st2"], "?")
    sec = sections(impl)
    if st2in is None or sec is None or sec[5] is None:
        return "violation", "C13:stage2:no-result", "no observation of the second stage"
    line, B2, D2, o = st2in
    sm = split_model(m3)
    if sm is None:
        return "corr", "corr:C13/model", "model driver output unreadable (stage 2): %s" % m3[:200]
    asis, fixed, fl, vd = sm
    d2i, s2i = sec[5].split(" ## ", 1)
    if strip_obs(d2i, False) != strip_obs(D2, False):
        if c["del"] in "Mm":
            return "violation", "C13:RemoteIndexListModifier:repairLocalIndexPointers", \
                   "second stage: after RemoteIndexListModifier<T,A,true>::remove + repairLocalIndexPointers() on the synced state: got [%s] expected [%s]" % (strip_obs(d2i, False), strip_obs(D2, False))
        return "corr", "corr:C13/delete2", "state after the second deletion differs from the expected one: got [%s] expected [%s]" % (strip_obs(d2i, False), strip_obs(D2, False))
    if s2i.startswith("SKIPPED"):
        return "corr", "corr:C13/delete2", "harness skipped the second sync"
    bad = [k for k in ("sv", "mono", "compl", "synced") if vd.get(k) != "1"]
    # (as in stage 1: with ignorePublic a deleted NON-public copy comes back public by construction -- restore not judged then)
    nonpub2 = c.get("ign") and any((not q[2]) and q[0] in c["D2"][p] for p, r in enumerate(c["I"]) for q in r)
    if vd.get("pre") == "1" and vd.get("restore") != "1" and not nonpub2:
        bad.append("restore")
    if bad:
        return "violation", "C13:stage2-%s:postcondition:%s" % (which, "+".join(bad)), \
               "second stage (delete again on the synced state, sync with the %s): post-condition(s) %s violated: state [%s], the model gives [%s]" % (which, ",".join(bad), strip_obs(s2i), fixed)
    nr = numberer_calls_ok(c, s2i, D2)
    if nr:
        return "violation", "C13:stage2-%s:numberer:calls" % which, nr
    if strip_obs(s2i) != fixed:
        return "corr", "corr:C13/sync2", "impl state after the second-stage sync differs from the model's (oracle accepts the impl's state)"
    return "ok", "", ""


def judge(c, line, impl, m2, exp_B, exp_D):
    """-> (kind, signature, reason) with kind in ok | violation | corr ; impl = raw impl line, m2 = model line with verdicts"""
    sm = split_model(m2)
    if sm is None:
        return "corr", "corr:C13/model", "model driver output unreadable: %s" % m2[:200]
    asis, fixed, fl, vd = sm
    if is_noobs(impl):
        return "violation", "C13:sync:no-result", "sync() did not complete on every rank: %s" % impl[:160]
    sec = sections(impl)
    if sec is None:
        return "corr", "corr:C13/dump", "unreadable impl line"
    B, D, S, T, H, U = sec
    if strip_obs(B) != exp_B:
        return "corr", "corr:C13/rebuild", "state after RemoteIndices::rebuild differs from the pairwise intersection (C04 territory)"
    if strip_obs(D, False) != strip_obs(exp_D, False):
        if c["del"] in "Mm" and c.get("mc"):
            return "violation", "C13:RemoteIndexListModifier:copy-constructor", \
                   "deletion through a COPY of each RemoteIndexListModifier<T,A,true> (remove + repairLocalIndexPointers on the copy): got [%s] expected [%s]" % (strip_obs(D, False), strip_obs(exp_D, False))
        if c["del"] in "Mm":
            return "violation", "C13:RemoteIndexListModifier:repairLocalIndexPointers", \
                   "after RemoteIndexListModifier<T,A,true>::remove + repairLocalIndexPointers() the remote entries do not point to their pairs: got [%s] expected [%s]" % (strip_obs(D, False), strip_obs(exp_D, False))
        return "corr", "corr:C13/delete", "state after deletion differs from the expected one"
    if S.startswith("SKIPPED-NOSYNC") and c["del"] == "m":
        return "ok", "", ""
    if S.startswith("SKIPPED"):
        return "corr", "corr:C13/delete", "harness skipped sync: state after deletion has dangling or unordered remote entries"
    bad = [k for k in ("sv", "mono", "compl", "synced") if vd.get(k) != "1"]
    if vd.get("pre") == "1" and vd.get("restore") != "1" and restore_judged(c):
        bad.append("restore")
    Sx = strip_obs(S)
    if bad:
        why = ""
        if Sx == asis and asis != fixed:
            why = " (the state equals the model of the code BEFORE fixes 30ae05b/23083bc: %s)" % ",".join(cause_of(asis, fixed))
        return "violation", "C13:postcondition:" + "+".join(bad), "post-condition(s) %s violated by the state after sync%s" % (",".join(bad), why)
    nr = numberer_calls_ok(c, S, exp_D)
    if nr:
        return "violation", "C13:numberer:calls", nr
    if Sx != fixed:
        return "corr", "corr:C13/sync", "impl state after sync differs from the model's (oracle accepts the impl's state)"
    if c.get("hist") == 1:
        if H is None or H.count(" ## ") != 2:
            return "violation", "C13:history:rebuild-after-sync", "no observation of the rebuild after sync"
        h1, h2, st = H.split(" ## ")
        last = strip_obs(T) if T is not None else Sx
        if strip_obs(h1) != last:
            return "violation", "C13:history:rebuild-after-sync", "rebuild() on the synced RemoteIndices is not a no-op: [%s]" % strip_obs(h1)
        if st.strip() != "stale=1":
            return "violation", "C13:history:rebuild-after-sync", "isSynced() still true after a resize of the index set"
        exp_h = world_rebuilt_from(c, last)
        if strip_obs(h2) != exp_h:
            return "violation", "C13:history:rebuild-after-sync", \
                   "rebuild() after sync + resize (free() of the lists the syncer allocated, full rebuild) differs from the pairwise intersection of the synced sets: got [%s] expected [%s]" % (strip_obs(h2), exp_h)
    if c.get("twice"):
        which = {2: "same-object", 3: "copied-object"}.get(c["twice"], "fresh-object")
        if T is None:
            return "violation", "C13:sync:second-call-" + which, "no observation of the second sync"
        # sync is a fixpoint only on FULL knowledge (C13_sync_idempotent: consistent worlds); with restricted hints, forgotten
        # neighbours or hand-grown pairs a second round may legitimately spread what the first one restored
        if restore_judged(c) and not c.get("nb") and vd.get("pre") == "1" and strip_obs(T) != Sx:
            return "violation", "C13:sync:second-call-" + which, "a second sync() on the synced state changed it (C13_sync_idempotent): [%s]" % strip_obs(T)
        if re.search(r" N [0-9]", T):
            return "violation", "C13:sync:second-call-" + which, "the second sync() asked the numberer for an index although nothing is added"
    return "ok", "", ""


def build(ctx, san=False, ndebug=False):
    model = V.build_model(ctx)
    jobs = [dict(srcs=HARNESS, out=ctx.path("impl"), mpi=True, opt="-O1")]
    if san:
        jobs.append(dict(srcs=HARNESS, out=ctx.path("impl_san"), mpi=True, san=True))
    if ndebug:
        jobs.append(dict(srcs=HARNESS, out=ctx.path("impl_ndebug"), mpi=True, opt="-O2", flags=["-DNDEBUG"]))
    outs = V.cxx_many(ctx, jobs)
    return model, outs[0], (outs[1] if san else None), (outs[-1] if ndebug else None)


def params_hook(ctx):
    V.sh([sys.executable, os.path.join(V.VERIF, "tools", "extract_params.py"), ctx.repo], check=True)


def run(ctx):
    ctx.params_hook = params_hook
    V.coq_stage(ctx)
    model, impl, impl_san, impl_nd = build(ctx, san=True, ndebug=True)
    quick = ctx.quick
    NP = 4
    rng = ctx.rng("gen")
    cases = [parse_case(l) for l in corpus_cases()]
    ncorp = len(cases)
    N = 1100 if quick else 12000
    for n in range(N):
        cases.append(gen_one(rng, NP))
    # small exhaustive-ish scope: 2 and 3 ranks, every deletion subset of a fixed 3-rank decomposition with third-party knowledge
    base = dict(P=3, fixed=1, num=1, seed=0, forget=[], hints=[[], [], []], grow=[], cm=[], nb=0, self=0, ign=0, gt=0, twice=0, nobar=0,
                mc=0, sf=0, da=0, ck=0, hist=0, gs=0, ao=0, I=[[(1, 1, 1, 0), (2, 2, 1, 1), (4, 3, 1, 2)], [(1, 2, 1, 1), (2, 1, 1, 0), (3, 1, 1, 2)],
                                                [(1, 3, 1, 0), (2, 3, 1, 1), (3, 2, 1, 2), (4, 1, 1, 3)]], **{"del": "F"})
    copies = [(r, q[0]) for r in range(3) for q in base["I"][r] if q[1] != OWNER]
    for mask in range(1 << len(copies)):
        D = [[], [], []]
        for k, (r, g) in enumerate(copies):
            if mask >> k & 1: D[r].append(g)
        c = dict(base); c["D"] = D; c["fixed"] = mask & 1; c["seed"] = mask * 7 + 1
        if mask % 3 == 0:          # second stage on the same syncer object: the complementary subset plus what was just re-added
            c["st2"] = 2; c["D2"] = [[g for (r2, g) in copies if r2 == r and (g in D[r]) == (g % 2 == 0)] for r in range(3)]
        cases.append(c)
    lines = [fmt_case(c) for c in cases]
    orng = ctx.rng("orders")
    orders = [orders_of(c, orng) for c in cases]
    ctx.log("generated %d cases (%d corpus)" % (len(cases), ncorp))

    sel = list(range(len(cases)))            # every generated case runs on the impl
    # ---- probes for the two defects found by the API audit (fixes/C13-4, C13-5): while the tree still has them, the cases that
    #      only crash on them are re-routed (same IndicesSyncer object twice -> fresh object; growth -> NDEBUG build only)
    defect = {}
    probes = [("C13:sync:second-call-same-object", lambda c: c["twice"] == 2 and not c["grow"],
               "sync() called a second time on the same IndicesSyncer object does not complete (infoSend_ is never cleared)"),
              ("C13:RemoteIndexListModifier:insert:assert-at-end", lambda c: bool(c["grow"]) and c["twice"] != 2,
               "RemoteIndexListModifier<..,true>::insert(index, global) at the end of a list dereferences end() in its assertion")]
    for sig, pred, what in probes:
        i0 = next((i for i in sel if pred(cases[i])), None)
        if i0 is None:
            continue
        r = run_impl(ctx, impl, NP, [lines[i0]], "probe", case_timeout=20)
        if is_noobs(r[0]):
            r = run_impl(ctx, impl, NP, [lines[i0]], "probe2", case_timeout=60)       # (once more, alone, before it is believed)
        defect[sig] = is_noobs(r[0])
        if defect[sig]:
            ctx.violation(sig, {"case": lines[i0], "impl": r[0], "oracle": what, "replay_cmd": "bin/check C13 --replay <this file>"})
    # back-to-back syncs without a barrier, arrival-order processing (fixes/C13-6): schedule dependent (hang or mixed rounds), so it is
    # tested by a dedicated batch -- a few cases repeated many times with different shim seeds, compared with their barrier run --
    # and arrival-order cases of the main batch always keep the barrier (fixed-order cases run without it)
    sig6 = "C13:sync:back-to-back:any-source"
    cand6 = [i for i in sel if cases[i]["nobar"] and cases[i]["twice"] and not cases[i]["grow"] and cases[i]["P"] >= 3
             and not all_fixed(cases[i]) and cases[i]["del"] != "m"][:3]
    defect[sig6] = False
    b2b_reps = 0
    for i6 in cand6:
        c6 = dict(cases[i6]); c6["twice"] = 1; c6["nobar"] = 0
        ref = run_impl(ctx, impl, NP, [fmt_case(c6)], "probe6r", case_timeout=20)[0]
        if is_noobs(ref):
            continue
        c6["nobar"] = 1
        reps = []
        for k in range(100 if quick else 400):
            c6["seed"] = 1000 + 7919 * k; reps.append(fmt_case(c6))
        r = run_impl(ctx, impl, NP, reps, "probe6", case_timeout=6, max_bad=1)
        bad = next((k for k, x in enumerate(r) if not x.startswith("NOT-RUN") and (is_noobs(x) or strip_obs(x) != strip_obs(ref))), None)
        b2b_reps += len(r) if bad is None else bad + 1
        if bad is not None:
            defect[sig6] = True
            ctx.violation(sig6, {"case": reps[bad], "impl": r[bad], "impl_with_barrier": ref, "repetitions_before_failure": bad,
                                 "oracle": "two consecutive sync() rounds without a barrier, arrival-order processing: MPI_Probe(MPI_ANY_SOURCE) takes a faster "
                                           "neighbour's message of the NEXT round; the round hangs or unpacks the wrong message (schedule dependent; "
                                           "useFixedOrder=true is immune)"})
            break
    for i in sel:
        if cases[i]["nobar"] and not all_fixed(cases[i]):
            cases[i] = dict(cases[i]); cases[i]["nobar"] = 0; lines[i] = fmt_case(cases[i])
    d_same, d_grow = defect.get(probes[0][0], False), defect.get(probes[1][0], False)
    if d_same:
        for i in sel:
            if cases[i]["twice"] == 2:
                cases[i] = dict(cases[i]); cases[i]["twice"] = 1; lines[i] = fmt_case(cases[i])
        ctx.notes.append("tree fails the same-object probe: twice=2 cases run with a fresh IndicesSyncer for the second sync")
    sub_lines = [lines[i] for i in sel]
    if os.environ.get("C13_DUMP_CASES"):
        open(os.environ["C13_DUMP_CASES"], "w").write("\n".join(sub_lines) + "\n")
    chk = [j for j, i in enumerate(sel) if not (d_grow and cases[i]["grow"])]          # cases the checked (assert) build can run
    if d_grow:
        ctx.notes.append("tree fails the growth probe: %d growth cases are observed through the NDEBUG build only" % (len(sel) - len(chk)))
    r_chk = run_impl(ctx, impl, NP, [sub_lines[j] for j in chk], "impl", case_timeout=20 if quick else 40)
    io_chk = dict(zip(chk, r_chk))
    # a timed-out case is re-run once alone before it is believed
    nh = 0
    for j in chk:
        if ("HANG" in io_chk[j]) and nh < 3:
            nh += 1
            io_chk[j] = run_impl(ctx, impl, NP, [sub_lines[j]], "hc%d" % j, case_timeout=60)[0]
    # NDEBUG build (assertions off, -O2): every case
    # (a tree on which the checked build gave up after max_bad crashes/hangs is already convicted: no further builds are run on it)
    gave_up = any(x.startswith("NOT-RUN") for x in r_chk)
    if gave_up:
        impl_san = None
    io_nd = run_impl(ctx, impl_nd, NP, sub_lines, "ndebug", case_timeout=20 if quick else 40, max_bad=6) if (impl_nd and not gave_up) \
        else [None] * len(sub_lines)
    if gave_up and d_grow:
        io_nd = run_impl(ctx, impl_nd, NP, sub_lines, "ndebug", case_timeout=20, max_bad=3)
    io = [io_chk.get(j, io_nd[j]) for j in range(len(sub_lines))]
    impl_S = []
    for l in io:
        impl_S.append(s_of(l))
    m2 = model_lines(ctx, model, [cases[i] for i in sel], [orders[i] for i in sel], impl_S, "model2")

    # ---- second stage (st2=): the model runs once more, from the world it computed for the first sync
    s2rng = ctx.rng("orders2")
    st2in = [stage2_inputs(cases[i], io[j], m2[j], s2rng) for j, i in enumerate(sel)]
    s2idx = [j for j in range(len(sel)) if st2in[j] is not None]
    m3 = dict(zip(s2idx, run_model(ctx, model, [st2in[j][0] for j in s2idx], "model3"))) if s2idx else {}
    st2_ok = 0

    nviol = ncorr = 0
    dist = {"second_stage": {}, "second_stage_redeleted_copies": 0, "per_rank_configuration": {}, "global_range": {}, "add_order": {},"P": {}, "del": {}, "num": {}, "fixed": {}, "deleted_copies": {}, "forgotten_neighbour_pairs": {}, "neighbour_hints": {}, "includeSelf": {},
            "ignorePublic": {}, "global_index_type": {}, "second_sync": {}, "second_sync_without_barrier": {}, "communicator": {}, "modifier_copied": {}, "receive_side_modifier": {},
            "defaults_swapped": {}, "communicator_kind": {}, "rebuild_after_sync": {}, "grown_pairs": {}, "large": {}, "restore_pre": {}, "new_entries": 0,
            "new_neighbours_discovered": 0}
    nontrivial = set()
    oi_bad = cnt_bad = 0
    self_bad = {}
    kinds = []
    for j, i in enumerate(sel):
        c = cases[i]
        expB, expD = world_after_rebuild(c), world_after_rebuild(c, True)
        kind, sig, reason = judge(c, lines[i], io[j], m2[j], expB, expD)
        if kind == "ok" and c.get("st2"):
            kind, sig, reason = judge2(c, io[j], st2in[j], m3.get(j, ""))
            if kind == "ok": st2_ok += 1
        kinds.append(kind)
        for k, v in (("second_stage", {0: "none", 1: "fresh syncer", 2: "same syncer object", 3: "copied syncer"}[c.get("st2", 0)]),
                     ("per_rank_configuration", "mixed" if c.get("fx") else "uniform"),
                     ("global_range", {0: "default", 1: "sign boundary", 2: "type minimum", 3: "type maximum"}[c["gs"]]),
                     ("add_order", {0: "ascending", 1: "descending", 2: "scrambled"}[c["ao"]])):
            dist[k][v] = dist[k].get(v, 0) + 1
        if c.get("st2"):
            dist["second_stage_redeleted_copies"] += sum(len(set(a) & set(b)) for a, b in zip(c["D"], c["D2"]))
        sm = split_model(m2[j])
        for k, v in (("P", c["P"]), ("del", c["del"]), ("num", c["num"]), ("fixed", c["fixed"]), ("deleted_copies", min(9, sum(len(d) for d in c["D"]))),
                     ("forgotten_neighbour_pairs", len(c.get("forget") or [])), ("neighbour_hints", c["nb"]), ("includeSelf", c["self"]),
                     ("ignorePublic", c["ign"]), ("global_index_type", ["int/N=4", "long/N=100", "bigunsignedint<96>/N=7"][c["gt"]]), ("second_sync", c["twice"]), ("second_sync_without_barrier", c["nobar"]), ("modifier_copied", c["mc"]), ("receive_side_modifier", c["sf"]),
                     ("defaults_swapped", c["da"]), ("communicator_kind", {0: "split/world", 1: "dup", 2: "MPI_COMM_SELF"}[c["ck"]]), ("rebuild_after_sync", c["hist"]),
                     ("communicator", "world order" if not c["cm"] else ("split: same ranks, other order" if sorted(c["cm"]) == list(range(c["P"])) else "split: other world ranks")),
                     ("grown_pairs", len(c["grow"])), ("large", 1 if max(len(r) for r in c["I"]) > 50 else 0)):
            dist[k][str(v)] = dist[k].get(str(v), 0) + 1
        if sm:
            dist["restore_pre"][sm[3].get("pre", "?")] = dist["restore_pre"].get(sm[3].get("pre", "?"), 0) + 1
            if sm[2].get("oi") != "1": oi_bad += 1
            if sm[2].get("cnt") != "1": cnt_bad += 1
            for k in ("tree", "tup", "mod", "seq"):
                if sm[2].get(k) != "1":
                    self_bad[k] = self_bad.get(k, 0) + 1
                    if sum(self_bad.values()) <= 3:
                        ctx.violation("corr:C13/model-selfcheck:" + k, {"broken": "model self-check %s fails" % k, "case": lines[i], "model": m2[j]}, found_input=False)
            if sm[1] != strip_obs(expD): dist["new_entries"] += 1
            if (c.get("forget") or c.get("grow")) and [len(re.findall(r" \d+:", r)) for r in sm[1].split(" / ")] != [len(re.findall(r" \d+:", r)) for r in expD.split(" / ")]:
                dist["new_neighbours_discovered"] += 1
        if any(c["D"]) and c["P"] > 1:
            nontrivial.add(lines[i])
        if kind == "violation":
            nviol += 1
            if nviol <= 60:
                ctx.violation(sig, {"case": lines[i], "orders": orders[i], "impl": io[j], "model": m2[j], "oracle": reason,
                                    "stage2_model_case": st2in[j][0] if st2in[j] else None, "stage2_model": m3.get(j),
                                    "expected_after_rebuild": expB, "expected_after_deletion": expD,
                                    "replay_cmd": "bin/check C13 --replay <this file>"})
        elif kind == "corr":
            ncorr += 1
            if ncorr <= 10:
                ctx.violation(sig, {"broken": sig, "case": lines[i], "orders": orders[i], "impl": io[j], "model": m2[j], "oracle": reason}, found_input=False)
    if oi_bad:
        ctx.violation("corr:C13/order-independence", {"broken": "repaired model depends on the processing order in %d cases" % oi_bad}, found_input=False)

    # ---- sanitizer build on a subsample of the cases that ran without complaint
    san_n = san_bad = 0
    if impl_san:
        okidx = [j for j in chk if kinds[j] == "ok" and cases[sel[j]]["del"] != "m"][:: (6 if quick else 3)]
        so = run_impl(ctx, impl_san, NP, [sub_lines[j] for j in okidx], "san", case_timeout=60, max_bad=6)
        san_n = len(okidx)
        for j, l in zip(okidx, so):
            if l.startswith("NOT-RUN"):
                san_n -= 1; continue
            if strip_obs(l) != strip_obs(io[j]):
                san_bad += 1
                if san_bad <= 3:
                    ctx.violation("C13:sanitizer", {"case": sub_lines[j], "impl": io[j], "impl_sanitized_build": l,
                                                    "oracle": "ASan/UBSan build aborts or behaves differently"})
    # ---- NDEBUG build: same observations as the checked build on every case both ran
    nd_n = nd_bad = 0
    if impl_nd and not gave_up:
        for j in chk:
            l = io_nd[j]
            if l is None or l.startswith("NOT-RUN"):
                continue
            nd_n += 1
            if strip_obs(l) != strip_obs(io[j]):      # (the numberer call ORDER may differ with the arrival order)
                nd_bad += 1
                if nd_bad <= 3:
                    ctx.violation("C13:ndebug-build", {"case": sub_lines[j], "impl": io[j], "impl_ndebug_build": l,
                                                       "oracle": "the NDEBUG -O2 build observes a different state than the checked build"})
    ctx.coverage.update({
        "evaluations": len(sel), "distinct_nontrivial": len(nontrivial),
        "rule": "cases = corpus + seeded decompositions (P<=4, <=10 globals, shapes random/chain/star/all/third-party, one owner per global, "
                "overlap/copy attributes, 5% non-public copies) x random deletion sets of non-owner copies x numberer {default, old numbers, 1000+g} x "
                "useFixedOrder x deletion path {free functions, RemoteIndexListModifier<true>} x PMPI seed x rebuild mode {ring, neighbour hints via constructor / "
                "setNeighbours, exact / superset / restricted} x includeSelf x ignorePublic x {int/chunk 4, long+2^40/chunk 100} x hand-grown pairs "
                "(modifier insert(index, global)) x communicator {world order, MPI_Comm_split subset / reversed / rotated / shuffled: communicator ranks != world ranks} x second sync (fresh / same syncer object) x 1.2% large sets (101/150 globals) "
                "x (audit 2) per-rank useFixedOrder/numberer x global range {default, sign boundary, type min, type max} x add order x second stage "
                "(delete again on the synced state, sync with fresh/same/copied syncer) "
                "+ all 2^k deletion subsets of one 3-rank decomposition; "
                "non-trivial = P>1 and at least one copy deleted; distinct = distinct case lines",
        "samples": [lines[i] for i in sel[:2]] + [lines[i] for i in sel[len(sel) // 2: len(sel) // 2 + 2]],
        "distribution": dist, "generated": len(cases),
        "oracle_rejections": nviol, "impl_model_disagreements_accepted_by_oracle": ncorr,
        "model_order_dependent_cases": oi_bad, "publish_count_mismatch_cases": cnt_bad, "model_selfcheck_failures": self_bad,
        "sanitizer_cases": san_n, "sanitizer_disagreements": san_bad, "ndebug_cases": nd_n, "ndebug_disagreements": nd_bad,
        "numberer_call_sequences_checked": sum(1 for j, i in enumerate(sel) if cases[i]["num"] != 0 and kinds[j] == "ok" and cases[i]["del"] != "m"),
        "second_stage_cases_ok": st2_ok, "audit_defect_probes": defect, "back_to_back_repetitions": b2b_reps, "exhaustive": False,
        "traces_validated_against_impl": len(sel) - nviol - ncorr,
    })
    ctx.assumptions += ["RemoteIndices::rebuild is checked against the pairwise-intersection semantics on every case, not verified here (C04)",
                        "MPI point-to-point semantics (matching, Issend/Probe/Recv) modelled as: every old neighbour's message is received exactly once, in any order",
                        "decompositions hold at most one copy of a global index per rank (the property's reading; several attributes per rank are C04's ALU remark)"]


def replay(ctx, path):
    rep = json.load(open(path))
    line = rep["case"]
    c = parse_case(line)
    model, impl, _, _ = build(ctx)
    io = run_impl(ctx, impl, 4, [line], "rimpl", case_timeout=30)
    orders = rep.get("orders") or orders_of(c, ctx.rng("orders-replay"))
    S = s_of(io[0])
    m = model_lines(ctx, model, [c], [orders], [S], "rmodel")
    kind, sig, reason = judge(c, line, io[0], m[0], world_after_rebuild(c), world_after_rebuild(c, True))
    if kind == "ok" and c.get("st2"):
        s2 = stage2_inputs(c, io[0], m[0], ctx.rng("orders2-replay"))
        m3 = run_model(ctx, model, [s2[0]], "rmodel3") if s2 else [""]
        kind, sig, reason = judge2(c, io[0], s2, m3[0])
        print("stage 2 model case:", s2[0] if s2 else None); print("stage 2 model     :", m3[0])
    sm = split_model(m[0])
    print("case   :", line)
    print("impl   :", io[0])
    if sm:
        print("model (tree as it is):", sm[0]); print("model (repaired)     :", sm[1]); print("spec on impl state   :", sm[3])
    print("oracle :", "accepts" if kind == "ok" else "%s %s: %s" % (kind, sig, reason))
    return 0 if kind == "ok" else 1
