"""C14 — md layouts address distinct in-range elements; md views and arrays honour them (DESIGN.md section 4, C14)."""
import os, sys, re, itertools, json
import vcheck as V

META = {
    "level": "proof",
    "technique": "Coq proof (list-of-Z model of extents / layout_left / layout_right / layout_stride / mdspan / mdarray / span: "
                 "formula, range, injectivity, bijectivity, stride steps, conversions, element access, copies; all ranks and extents) "
                 "+ extracted-model vs C++ differential correspondence enumerating every valid index tuple, with a for-all oracle",
    "text": "Theorems in coq/Properties_C14.v are about the Gallina transcription of the loops in dune/common/std/*.hh; the model is tied "
            "to the headers on every run: ~100 template instantiations (rank 0-4, static/dynamic patterns over {0,1,2,3,5}, index types "
            "int/unsigned/long/short) are generated, compiled against the working tree (plain and ASan/UBSan), and run on the same "
            "(extents, strides, base) cases as the extracted model; every valid index tuple is enumerated and the oracle checks range, "
            "distinctness, stride steps, fill, formula, element identity and copies on the implementation's own output.",
    "note": "Trusted: Coq kernel, extraction, OCaml driver, generated C++ harness, g++. The accessor is an arbitrary function handle->offset->cell in the "
            "model; the harness runs default_accessor, an interleaved raw-pointer accessor and a non-pointer-handle accessor; containers std::vector, "
            "std::array, std::deque; elements long and std::string (std::vector<bool> is not supported by mdarray: Std::to_address of its iterator). Constructors that do not compile are observed through separately compiled "
            "probe translation units (NOCOMPILE observation).",
    "design_ref": "DESIGN.md section 4 C14",
}

H = os.path.join(V.VERIF, "harness", "C14")
TYPES = {"i": "int", "u": "unsigned", "l": "long", "s": "short", "z": "std::size_t", "c": "signed char"}
BITS = {"i": (32, True), "u": (32, False), "l": (64, True), "s": (16, True), "z": (64, False), "c": (8, True)}
VALS = [0, 1, 2, 3, 5]
LAYC = {"L": "DS::layout_left", "R": "DS::layout_right", "S": "DS::layout_stride"}
MDA_KINDS = ["exts", "dyn", "ext", "map", "extv", "mapv", "extc", "mapc", "extcm", "mapcm", "exta", "mapa", "extva", "mapva", "extca", "mapca"]


# --------------------------------------------------------------------------- instantiations
def patterns(thorough):
    P = [()]
    A = VALS + ["d"]
    P += [(a,) for a in A]
    P += [(a, b) for a in A for b in A]
    r3 = [("d", "d", "d"), (2, 3, 5), (3, 2, 2), (1, 5, 1), (5, 1, 0), (0, 2, 3), (2, "d", 3), ("d", 3, 2), (3, 2, "d"),
          ("d", "d", 2), ("d", 5, "d"), (3, "d", "d"), ("d", 0, "d"), (1, "d", 1), ("d", "d", 1), (2, 2, "d"), (5, "d", 0)]
    if thorough:
        r3 = [(a, b, c) for a in A for b in A for c in A if (a, b, c).count("d") >= 1 or (a * b * c) % 2 == 0]
    P += r3
    P += [("d", "d", "d", "d"), (2, "d", 3, "d"), ("d", 0, "d", 2), (2, 2, 2, 2), (1, "d", "d", 5), (3, 1, "d", 2)]
    return P


def insts(thorough):
    out, ty = [], "iuls"
    core = [(), ("d",), ("d", "d"), (3, "d"), ("d", "d", "d"), (2, "d", 3), (2, 3), ("d", "d", "d", "d")]
    for n, p in enumerate(patterns(thorough)):
        ts = ty + "zc" if p in core else ("iulsz"[n % 5] if thorough else ty[n % 4])    # z = std::size_t, c = signed char (8 bit)
        for t in ts:
            out.append((t, p))
    return out


XCV_VALUES_QUICK = [(2, 3, 4), (3, 1, 2)]
XCV_VALUES_THOROUGH = [(2, 3, 4), (3, 1, 2), (0, 2, 3), (5, 2, 1), (1, 1, 3)]


def xcv_pairs(thorough):
    """All pairs (source pattern, target pattern) of compatible extents types of equal rank 1..3: every combination of
    which positions are static/dynamic on either side (incl. the same number of dynamic extents at different positions),
    static values from a few value vectors, source/target index types rotating over int/unsigned/long/short."""
    out, ty, k = [], "iuls", 0
    for R in (1, 2, 3):
        for V in (XCV_VALUES_THOROUGH if thorough else XCV_VALUES_QUICK if R < 3 else XCV_VALUES_QUICK[:1]):
            for ms in itertools.product((0, 1), repeat=R):
                for md in itertools.product((0, 1), repeat=R):
                    ps = tuple("d" if ms[r] else V[r] for r in range(R))
                    pd = tuple("d" if md[r] else V[r] for r in range(R))
                    ts_, td = ty[k % 4], ty[(k + k // 4) % 4]
                    k += 1
                    if (ts_, ps, td, pd) not in [(a, b, c, d) for a, b, c, d, _ in out]:
                        out.append((ts_, ps, td, pd, V[:R]))
    return out


def xname(ts_, ps, td, pd):
    return "%s>%s" % (iname(ts_, ps), iname(td, pd))


def pstr(p):
    return ",".join(str(x) for x in p) if p else "-"


def iname(t, p):
    return "%s:%s" % (t, pstr(p))


def ctype(t, p):
    return "DS::extents<%s%s>" % (TYPES[t], "".join(", " + ("DS::dynamic_extent" if x == "d" else str(x)) for x in p))


PROBE_PATTERNS = [(), (), (), (), ("d",), (3,), ("d", "d"), (3, "d"), (2, 3), ("d", "d", "d"), (2, "d", 3), ("d", 0, "d"), ("d", "d", "d", "d")]


ACC_PATTERNS = [(), ("d",), (3,), ("d", "d"), (2, 3), (3, "d"), ("d", 2), ("d", "d", "d"), (2, "d", 3), (2, 3, 2), ("d", 0, "d"), ("d", "d", "d", "d")]


def acc_insts():
    ty = "iuls"
    return [(ty[n % 4], p) for n, p in enumerate(ACC_PATTERNS)]


def probe_insts():
    ty = "iuls"
    return [(ty[n % 4], p) for n, p in enumerate(PROBE_PATTERNS)] + [("i", ("d", "d")), ("l", ("d", "d", "d"))]


# instantiations named by corpus / replay cases that the generated set of the current tier may not contain
EXTRA = {"inst": [], "xcv": [], "acc": [], "probe": []}


def parse_inst(x):
    t, _, ps = x.partition(":")
    if t not in TYPES:
        raise ValueError(x)
    return t, tuple() if ps in ("-", "") else tuple("d" if q == "d" else int(q) for q in ps.split(","))


def corpus_cases():
    cp = os.path.join(V.VERIF, "corpus", "C14", "cases.txt")
    if not os.path.exists(cp):
        return []
    return [l.strip() for l in open(cp) if l.strip() and not l.startswith("#")]


def set_extra(cases):
    """Every case that names an instantiation gets it compiled, whatever the tier's generated set is."""
    ex = {"inst": [], "xcv": [], "acc": [], "probe": []}
    for c in cases:
        t = c.split()
        if len(t) < 2:
            continue
        op, inst = t[0], t[1]
        try:
            if op == "xcv":
                a, b = inst.split(">")
                (ts_, ps), (td, pd) = parse_inst(a), parse_inst(b)
                ex["xcv"].append((ts_, ps, td, pd, None))
            elif op in ("acc", "elt", "elt2", "rol", "seq"):
                ex["acc"].append(parse_inst(inst))
            elif op.startswith("p") and op[1:2].isdigit():
                if op != "p6crit":
                    ex["probe"].append(parse_inst(inst))
            elif op != "span":
                ex["inst"].append(parse_inst(inst))
        except ValueError:
            pass
    for k in ex:
        seen, out = set(), []
        for x in ex[k]:
            key = x[:4] if k == "xcv" else x
            if key not in seen:
                seen.add(key); out.append(x)
        EXTRA[k] = out


def all_insts(thorough):
    I = insts(thorough)
    return I + [x for x in EXTRA["inst"] if x not in I]


def all_xcv(thorough):
    X = xcv_pairs(thorough)
    have = set(x[:4] for x in X)
    return X + [x for x in EXTRA["xcv"] if x[:4] not in have]


def all_acc():
    A = acc_insts()
    return A + [x for x in EXTRA["acc"] if x not in A]


def all_probe():
    P = probe_insts()
    return P + [x for x in EXTRA["probe"] if x not in P]


def gen_sources(ctx, nparts, thorough, tag):
    # (instantiations = generated set of the tier + whatever corpus / replay cases name)
    gd = ctx.path("gen_" + tag)
    os.makedirs(gd, exist_ok=True)
    for f in os.listdir(gd):
        os.remove(os.path.join(gd, f))
    I = all_insts(thorough)
    parts = [I[k::nparts] for k in range(nparts)]
    srcs = []
    for k, part in enumerate(parts):
        if tag == "san" and not thorough and k % 2 == 1:
            part = []          # quick: the sanitizer variant covers every second group of instantiations
        L = ['#include "c14_impl.hh"', "namespace c14 {", "const std::vector<Entry>& tab_%d() {" % k, "  static const std::vector<Entry> t = {"]
        pre = []
        for n, (t, p) in enumerate(part):
            X = "X%d_%d" % (k, n)
            pre.append("using %s = %s;" % (X, ctype(t, p)))
            nm = iname(t, p)
            L.append('    {"ext/%s", &run_ext<%s>}, {"map/%s", &run_map<%s>}, {"swp/%s", &run_swp<%s>},' % (nm, X, nm, X, nm, X))
            for l in "LRS":
                L.append('    {"mds/%s/%s", &run_mds<%s, %s>},' % (l, nm, LAYC[l], X))
            for l in "LR":
                L.append('    {"mda/%s/%s", &run_mda<%s, %s>}, {"mdafs/%s%s/%s", &run_mdafs<%s, %s, %s>},' % (l, nm, LAYC[l], X, l, l, nm, LAYC[l], LAYC[l], X))
            if len(p) <= 1:
                L.append('    {"mdafs/LR/%s", &run_mdafs<DS::layout_left, DS::layout_right, %s>}, {"mdafs/RL/%s", &run_mdafs<DS::layout_right, DS::layout_left, %s>},' % (nm, X, nm, X))
            if "d" not in p:
                N = 1
                for x in p:
                    N *= x
                for l in "LR":
                    L.append('    {"mdasa/%s/%s", &run_mda_stdarray<%s, %s, %d>}, {"mdasb/%s/%s", &run_mda_stdarray_big<%s, %s, %d>},' % (l, nm, LAYC[l], X, N, l, nm, LAYC[l], X, N))
        L += ["  };", "  return t;", "}", "}"]
        src = os.path.join(gd, "tu_%d.cc" % k)
        open(src, "w").write("\n".join(L[:2] + pre + L[2:]) + "\n")
        srcs.append(src)
    XP = all_xcv(thorough) if tag != "san" or thorough else []   # quick: the sanitizer variant only runs view/array/span cases
    nx = (len(XP) + 11) // 12
    for j in range(nx):
        k = nparts + j
        L = ['#include "c14_impl.hh"', "namespace c14 {"]
        ent = []
        for n, (ts_, ps, td, pd, _) in enumerate(XP[j::nx]):
            L.append("using XS%d = %s; using XD%d = %s;" % (n, ctype(ts_, ps), n, ctype(td, pd)))
            ent.append('    {"xcv/%s", &run_xcv<XS%d, XD%d>},' % (xname(ts_, ps, td, pd), n, n))
        L += ["const std::vector<Entry>& tab_%d() {" % k, "  static const std::vector<Entry> t = {"] + ent + ["  };", "  return t;", "}", "}"]
        src = os.path.join(gd, "tu_%d.cc" % k)
        open(src, "w").write("\n".join(L) + "\n")
        srcs.append(src)
    nparts += nx
    # custom accessors / other containers and element types: one translation unit per layout
    AI = all_acc()
    for j, l in enumerate("LRS"):
        k = nparts + j
        L = ['#include "c14_acc.hh"', "namespace c14 {"]
        if j == 0:
            L.append("std::vector<long>& cells() { static std::vector<long> g; return g; }")
        ent = []
        for n, (t, p) in enumerate(AI):
            L.append("using AX%d = %s;" % (n, ctype(t, p)))
            ent.append('    {"acc/%s/%s", &run_acc<%s, AX%d>},' % (l, iname(t, p), LAYC[l], n))
            ent.append('    {"rol/%s/%s", &run_rol<%s, AX%d>},' % (l, iname(t, p), LAYC[l], n))
            if j == 0:
                ent.append('    {"seq/%s", &run_seq<AX%d>},' % (iname(t, p), n))
            if l != "S" and (n % 2 == 0 or n >= len(acc_insts())):
                ent.append('    {"elt/%s/%s", &run_elt<%s, AX%d>},' % (l, iname(t, p), LAYC[l], n))
                ent.append('    {"elt2/%s/%s", &run_elt2<%s, AX%d>},' % (l, iname(t, p), LAYC[l], n))
        L += ["const std::vector<Entry>& tab_%d() {" % k, "  static const std::vector<Entry> t = {"] + ent + ["  };", "  return t;", "}", "}"]
        src = os.path.join(gd, "tu_%d.cc" % k)
        open(src, "w").write("\n".join(L) + "\n")
        srcs.append(src)
    nparts += 3
    idx = ['#include "c14_impl.hh"', "namespace c14 {"] + ["const std::vector<Entry>& tab_%d();" % k for k in range(nparts)]
    idx += ["int table_parts() { return %d; }" % nparts, "const std::vector<Entry>& table_part(int k) {", "  switch (k) {"]
    idx += ["    case %d: return tab_%d();" % (k, k) for k in range(nparts)] + ["  }", "  return tab_0();", "}", "}"]
    src = os.path.join(gd, "tables.cc")
    open(src, "w").write("\n".join(idx) + "\n")
    srcs.append(src)
    # probes
    probes = {}
    PI = all_probe()
    for pn, ops in ((1, [("p1cvt", "run_p1cvt", "LR"), ("p1fs", "run_p1fs", "LR")]), (2, [("p2conv", "run_p2conv", "LRS")]),
                    (3, [("p3alloc", "run_p3alloc", "LR")]), (4, [("p4eq", "run_p4eq", "LR")]), (5, [("p5r0", "run_p5r0", "LR")]), (7, [("p7tm", "run_p7tm", "LR")]),
                    (8, [("p8meq", "run_p8meq", "LR")])):
        L = ['#include "c14_probes.hh"', "namespace c14 {"]
        for n, (t, p) in enumerate(PI):
            L.append("using P%d = %s;" % (n, ctype(t, p)))
        L += ["std::string probe%d(const Case& c) {" % pn, "  static const std::vector<Entry> t = {"]
        for n, (t, p) in enumerate(PI):
            if pn == 5 and p != ():
                continue
            for op, fn, lays in ops:
                for l in lays:
                    if p == () and (pn == 4 or (pn == 2 and l == "S")):
                        continue          # rank-0 layout_stride conversions belong to probe 5
                    L.append('    {"%s/%s/%s", &%s<%s, P%d>},' % (op, l, iname(t, p), fn, LAYC[l], n))
        L += ["  };", "  return probe_lookup(t, c);", "}", "}"]
        src = os.path.join(gd, "probe%d.cc" % pn)
        open(src, "w").write("\n".join(L) + "\n")
        stub = os.path.join(gd, "probe%d_stub.cc" % pn)
        open(stub, "w").write('#include "c14_impl.hh"\nnamespace c14 { std::string probe%d(const Case&) { return "NOCOMPILE"; } }\n' % pn)
        probes[pn] = (src, stub)
    src = os.path.join(gd, "probe6.cc")
    open(src, "w").write('#include "c14_probes.hh"\nnamespace c14 { std::string probe6(const Case& c) { return run_p6crit<long>(c); } }\n')
    stub = os.path.join(gd, "probe6_stub.cc")
    open(stub, "w").write('#include "c14_impl.hh"\nnamespace c14 { std::string probe6(const Case&) { return "NOCOMPILE"; } }\n')
    probes[6] = (src, stub)
    return srcs, probes


def build_impl(ctx, thorough, san):
    """Compile the generated translation units (in parallel) and link; returns (exe, {probe: error or None})."""
    nparts = 14
    tag = "san" if san else "plain"
    srcs, probes = gen_sources(ctx, nparts, thorough, tag)
    od = ctx.path("obj_" + tag)
    os.makedirs(od, exist_ok=True)
    for f in os.listdir(od):
        os.remove(os.path.join(od, f))
    common = dict(repo_srcs=[], flags=["-c", "-I" + H], san=san, opt="-O0")
    jobs, outs = [], []
    for s in srcs + [os.path.join(H, "c14_main.cc")]:
        o = os.path.join(od, os.path.basename(s)[:-3] + ".o")
        jobs.append(dict(srcs=[s], out=o, **common)); outs.append(o)
    V.cxx_many(ctx, jobs)
    perr = {}
    from concurrent.futures import ThreadPoolExecutor

    def one(pn):
        src, stub = probes[pn]
        o = os.path.join(od, "probe%d.o" % pn)
        try:
            V.cxx(ctx, [src], o, **common)
            return pn, o, None
        except V.BuildError as e:
            errs = [l for l in str(e).split("\n") if "error" in l]
            V.cxx(ctx, [stub], o, **common)
            return pn, o, (errs[0] if errs else str(e)[-300:])[:400]
    with ThreadPoolExecutor(max_workers=4) as ex:
        for pn, o, err in ex.map(one, sorted(probes)):
            outs.append(o); perr[pn] = err
    exe = ctx.path("impl_" + tag)
    V.cxx(ctx, outs, exe, san=san, opt="-O0")
    return exe, perr


# --------------------------------------------------------------------------- python side of the spec (formulas)
def prod(E):
    r = 1
    for e in E:
        r *= e
    return r


def tuples(E):
    return [list(t) for t in itertools.product(*[range(e) for e in E])]


def strides_left(E):
    return [prod(E[:r]) for r in range(len(E))]


def strides_right(E):
    return [prod(E[r + 1:]) for r in range(len(E))]


def dot(i, s):
    return sum(a * b for a, b in zip(i, s))


def fits(t, v):
    b, sg = BITS[t]
    return (-(1 << (b - 1)) <= v < (1 << (b - 1))) if sg else (0 <= v < (1 << b))


def rss_stride(E, S):
    if not E:
        return 1
    if prod(E) == 0:
        return 0
    return 1 + sum((e - 1) * s for e, s in zip(E, S))


# --------------------------------------------------------------------------- generator
def fill(p, dyn):
    it = iter(dyn)
    return [next(it) if x == "d" else x for x in p]


def unique_strides(rng, E, kind):
    """Strides making the mapping unique: a permutation of the dimensions, each stride >= extent*stride of the previous one."""
    n = len(E)
    if kind == "left":
        return strides_left([max(e, 1) for e in E]) if 0 in E and rng.random() < 0.5 else strides_left(E) if 0 not in E else [max(s, 1) for s in strides_left([max(e, 1) for e in E])]
    if kind == "right":
        return strides_right(E) if 0 not in E else strides_right([max(e, 1) for e in E])
    order = list(range(n))
    rng.shuffle(order)
    S = [0] * n
    cur = 1 if kind == "perm" else rng.choice([1, 1, 2, 3])
    for d in order:
        S[d] = cur
        cur = cur * max(E[d], 1) + (0 if kind == "perm" else rng.choice([0, 0, 1, 2, 5]))
    return S


def lst(v):
    return ",".join(str(x) for x in v) if v else "-"


def asym_eq_cases(rng, op, nm, t, E, n, lay=None):
    """Second cross-cutting audit (kinds B + D): operator== with the two sides of DIFFERENT extents / index types.  Side a has
    the instantiation's extents type (index type t); side b is dextents<long, rank> with extents E2 / strides S2 = those of a,
    or differing by 1, or by 2^bits(t) in one dimension (values that only the wider side can hold)."""
    R = len(E)
    w = BITS[t][0]
    head = "%s %s%s" % (op, nm, " lay=%s" % lay if lay else "")
    def line(S, E2, S2):
        return "%s E=%s%s E2=%s%s" % (head, lst(E), " S=%s" % lst(S) if op == "seq" else "", lst(E2), " S2=%s" % lst(S2) if op == "seq" else "")
    Ss = [unique_strides(rng, E, "pad" if n % 2 else "perm")] if op == "seq" else [[]]
    if op == "seq" and R > 0:
        Ss.append(strides_right([max(x, 1) for x in E]) if n % 2 else strides_left([max(x, 1) for x in E]))
    out = []
    for S in Ss:
        if op == "seq" and (any(not fits(t, v) for v in S) or not fits(t, rss_stride(E, S))):
            continue
        out.append(line(S, E, S))
        if R == 0:
            continue
        r, r2 = rng.randrange(R), rng.randrange(R)
        bump = lambda v, k, dlt: [x + (dlt if q == k else 0) for q, x in enumerate(v)]
        out.append(line(S, bump(E, r, 1), S))
        if op == "seq":
            out.append(line(S, E, bump(S, r2, 1)))
        if w < 64:
            out.append(line(S, bump(E, r, 1 << w), S))
            if op == "seq":
                out.append(line(S, E, bump(S, r2, 1 << w)))
                out.append(line(S, E, bump(S, r, 3 << w)))
    return out


def gen(ctx, I, PI):
    rng = ctx.rng("gen")
    quick = ctx.quick
    cases = []
    cases += corpus_cases()
    DV = VALS + ([4, 7] if not quick else [])
    for t, p in I:
        nm = iname(t, p)
        rd = p.count("d")
        combos = list(itertools.product(DV, repeat=rd))
        limit = (8 if quick else 40)
        if len(combos) > limit:
            must = [c for c in combos if len(set(c)) == 1 and c[0] in (0, 1)]
            combos = must + rng.sample(combos, limit - len(must))
        Es = [fill(p, c) for c in combos]
        Es = [E for E in Es if prod(E) <= 400 and fits(t, prod(E)) and fits(t, prod([max(x, 1) for x in E]))]
        for n, E in enumerate(Es):
            cases.append("ext %s E=%s" % (nm, lst(E)))
            kinds = ["left", "right", "perm", "pad"] if (len(E) > 1) else ["left", "pad"]
            if quick and n % 2 == 1:
                kinds = [rng.choice(kinds)]
            for kd in kinds:
                S = unique_strides(rng, E, kd)
                if not fits(t, rss_stride(E, S)) or rss_stride(E, S) > 3000 or any(not fits(t, s) for s in S):
                    S = unique_strides(rng, E, "perm")
                if not fits(t, rss_stride(E, S)) or any(not fits(t, s) for s in S):
                    continue        # (narrow index types: no representable stride vector of this kind)
                cases.append("map %s E=%s S=%s" % (nm, lst(E), lst(S)))
                base = rng.choice([0, 0, 1, 4])
                for l in ("LRS" if kd in ("perm", "pad") else rng.choice(["L", "R"])):
                    cases.append("mds %s lay=%s E=%s S=%s base=%d" % (nm, l, lst(E), lst(S), base))
            if n < (2 if quick else 6):
                # swap / copy-assign / move-assign between two views/arrays with different mappings
                E2 = Es[(n + 1) % len(Es)] if len(Es) > 1 else E
                if len(Es) > 2 and prod(E2) == prod(E) == 0:
                    E2 = Es[(n + 2) % len(Es)]
                S1 = unique_strides(rng, E, "perm" if n % 2 else "pad")
                S2 = unique_strides(rng, E2, "pad")
                if S2 == S1 and E2 == E and len(E) > 0:
                    S2 = [x * 3 for x in unique_strides(rng, E2, "perm")]
                if all(fits(t, v) for v in [rss_stride(E, S1), rss_stride(E2, S2)] + S1 + S2) and max(rss_stride(E, S1), rss_stride(E2, S2)) < 3000:
                    for f in ("swap", "copy", "move"):
                        cases.append("swp %s f=%s E=%s S=%s E2=%s S2=%s base=%d base2=%d" % (nm, f, lst(E), lst(S1), lst(E2), lst(S2), rng.choice([0, 1, 5]), rng.choice([0, 2, 7])))
            ks = MDA_KINDS if n == 0 else rng.sample(MDA_KINDS, 2 if quick else 5)
            for l in "LR":
                for k in ks:
                    cases.append("mda %s lay=%s k=%s E=%s" % (nm, l, k, lst(E)))
                cases.append("mdafs %s lay=%s%s E=%s S=- base=%d" % (nm, l, l, lst(E), rng.choice([0, 2])))
            if len(E) <= 1:
                cases.append("mdafs %s lay=LR E=%s S=- base=1" % (nm, lst(E)))
                cases.append("mdafs %s lay=RL E=%s S=- base=0" % (nm, lst(E)))
            if "d" not in p and n == 0:
                for l in "LR":
                    cases.append("mdasa %s lay=%s E=%s" % (nm, l, lst(E)))
                    cases.append("mdasb %s lay=%s E=%s" % (nm, l, lst(E)))
    # custom accessor policies (interleaved raw-pointer accessor with a run-time shift; non-pointer data handle), other
    # containers (std::deque) and element types (std::string)
    for t, p in acc_insts():
        nm = iname(t, p)
        rd = p.count("d")
        combos = list(itertools.product([1, 2, 3, 5], repeat=rd))
        combos = rng.sample(combos, min(len(combos), 2 if quick else 6)) + ([tuple([0] * rd)] if rd else [])
        for n, cmb in enumerate(combos):
            E = fill(p, cmb)
            if prod(E) > 200:
                continue
            for l in "LRS":
                for a in ("s2", "cell"):
                    k1, k2 = (rng.choice([0, 1]), rng.choice([0, 1])) if a == "s2" else (rng.choice([1, 2, 3]), rng.choice([1, 2]))
                    b1, b2 = rng.choice([0, 1, 4]), rng.choice([0, 3])
                    if l == "S":
                        cases.append("acc %s lay=S a=%s E=%s S=%s S2=%s base=%d base2=%d k1=%d k2=%d arr=0" % (
                            nm, a, lst(E), lst(unique_strides(rng, E, "pad")), lst(unique_strides(rng, E, "perm")), b1, b2, k1, k2))
                        Sc = strides_right(E) if 0 not in E else strides_right([max(x, 1) for x in E])
                        if 0 not in E:
                            cases.append("acc %s lay=S a=%s E=%s S=%s S2=%s base=%d base2=%d k1=%d k2=%d arr=1" % (nm, a, lst(E), lst(Sc), lst(Sc), b2, b1, k2, k1))
                    else:
                        cases.append("acc %s lay=%s a=%s E=%s S=- S2=- base=%d base2=%d k1=%d k2=%d arr=1" % (nm, l, a, lst(E), b1, b2, k1, k2))
            for l in "LRS":      # coverage audit: roles of layouts / index types / allocators
                Sx = unique_strides(rng, E, "perm" if n % 2 else "pad") if l == "S" else []
                if l == "S" and (max(Sx + [0]) > 30000 or rss_stride(E, Sx) > 3000):
                    Sx = unique_strides(rng, E, "perm")
                cases.append("rol %s lay=%s E=%s S=%s base=%d" % (nm, l, lst(E), lst(Sx), rng.choice([0, 2])))
            cases += asym_eq_cases(rng, "seq", nm, t, E, n)
            if acc_insts().index((t, p)) % 2 == 0:
                for l in "LR":
                    cases.append("elt %s lay=%s E=%s" % (nm, l, lst(E)))
                    cases.append("elt2 %s lay=%s E=%s" % (nm, l, lst(E)))
    # extents whose product is just below the limit of index_type (short): every tuple still enumerated (mapping level only:
    # the list-based store of the model is quadratic in the number of writes)
    big = [("s:d", [32767]), ("s:d,d", [181, 181]), ("s:d,d", [1, 32767]), ("s:d,d,d", [127, 129, 2])]
    if not quick:
        big += [("s:d,d", [32767, 1]), ("s:d,d", [2, 16383]), ("s:d,d,d", [31, 33, 32]), ("s:d,d,d", [2, 2, 8191]), ("s:d,d", [5461, 6])]
    for nm, E in big:
        for S in ([strides_right(E)] if quick else [strides_right(E), strides_left(E)]):
            cases.append("map %s E=%s S=%s" % (nm, lst(E), lst(S)))
    # conversions between compatible extents types (all static/dynamic shape pairs)
    for ts_, ps, td, pd, VV in xcv_pairs(not quick):
        nm = xname(ts_, ps, td, pd)
        free = [r for r in range(len(VV)) if ps[r] == "d" and pd[r] == "d"]
        combos = [tuple(VV[r] for r in free)]
        if free:
            allc = list(itertools.product(VALS, repeat=len(free)))
            combos += rng.sample(allc, min(len(allc), 2 if quick else 5))
        seen = set()
        for cmb in combos:
            E = list(VV)
            for r, x in zip(free, cmb):
                E[r] = x
            if tuple(E) in seen or prod(E) > 300:
                continue
            seen.add(tuple(E))
            S = unique_strides(rng, E, rng.choice(["perm", "pad"]))
            cases.append("xcv %s E=%s S=%s base=%d" % (nm, lst(E), lst(S), rng.choice([0, 2])))
    # probes
    for t, p in PI:
        nm = iname(t, p)
        rd = p.count("d")
        combos = list(itertools.product(VALS, repeat=rd))
        if len(combos) > 6:
            combos = rng.sample(combos, 6)
        for c in combos:
            E = fill(p, c)
            if prod(E) > 300:
                continue
            for l in "LR":
                Sc = strides_left(E) if l == "L" else strides_right(E)
                base = rng.choice([0, 3])
                cases.append("p1cvt %s lay=%s E=%s S=%s" % (nm, l, lst(E), lst(Sc)))
                cases.append("p1fs %s lay=%s E=%s S=%s base=%d" % (nm, l, lst(E), lst(Sc), base))
                cases.append("p3alloc %s lay=%s E=%s S=- base=%d" % (nm, l, lst(E), base))
                cases.append("p7tm %s lay=%s E=%s" % (nm, l, lst(E)))
                if p != ():
                    cases.append("p4eq %s lay=%s E=%s S=%s" % (nm, l, lst(E), lst(Sc)))
                    Sp = unique_strides(rng, E, "pad")
                    cases.append("p4eq %s lay=%s E=%s S=%s" % (nm, l, lst(E), lst(Sp)))
            for l in "LR":
                cases += asym_eq_cases(rng, "p8meq", nm, t, E, len(cases), lay=l)
            for l in ("LRS" if p != () else "LR"):
                S = unique_strides(rng, E, "pad")
                cases.append("p2conv %s lay=%s E=%s S=%s base=%d" % (nm, l, lst(E), lst(S), rng.choice([0, 2])))
    for t in "iuls":
        for l in "LR":
            cases.append("p5r0 %s:- lay=%s E=- S=-" % (t, l))
    for ln in (0, 1, 3, 6):
        cases.append("p6crit - n=%d o=%d len=%d" % (ln + 4, 1, ln))
    # span
    for x, lens in (("d", [0, 1, 3, 4, 7]), ("dc", [0, 4]), ("dv", [0, 5]), ("di", [0, 6]), ("0", [0]), ("1", [1]), ("3", [3]), ("4", [4]), ("7", [7]), ("a5", [5]), ("c4", [4])):
        for ln in lens:
            o = 0 if x in ("a5", "c4") else rng.choice([0, 2])
            n = o + ln + rng.choice([0, 3])
            if x in ("a5", "c4"):
                n = ln
            hd = "span - x=%s n=%d o=%d len=%d" % (x, n, o, ln)
            if x in ("d", "dv", "di") and ln in (0, 1, 3, 4, 7):
                cases.append("%s f=tost" % hd)
            for f in ("desc", "iter", "conv", "asg"):
                cases.append("%s f=%s" % (hd, f))
            for c in range(ln + 1):
                cases.append("%s f=first a=%d" % (hd, c)); cases.append("%s f=last a=%d" % (hd, c))
                cases.append("%s f=sub a=%d c=-1" % (hd, c)); cases.append("%s f=subd a=%d" % (hd, c))
                for c2 in range(ln - c + 1):
                    cases.append("%s f=sub a=%d c=%d" % (hd, c, c2))
            for i in range(ln):
                cases.append("%s f=idx a=%d" % (hd, i))
            for i in list(range(ln + 3)) + [10 ** 9, (1 << 63)]:
                if i < (1 << 62):
                    cases.append("%s f=at a=%d" % (hd, i))
            if ln > 0:
                cases.append("%s f=front" % hd); cases.append("%s f=back" % hd)
            if ln >= 3:
                for a in range(4):
                    if a <= ln:
                        cases.append("%s f=sfirst a=%d" % (hd, a)); cases.append("%s f=slast a=%d" % (hd, a))
                for a, c in ((0, 0), (0, 1), (0, 2), (0, 3), (0, -1), (1, 0), (1, 1), (1, 2), (1, -1), (2, 0), (2, 1), (2, -1), (3, 0), (3, -1)):
                    if a <= ln and (c < 0 or c <= ln - a):
                        cases.append("%s f=ssub a=%d c=%d" % (hd, a, c))
    return cases


# --------------------------------------------------------------------------- oracle
def kvs(s):
    d = {}
    for t in s.split():
        if "=" in t:
            k, v = t.split("=", 1); d[k] = v
    return d


def il(s):
    return [] if s in ("-", "", None) else [int(x) for x in s.split(",")]


def parse_case(c):
    t = c.split()
    d = kvs(c)
    return t[0], t[1], d


def check_layout(tag, d, E, kindspec):
    """The for-all statements of the property on one reported mapping: d has rss, st, o (all valid tuples, lexicographic)."""
    T = tuples(E)
    try:
        rss, st, o = int(d["rss"]), il(d["st"]), il(d["o"])
    except Exception:
        return "unparsable mapping description"
    if len(o) != len(T):
        return "%s: %d offsets reported for %d valid tuples" % (tag, len(o), len(T))
    for i, x in zip(T, o):
        if not (0 <= x < rss):
            return "%s: tuple %s maps to %d outside [0, required_span_size=%d)" % (tag, i, x, rss)
    if len(set(o)) != len(o):
        seen = {}
        for i, x in zip(T, o):
            if x in seen:
                return "%s: tuples %s and %s both map to %d" % (tag, seen[x], i, x)
            seen[x] = i
    pos = {tuple(i): x for i, x in zip(T, o)}
    for i in T:
        for r in range(len(E)):
            j = list(i); j[r] += 1
            if tuple(j) in pos and pos[tuple(j)] - pos[tuple(i)] != st[r]:
                return "%s: step in dimension %d at %s changes the offset by %d, stride(%d)=%d" % (tag, r, i, pos[tuple(j)] - pos[tuple(i)], r, st[r])
    if T and pos[tuple([0] * len(E))] != 0:
        return "%s: the zero tuple maps to %d" % (tag, pos[tuple([0] * len(E))])
    if kindspec in ("L", "R"):
        if rss != prod(E):
            return "%s: required_span_size %d != product of extents %d" % (tag, rss, prod(E))
        if sorted(o) != list(range(rss)):
            return "%s: offsets do not fill [0,%d)" % (tag, rss)
        ss = strides_left(E) if kindspec == "L" else strides_right(E)
        for i, x in zip(T, o):
            if x != dot(i, ss):
                return "%s: tuple %s maps to %d, %s-major formula gives %d" % (tag, i, x, "column" if kindspec == "L" else "row", dot(i, ss))
        if st != ss and prod(E) != 0:
            return "%s: strides %s, formula %s" % (tag, st, ss)
        if d.get("exh") != "1":
            return "%s: is_exhaustive() false" % tag
    else:
        S = kindspec
        if E and st != S:
            return "%s: stride(r) = %s but constructed with %s" % (tag, st, S)
        if rss != rss_stride(E, S):
            return "%s: required_span_size %d, 1+sum (E_r-1)S_r gives %d" % (tag, rss, rss_stride(E, S))
        for i, x in zip(T, o):
            if x != dot(i, S):
                return "%s: tuple %s maps to %d, sum i_r*S_r = %d" % (tag, i, x, dot(i, S))
        full = (len(E) == 0) or (T and sorted(o) == list(range(rss)))
        if (d.get("exh") == "1") != bool(full):
            return "%s: is_exhaustive()=%s but offsets %s [0,%d)" % (tag, d.get("exh"), "fill" if full else "do not fill", rss)
    return None


def oracle(case, impl, model):
    """None if the property accepts the implementation's own observation, else the reason."""
    op, inst, cd = parse_case(case)
    if impl.startswith("NOCOMPILE"):
        return "nocompile", "the constructor/operator needed for this case cannot be instantiated against the tree"
    if impl.startswith(("CRASH", "HANG", "THROWN", "NO-INSTANCE", "UNKNOWN", "NOT-RUN")):
        return "crash", "impl: " + impl[:200]
    E, S = il(cd.get("E")), il(cd.get("S"))
    base = int(cd.get("base", "0"))
    T = tuples(E)
    if op == "ext":
        d = kvs(impl)
        p = inst.split(":")[1]
        if d.get("rank") != str(len(E)) or d.get("rd") != str(p.split(",").count("d")):
            return "rank", "rank/rank_dynamic reported %s/%s" % (d.get("rank"), d.get("rd"))
        for k in ("all", "dyn", "arr", "darr", "sp", "dsp", "toD", "fromD"):
            if il(d.get(k)) != E:
                return k, "extents constructed through '%s' are %s, intended %s" % (k, d.get(k), E)
        if d.get("eq") != "1":
            return "eq", "operator== false on equal extents"
        return None
    if op in ("map", "p1cvt", "p5r0"):
        secs = [s.strip() for s in impl.split(" | ")] if op != "p1cvt" else ["C " + impl]
        src = {}
        for s in secs:
            tag, _, rest = s.partition(" ")
            if tag in ("L", "R", "S", "LS", "RS", "SS", "LR", "RL", "C", "D", "O"):
                if rest.strip() == "-":
                    continue
                d = kvs(rest)
                if op == "p1cvt":
                    ks = cd["lay"]
                elif op == "p5r0":
                    ks = []
                else:
                    ks = {"L": "L", "R": "R", "S": S, "LS": strides_left(E), "RS": strides_right(E), "SS": S, "LR": "R", "RL": "L"}[tag]
                r = check_layout(tag, d, E, ks)
                if r:
                    return tag, r
                src[tag] = d["o"]
                if op == "map" and (tag in ("LS", "LR") and d["o"] != src["L"] or tag in ("RS", "RL") and d["o"] != src["R"] or tag == "SS" and d["o"] != src["S"]):
                    return tag, "%s: converted mapping addresses differently: %s" % (tag, d["o"])
            elif tag in ("Ld", "Rd", "Sd"):
                if rest.strip() == "-":
                    continue
                a, b = rest.split()
                if a != src[tag[0]] or b != src[tag[0]]:
                    return tag, "%s: mapping converted to another extents type addresses differently: %s" % (tag, rest)
        return None
    if op in ("mds", "p2conv"):
        d = kvs(impl)
        lay = cd["lay"]
        ss = strides_left(E) if lay == "L" else strides_right(E) if lay == "R" else S
        want = [base + dot(i, ss) for i in T]
        rss = prod(E) if lay in "LR" else rss_stride(E, S)
        if op == "p2conv":
            for k in ("pb", "pd"):
                if il(d.get(k)) != want:
                    return k, "converted view addresses %s, original view %s" % (d.get(k), want)
            if il(d.get("ext")) != E or il(d.get("dext")) != E:
                return "ext", "converted view has extents %s/%s" % (d.get("ext"), d.get("dext"))
            return None
        p, v, w = il(d.get("p")), il(d.get("v")), il(d.get("w"))
        if il(d.get("ext")) != E or d.get("size") != str(prod(E)) or d.get("empty") != ("1" if prod(E) == 0 else "0") or d.get("rank") != str(len(E)):
            return "size", "size/extents/rank/empty inconsistent: %s" % impl[:120]
        if len(E) > 0 and il(d.get("st")) != ss:
            return "stride", "stride(r) reported %s, layout formula %s" % (d.get("st"), ss)
        if d.get("agree") != "1" or d.get("same") != "1":
            return "access-forms", "operator(), operator[](array), operator[](span) or the constructors disagree"
        for i, x in zip(T, p):
            if not (base <= x < base + rss):
                return "outside", "element %s accessed at storage position %d outside [%d,%d)" % (i, x, base, base + rss)
        if p != want:
            return "element", "elements accessed at %s, mapping designates %s" % (p, want)
        if v != [1000 + x for x in p]:
            return "value", "values read %s" % v
        exp = [1000 + k for k in range(base + rss + 3)]
        for n, x in enumerate(want):
            exp[x] = 5000 + n
        if w != exp:
            return "write", "storage after writes through the view: %s, expected %s" % (w, exp)
        return None
    if op in ("mda", "mdasa"):
        d = kvs(impl)
        lay = cd["lay"]
        ss = strides_left(E) if lay == "L" else strides_right(E)
        want = [dot(i, ss) for i in T]
        n = prod(E)
        cs = int(d.get("cs", "-1"))
        if cs != n or d.get("size") != str(n) or il(d.get("ext")) != E or d.get("empty") != ("1" if n == 0 else "0"):
            return "size", "container_size/size/extents inconsistent: %s (product %d)" % (impl[:100], n)
        if d.get("agree") != "1":
            return "access-forms", "access forms disagree"
        p, v, w = il(d.get("p")), il(d.get("v")), il(d.get("w"))
        if any(not (0 <= x < cs) for x in p):
            return "outside", "element outside the container: %s (size %d)" % (p, cs)
        if p != want:
            return "element", "elements at %s, mapping designates %s" % (p, want)
        k = cd.get("k", "extv")
        ev = [77] * len(T) if k in ("extv", "mapv", "extva", "mapva") else [1000 + x for x in want] if "c" in k else [0] * len(T)
        if v != ev:
            return "init", "initial values %s, expected %s" % (v, ev)
        exp = [0] * n
        for q, x in enumerate(want):
            exp[x] = 7000 + q
        if w != exp:
            return "write", "container after writes %s, expected %s" % (w, exp)
        if op == "mda":
            if d.get("alias") != "1" or d.get("copyeq") != "1":
                return "alias", "to_mdspan does not alias / copy differs"
            ce, ccs, cv = d.get("conv", ";;").split(";")
            if il(ce) != E or int(ccs) != n or il(cv) != [7000 + q for q in range(len(T))]:
                return "convert", "converted array: %s" % d.get("conv")
            fcs, fv = d.get("fs", ";").split(";")
            if int(fcs) != n or il(fv) != [7000 + q for q in range(len(T))]:
                return "from-mdspan", "array built from a view: %s" % d.get("fs")
        return None
    if op in ("mdafs", "p1fs", "p3alloc"):
        d = kvs(impl)
        p, v, src = il(d.get("p")), il(d.get("v")), il(d.get("src"))
        cs = int(d.get("cs", "-1"))
        if il(d.get("ext")) != E:
            return "ext", "extents %s" % d.get("ext")
        if any(not (0 <= x < cs) for x in p) or len(set(p)) != len(p) or len(p) != len(T):
            return "outside", "elements at %s in a container of size %d" % (p, cs)
        if v != src:
            return "copy", "array elements %s, view elements %s" % (v, src)
        return None
    if op == "acc":
        lay, a = cd["lay"], cd["a"]
        S2 = il(cd.get("S2"))
        b2, k1, k2 = int(cd.get("base2", "0")), int(cd["k1"]), int(cd["k2"])
        def cellsof(bb, SS, kk):
            st = strides_left(E) if lay == "L" else strides_right(E) if lay == "R" else SS
            return [bb + 2 * dot(i, st) + kk if a == "s2" else bb + kk * dot(i, st) for i in T]
        P, Q = cellsof(base, S, k1), cellsof(b2, S2, k2)
        secs = [x.strip() for x in impl.split(" | ")]
        d0 = kvs(secs[0])
        if il(d0.get("p")) != P or il(d0.get("q")) != Q:
            return "element", "custom accessor %s: views access cells %s / %s, accessor(mapping(idx)) designates %s / %s" % (a, d0.get("p"), d0.get("q"), P, Q)
        if len(set(P)) != len(P):
            return "element", "cells not distinct"
        if il(d0.get("v")) != [1000 + x for x in P]:
            return "value", "values read through the accessor: %s" % d0.get("v")
        for sct in secs[1:]:
            tag, _, rest = sct.partition(" ")
            if rest.strip() == "-":
                continue
            if tag in ("ar", "ara"):
                d = kvs(rest)
                want = [1000 + x for x in (P if tag == "ar" else Q)]
                if il(d.get("ext")) != E or d.get("cs") != str(prod(E)) or il(d.get("v")) != want:
                    return "from-mdspan", "%s: mdarray built from the view (accessor %s) holds %s (container size %s), the view's elements are %s" % (
                        "mdarray(mdspan)" if tag == "ar" else "mdarray(mdspan, alloc)", a, d.get("v"), d.get("cs"), want)
            elif tag in ("sw", "as"):
                x, y = [il(z.strip()) for z in rest.split(" ; ")]
                wx, wy = (Q, P) if tag == "sw" else (P, Q)
                if x != wx or y != wy:
                    return "swap" if tag == "sw" else "assign", "after %s the views access cells %s ; %s, expected %s ; %s" % ("swap" if tag == "sw" else "copy/move assignment", x, y, wx, wy)
            elif tag == "cv":
                if il(rest) != P:
                    return "convert", "const-converted view accesses %s, original %s" % (rest, P)
        return None
    if op == "rol":
        lay = cd["lay"]
        st = strides_left(E) if lay == "L" else strides_right(E) if lay == "R" else S
        P = [base + dot(i, st) for i in T]
        secs = [x.strip() for x in impl.split(" | ")]
        d0 = kvs(secs[0])
        if il(d0.get("p")) != P:
            return "element", "view accesses %s, mapping designates %s" % (d0.get("p"), P)
        if d0.get("it") != "1":
            return "index-type", "operator[]/operator() with indices of another integral type (long long, size_t, short, unsigned char; array, span, variadic) reach other elements than with index_type"
        for sct in secs[1:]:
            tag, _, rest = sct.partition(" ")
            rest = rest.strip()
            if rest == "-":
                continue
            if tag == "xs":
                a, b, dsc = [x.strip() for x in rest.split(" ; ")]
                if il(a) != P or il(b) != P:
                    return "cross-layout", "mdspan converted to layout_stride / back accesses %s ; %s, source %s" % (a, b, P)
                r = check_layout("xs", kvs(dsc), E, st)
                if r:
                    return "cross-layout", r
            elif tag == "xo":
                a, b = [x.strip() for x in rest.split(" ; ")]
                d = kvs(b)
                if il(a) != P or il(d.get("v")) != [1000 + x for x in P] or il(d.get("ext")) != E:
                    return "cross-layout", "rank<=1 left<->right conversion of mdspan/mdarray: %s" % rest[:150]
            elif tag == "st":
                fl, _, dsc = rest.partition(" ")
                if fl != "1":
                    return "stride-type", "layout_stride::mapping(extents, strides) with strides of another integral type (array/span of long long, short, unsigned char) differs from the index_type form"
                r = check_layout("st", kvs(dsc), E, S)
                if r:
                    return "stride-type", r
            elif tag == "al":
                fl, _, r2 = rest.partition(" ")
                parts = [kvs(x) for x in r2.split(" ; ")]
                n = prod(E)
                want = [[5] * len(T), [1000 + x for x in P], [1000 + dot(i, st) for i in T], [6] * len(T)]
                if fl != "1":
                    return "allocator", "a constructor taking an allocator loses the allocator / the container contents"
                for d, w in zip(parts, want):
                    if il(d.get("v")) != w or d.get("cs") != str(n) or il(d.get("ext")) != E:
                        return "allocator", "mdarray built with an allocator holds %s (container size %s), expected %s" % (d.get("v"), d.get("cs"), w)
            elif tag == "tm":
                if rest != "1":
                    return "to-mdspan", "to_mdspan(accessor) / conversion operator to mdspan do not alias the array"
        return None
    if op == "elt2":
        lay = cd["lay"]
        st = strides_left(E) if lay == "L" else strides_right(E)
        want = [1 + dot(i, st) for i in T]
        for sct in impl.split(" | "):
            tag, _, rest = sct.strip().partition(" ")
            d = kvs(rest)
            if d.get("cs") != str(prod(E)) or d.get("same") != "1" or il(d.get("p")) != want:
                return tag, "element type %s: %s, expected positions %s" % (tag, rest[:120], want)
        return None
    if op == "elt":
        lay = cd["lay"]
        st = strides_left(E) if lay == "L" else strides_right(E)
        want = [dot(i, st) for i in T]
        s1, s2_ = [x.strip() for x in impl.split(" | ")]
        d1, d2 = kvs(s1), kvs(s2_)
        exp = [77] * prod(E)
        for q, x in enumerate(want):
            exp[x] = 7000 + q
        if d1.get("cs") != str(prod(E)) or il(d1.get("w")) != exp:
            return "deque", "mdarray over std::deque: container %s (size %s), expected %s" % (d1.get("w"), d1.get("cs"), exp)
        sv = "-" if not T else ",".join("s%d" % (1 + x) for x in want)
        if d2.get("cs") != str(prod(E)) or d2.get("same") != "1" or d2.get("v") != sv:
            return "string", "mdarray<std::string>(mdspan): %s, expected %s" % (s2_[:120], sv)
        return None
    if op == "swp":
        f = cd["f"]
        E2, S2, base2 = il(cd.get("E2")), il(cd.get("S2")), int(cd.get("base2", "0"))
        rk, rd = len(E), inst.split(":")[1].split(",").count("d")
        for sct in impl.split(" | "):
            tag, _, rest = sct.strip().partition(" ")
            parts = [x.strip() for x in rest.split(" ; ")]
            if len(parts) != 3:
                return tag, "unparsable: %s" % sct[:100]
            da, db, dq = kvs(parts[0]), (None if parts[1] == "b -" else kvs(parts[1])), kvs(parts[2])
            lay = tag[-1]
            def strides(EE, SS):
                return strides_left(EE) if lay == "L" else strides_right(EE) if lay == "R" else SS
            # what the two objects must designate after the operation
            second = (base2, E2, S2)
            first = (base, E, S)
            want_a = second
            want_b = first if f == "swap" else second
            for nmx, d, (bb, EE, SS) in (("first", da, want_a), ("second", db, want_b)):
                if d is None:
                    continue
                st = strides(EE, SS)
                TT = tuples(EE)
                if il(d.get("ext")) != EE:
                    return tag, "%s after %s: %s object has extents %s, expected %s" % (tag, f, nmx, d.get("ext"), EE)
                if rk > 0 and il(d.get("st")) != st:
                    return tag, "%s after %s: %s object reports strides %s, expected %s" % (tag, f, nmx, d.get("st"), st)
                if d.get("size") != str(prod(EE)) or d.get("empty") != ("1" if prod(EE) == 0 else "0"):
                    return tag, "%s after %s: size/empty %s/%s" % (tag, f, d.get("size"), d.get("empty"))
                if tag in ("L", "R", "S"):
                    rss = prod(EE) if lay in "LR" else rss_stride(EE, SS)
                    if d.get("rss") != str(rss):
                        return tag, "%s after %s: %s view required_span_size %s, expected %d" % (tag, f, nmx, d.get("rss"), rss)
                    want = [bb + dot(i, st) for i in TT]
                    if il(d.get("p")) != want:
                        return tag, "%s after %s: %s view accesses storage positions %s, its mapping designates %s" % (tag, f, nmx, d.get("p"), want)
                    if d.get("acc") != "1":
                        return tag, "accessor()/data_handle()/mapping() observers disagree with operator[]"
                else:
                    v0 = 8000 if (nmx == "first" or f != "swap") else 7000
                    if il(d.get("v")) != [v0 + q for q in range(len(TT))] or d.get("cs") != str(prod(EE)):
                        return tag, "%s after %s: %s array holds %s (container size %s)" % (tag, f, nmx, d.get("v"), d.get("cs"))
            if tag in ("L", "R", "S"):
                eq0 = (E == E2) and (lay != "S" or rk == 0 or S == S2)
                exp = {"eq0": "1" if eq0 else "0", "ne": "1", "asg": "1", "dz": "1", "uni": "1", "str": "1", "au": "1", "ae": "0" if lay == "S" else "1",
                       "as": "1", "rank": str(rk), "rd": str(rd), "sr": "1", "self": "1"}
            else:
                eq0 = (E == E2) and prod(E) == 0
                exp = {"self": "1", "eq0": "1" if eq0 else "0", "eqc": "1", "ex": "1", "ptr": "1", "uni": "1", "exh": "1", "str": "1", "au": "1", "ae": "1", "as": "1",
                       "rank": str(rk), "rd": str(rd)}
            for k, v in exp.items():
                if dq.get(k) != v:
                    return tag, "%s: observer/operator '%s' gives %s, expected %s" % (tag, k, dq.get(k), v)
        return None
    if op == "xcv":
        secs = [x.strip() for x in impl.split(" | ")]
        d0 = kvs(secs[0])
        if il(d0.get("ext")) != E:
            return "ext", "converted extents are %s, source extents %s" % (d0.get("ext"), E)
        if il(d0.get("back")) != E or d0.get("eq") != "1":
            return "ext", "conversion back gives %s / operator== %s (source %s)" % (d0.get("back"), d0.get("eq"), E)
        for sct in secs[1:]:
            tag, _, rest = sct.partition(" ")
            d = kvs(rest)
            if il(d.get("ext")) != E:
                return tag, "%s: extents after conversion %s, source %s" % (tag, d.get("ext"), E)
            lay = tag[-1]
            ss = strides_left(E) if lay == "L" else strides_right(E) if lay == "R" else S
            if tag in ("L", "R", "S"):
                r = check_layout(tag, d, E, lay if lay in "LR" else S)
                if r:
                    return tag, "converted mapping: " + r
            elif tag.startswith("sp"):
                want = [base + dot(i, ss) for i in T]
                if il(d.get("p")) != want or d.get("size") != str(prod(E)):
                    return tag, "%s: converted view addresses %s (size %s), source view %s" % (tag, d.get("p"), d.get("size"), want)
            elif tag.startswith("ar"):
                if il(d.get("v")) != [7000 + q for q in range(len(T))] or d.get("cs") != str(prod(E)):
                    return tag, "%s: converted array elements %s (container size %s)" % (tag, d.get("v"), d.get("cs"))
        return None
    if op in ("p7tm", "mdasb"):
        lay = cd["lay"]
        st = strides_left(E) if lay == "L" else strides_right(E)
        want = [dot(i, st) for i in T]
        d = kvs(impl)
        exp = [5 if op == "p7tm" else 0] * prod(E)
        for q, x in enumerate(want):
            exp[x] = 7000 + q
        if il(d.get("p")) != want or il(d.get("w")) != exp:
            return "element", "%s: positions %s container %s, expected %s / %s" % (op, d.get("p"), d.get("w"), want, exp)
        if op == "mdasb" and (d.get("cs") != str(prod(E) + 2) or d.get("size") != str(prod(E)) or il(d.get("v")) != [77] * len(T)):
            return "size", "std::array container larger than required: %s" % impl[:120]
        return None
    if op == "p6crit":
        return None if impl == model else ("crit", "span::crbegin()/crend(): %s, reversed sequence is %s" % (impl, model))
    if op == "p4eq":
        return None if impl == model else ("eq", "operator== : %s, expected %s" % (impl, model))
    if op in ("seq", "p8meq"):
        # the verdict is computed from the implementation's OWN report of both sides: == must be the exact comparison of the
        # reported extents (and strides), whatever the index types of the two sides, and symmetric
        d = kvs(impl)
        E2, S2 = il(cd.get("E2")), il(cd.get("S2"))
        w = BITS[inst[0]][0]
        ea, eb = il(d.get("ea")), il(d.get("eb"))
        if ea != E or eb != E2:
            return "construct", "%s: extents reported %s / %s, constructed from %s / %s" % (op, ea, eb, E, E2)
        xeq = (ea == eb)
        narrowed = lambda u, v: u != v and len(u) == len(v) and all((x - y) % (1 << w) == 0 for x, y in zip(u, v))
        if op == "p8meq":
            if d.get("ab") != str(int(xeq)) or d.get("ba") != str(int(xeq)) or d.get("ne") != str(int(not xeq)):
                return ("eq-narrowed" if narrowed(ea, eb) else "eq"), "mapping == across extents types: a==b %s, b==a %s, a!=b %s; extents %s vs %s" % (
                    d.get("ab"), d.get("ba"), d.get("ne"), ea, eb)
            return None
        sa, sb, sl, sr = il(d.get("sa")), il(d.get("sb")), il(d.get("sl")), il(d.get("sr"))
        if sa != S or sb != S2:
            return "construct", "seq: strides reported %s / %s, constructed from %s / %s" % (sa, sb, S, S2)
        if d.get("xab") != str(int(xeq)) or d.get("xba") != str(int(xeq)):
            return ("extents-eq-narrowed" if narrowed(ea, eb) else "extents-eq"), "extents == across index types: a==b %s, b==a %s; extents %s vs %s" % (
                d.get("xab"), d.get("xba"), ea, eb)
        for key, other, what in (("sab", sb, "a == b"), ("sba", sb, "b == a"), ("sal", sl, "a == layout_left(b's extents)"), ("sar", sr, "a == layout_right(b's extents)")):
            want = xeq and (not ea or sa == other)
            if d.get(key) != str(int(want)):
                asp = "stride-eq-narrowed" if (xeq and narrowed(sa, other) and d.get(key) == "1") else "stride-eq"
                return asp, "layout_stride mapping == across index types: %s is %s, but extents %s vs %s, strides %s vs %s (exact comparison: %s)" % (
                    what, d.get(key), ea, eb, sa, other, int(want))
        return None
    if op == "span":
        return None if impl == model else (cd.get("f", "?"), "span: impl '%s', sequence semantics gives '%s'" % (impl, model))
    return "unknown-op", "unknown op"


def sig_of(case, aspect):
    op, inst, cd = parse_case(case)
    lay = cd.get("lay", cd.get("x", ""))
    if op == "acc":
        lay = cd.get("a", "") + ":" + cd.get("lay", "")
    if op == "swp":
        lay = cd.get("f", "")
    if op == "xcv":
        ps, pd = [x.split(":")[1] for x in inst.split(">")]
        nd = lambda q: q.split(",").count("d")
        lay = "same-dyn-count" if nd(ps) == nd(pd) and ps != pd else "to-dynamic" if nd(pd) > nd(ps) else "to-static" if nd(pd) < nd(ps) else "same-pattern"
    return "C14:%s:%s:%s" % (op, lay, aspect) if lay else "C14:%s:%s" % (op, aspect)


def judge(ctx, cases, io, mo, perr, stats):
    ndis = nviol = 0
    persig = stats.setdefault("_rejections_by_signature", {})
    for c, a, mline in zip(cases, io, mo):
        m, _, spec = mline.partition(" ## ")
        m = m.strip()
        op = c.split()[0]
        stats[op] = stats.get(op, 0) + 1
        if a.startswith("NO-INSTANCE") or a.startswith("UNKNOWN"):
            ndis += 1
            ctx.violation("corr:C14/no-instance", {"broken": "corr:C14/harness (generator emitted a case whose template instantiation is not compiled: generator/harness bug, "
                                                   "not a statement about the code under verification)", "case": c, "impl": a[:300], "model": m[:300]}, found_input=False)
            continue
        r = oracle(c, a, m)
        if r is not None:
            nviol += 1
            asp, reason = r
            rep = {"case": c, "impl": a[:3000], "model": m[:3000], "spec": spec.strip()[:2000], "oracle": reason,
                   "replay_cmd": "bin/check C14 --replay <this file>"}
            if asp == "nocompile":
                pn = int(op[1])
                rep["compile_error"] = perr.get(pn)
            sg = sig_of(c, asp)
            persig[sg] = persig.get(sg, 0) + 1
            if persig[sg] <= 3:
                ctx.violation(sg, rep)
        elif a != m:
            ndis += 1
            ctx.violation("corr:C14/%s" % op, {"broken": "corr:C14/%s" % op, "case": c, "impl": a[:3000], "model": m[:3000],
                                                "oracle": "accepts impl output"}, found_input=False)
        # model vs spec formulas (sanity of the theorems' reading)
        if op == "map" and spec:
            sd = kvs(spec)
            md = {s.split(" ", 1)[0]: kvs(s) for s in m.split(" | ")}
            if md["L"]["o"] != sd["L"] or md["R"]["o"] != sd["R"] or md["S"]["o"] != sd["S"] or md["L"]["rss"] != sd["prod"]:
                ctx.notes.append("model/spec mismatch on %s" % c)
            bad = [k for k in ("UR", "UL", "TR", "VB", "BP", "WR", "FT", "CX") if sd.get(k) != "1"]
            if bad:     # the statements of the theorems evaluated on this case by the extracted model itself
                stats["_selfcheck_failures"] = stats.get("_selfcheck_failures", 0) + 1
                ctx.violation("corr:C14/model-selfcheck", {"broken": "corr:C14/model self-check %s (unrank round trip, loop traces in range and representable, "
                              "validb, bump = stride, wrap identity, fits, cross-layout ==) fails in the extracted model" % bad, "case": c, "spec": spec[:500]}, found_input=False)
        if op == "ext" and spec and kvs(m).get("dyn") != spec.strip():
            ctx.notes.append("model/spec mismatch on %s" % c)
    return ndis, nviol


def params_hook(ctx):
    """Literals of the headers the model depends on are re-read from ctx.repo by tools/params.d/C14.py.  The shared translator writes
    them into coq/Params_gen.v (as for every property); the C14 theories import the C14-only copy coq/C14_Params.v generated here by
    the SAME function, so that regenerations of Params_gen.v by concurrently running checks of other properties do not invalidate
    the compiled C14 files (coqc/coqchk 'inconsistent assumptions')."""
    V.sh([sys.executable, os.path.join(V.VERIF, "tools", "extract_params.py"), ctx.repo], check=True)
    ns, report = {}, {}
    exec(open(os.path.join(V.VERIF, "tools", "params.d", "C14.py")).read(), ns)

    def read(pth):
        try:
            return open(os.path.join(ctx.repo, pth), errors="replace").read()
        except OSError:
            return ""

    def find(name, text, rx, default, conv=lambda q: int(q, 0)):
        m = re.search(rx, text)
        if m:
            try:
                v = conv(m.group(1)); report[name] = {"value": v, "source": "extracted"}; return v
            except Exception:
                pass
        report[name] = {"value": default, "source": "DEFAULT (not located in source)"}
        return default
    lines = ["(* GENERATED by checks/C14.py (params_hook) with tools/params.d/C14.py from the repository sources on every check run -- do not edit.",
             "   Literals of dune/common/std/*.hh the C14 model and theorems depend on. *)", "From Coq Require Import ZArith."]
    lines += ns["lines"](ctx.repo, read, find, report)
    content = "\n".join(lines) + "\n"
    out = os.path.join(V.COQ, "C14_Params.v")
    with V.locked("coq"):
        old = open(out).read() if os.path.exists(out) else None
        if old != content:
            open(out, "w").write(content)
    ctx.coverage["translated_constants"] = {k: v for k, v in report.items()}
    dflt = [k for k, v in report.items() if "DEFAULT" in v["source"]]
    if dflt:
        ctx.notes.append("constants not located in the source (committed defaults used): %s" % dflt)


RACE = "makes inconsistent assumptions over library"


def coq_stage_retry(ctx, tries=4):
    """coq/Params_gen.v(o) is shared by all properties and regenerated by every running check (also by checks of other
    properties against scratch worktrees); lib/vcheck builds the dependencies and re-checks the property file in two separately
    locked steps, so a concurrent regeneration in between shows up as 'inconsistent assumptions over library Params_gen'.
    That is a transient infrastructure race, not a failing proof: rebuild and try again."""
    import time
    for k in range(tries):
        n0 = len(ctx.viol)
        ok = V.coq_stage(ctx)
        log = (ctx.coq or {}).get("log", "")
        if ok or RACE not in log:
            return ok
        del ctx.viol[n0:]
        ctx.notes.append("coq stage retried after a concurrent regeneration of Params_gen.vo (attempt %d)" % (k + 1))
        time.sleep(2 + 3 * k)
    return V.coq_stage(ctx)


def build_model_retry(ctx, tries=4):
    import time
    for k in range(tries):
        try:
            return V.build_model(ctx)
        except V.BuildError as e:
            if RACE not in str(e) or k == tries - 1:
                raise
            ctx.notes.append("model extraction retried after a concurrent regeneration of Params_gen.vo (attempt %d)" % (k + 1))
            time.sleep(2 + 3 * k)


def run(ctx):
    ctx.params_hook = params_hook
    coq_stage_retry(ctx)
    thorough = not ctx.quick
    model = build_model_retry(ctx)
    ctx.log("model built")
    set_extra(corpus_cases())      # before any build: corpus-named instantiations are part of every tier
    from concurrent.futures import ThreadPoolExecutor
    pool = ThreadPoolExecutor(max_workers=1)
    san_future = pool.submit(build_impl, ctx, thorough, True)
    impl, perr = build_impl(ctx, thorough, False)
    ctx.log("impl built; probes: %s" % {k: ("ok" if v is None else "NOCOMPILE") for k, v in perr.items()})
    I, PI = insts(thorough), probe_insts()
    cases = gen(ctx, I, PI)
    ctx.log("generated %d cases for %d instantiations" % (len(cases), len(I)))
    mo = V.run_cases(ctx, [model], cases, tag="model", timeout=900)
    ctx.log("model ran")
    io = V.run_cases(ctx, [impl], cases, tag="impl", timeout=120 if ctx.quick else 600)
    stats = {}
    ctx.log("impl ran")
    ndis, nviol = judge(ctx, cases, io, mo, perr, stats)
    ctx.log("judged: %d oracle rejections, %d impl/model disagreements" % (nviol, ndis))
    # sanitizer variant: memory safety of the element accesses (mdspan/mdarray/span cases)
    nsan = 0
    san_note = None
    try:
        impl_san, _ = san_future.result()
        ctx.log("sanitizer variant built")
        sub = [i for i, c in enumerate(cases) if c.split()[0] in ("mds", "mda", "mdasa", "mdafs", "span", "swp", "acc", "elt", "elt2", "rol", "p1fs", "p2conv", "p3alloc")]
        if ctx.quick:
            sub = sub[::3]
        so = V.run_cases(ctx, [impl_san], [cases[i] for i in sub], tag="san", timeout=300 if ctx.quick else 1200,
                         env={"ASAN_OPTIONS": "detect_leaks=0"})
        nsan = len(sub)
        for j, i in enumerate(sub):
            if j < len(so) and so[j].startswith("NO-INSTANCE"):
                nsan -= 1
                continue
            if j < len(so) and so[j] != io[i]:
                ctx.violation(sig_of(cases[i], "sanitizer"), {"case": cases[i], "impl": io[i][:2000], "impl_sanitized_build": so[j][:2000],
                                                              "oracle": "ASan/UBSan build aborts or behaves differently (access outside the storage / UB)"})
    except V.BuildError as e:
        san_note = "sanitizer build failed: " + str(e)[-400:]
        ctx.notes.append(san_note)
    tuples_enumerated = 0
    for c in cases:
        op, inst, cd = parse_case(c)
        if op != "span":
            tuples_enumerated += prod(il(cd.get("E"))) * (8 if op == "xcv" else 1)
    nontrivial = len(set(c for c in cases if c.split()[0] == "span" or prod(il(parse_case(c)[2].get("E"))) > 1))
    ctx.coverage.update({
        "evaluations": len(cases), "distinct_nontrivial": nontrivial,
        "rule": "cases = corpus + for every instantiation (index type x static/dynamic pattern, rank 0-4, static extents in {0,1,2,3,5}): dynamic extents "
                "exhaustively over {0,1,2,3,5}^rank_dynamic (sampled beyond 8/40 combinations), strides canonical-left, canonical-right, permuted and "
                "padded (unique by construction); conversions between ALL pairs of compatible extents types of rank 1-3 (every static/dynamic shape "
                "on either side, rotating index types) directly and through mapping/mdspan/mdarray converting constructors; per case EVERY valid index tuple is enumerated; non-trivial = index space with more than one tuple "
                "(or a span case); distinct = distinct case lines",
        "samples": cases[:2] + cases[len(cases) // 3: len(cases) // 3 + 2] + cases[-2:],
        "op_distribution": {k: v for k, v in stats.items() if not k.startswith("_")},
        "oracle_rejections_by_signature": stats.get("_rejections_by_signature", {}), "instantiations": len(I), "probe_instantiations": len(PI), "extents_conversion_pairs_instantiated": len(xcv_pairs(thorough)),
        "index_tuples_enumerated": tuples_enumerated,
        "probes_compile": {"p%d" % k: (v is None) for k, v in perr.items()},
        "impl_model_disagreements": ndis, "oracle_rejections": nviol, "sanitizer_cases": nsan,
        "exhaustive": False, "traces_validated_against_impl": len(cases),
        "model_selfcheck_cases": stats.get("map", 0), "model_selfcheck_failures": stats.get("_selfcheck_failures", 0),
    })
    ctx.assumptions += ["accessors: default_accessor, ShiftAcc (cell 2i+shift over a raw pointer), CellAcc (index handle into a global array); containers std::vector/std::array/std::deque; element types long, std::string",
                        "index values generated inside the range of index_type (machine-integer side condition c14_fits)",
                        "constructors that do not compile are observed via separately compiled probe translation units"]


def replay(ctx, path):
    rep = json.load(open(path))
    case = rep["case"]
    model = build_model_retry(ctx)
    set_extra(corpus_cases() + [case])
    impl, perr = build_impl(ctx, not ctx.quick, False)
    mo = V.run_cases(ctx, [model], [case], tag="rmodel")
    io = V.run_cases(ctx, [impl], [case], tag="rimpl", timeout=30)
    m, _, spec = mo[0].partition(" ## ")
    print("case  :", case); print("impl  :", io[0]); print("model :", m.strip()); print("spec  :", spec.strip())
    r = oracle(case, io[0], m.strip())
    print("oracle:", ("%s: %s" % r) if r else "accepts")
    return 1 if r else 0
