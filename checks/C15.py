"""C15 — allocators hand out aligned, disjoint, usable blocks for any request history (DESIGN.md section 4, C15)."""
import os, sys, re, json, itertools
import vcheck as V

META = {
    "level": "proof",
    "technique": "Coq proof (pool geometry for all (sizeof T, alignof T, s); free-list/live partition invariant and block predicate for all "
                 "allocate/free histories; malloc/aligned guards; debug-allocator page layout and deallocate lookup) + extracted model and "
                 "extracted spec oracle vs the C++ allocators on identical scripts (operator-new recorder maps pointers to chunk#+offset)",
    "text": "Theorems in coq/Properties_C15.v: the static_asserts of Pool hold for every parameter choice; for every history of allocate/free "
            "the model's free list and the live blocks partition the slots of all chunks, every block handed out is inside its chunk, aligned, "
            "large enough and disjoint from every live block, n != 1 is refused, destroy releases every chunk once; MallocAllocator/AlignedAllocator "
            "never pass a wrapped size to the system; the DebugAllocator block ends exactly at the guard page and deallocate finds it (refuted for the "
            "tree as found when the byte size is a multiple of the page size).  The model is tied to dune/common/{pool,malloc,aligned,debug}allocator.hh "
            "on every run by replaying exhaustive short scripts and seeded random walks on ~500 template instantiations; Dune::isAligned "
            "(std::align bit trick) decides p mod 2^k = 0; AlignedBase placement new reports exactly the misaligned addresses; the whole public "
            "interface is exercised (mutants/C15/API_COVERAGE.md): copy/convert/rebind never share a pool, deallocate(p,0), null/foreign pointers, "
            "construct/destroy/address/max_size/operator==, AllocationManager misuse detection and destructor, DEBUG_ALLOCATOR_KEEP double free.  "
            "The literal intrusive free list (next_ words inside the slots) is proved observationally equal to the list model and run on every case; "
            "several allocator objects (copy/convert/rebind) never share a pool and refuse each other's blocks; live DebugAllocator blocks are disjoint; "
            "the constants of the sources are re-read into coq/Params_gen.v on every run (tools/params.d/C15.py).",
    "note": "Trusted: Coq kernel, extraction, OCaml driver, C++ harness (operator new recorder, tag writing, EFAULT probes), g++, glibc "
            "malloc/aligned_alloc/mmap return fresh (aligned) memory; sizeof(void*)=alignof(void*)=8.",
    "design_ref": "DESIGN.md section 4 C15",
}

H = os.path.join(V.VERIF, "harness", "C15", "impl.cc")
PAGE = os.sysconf("SC_PAGESIZE")
SIZE_MAX = 2 ** 64 - 1
WRITE_LIMIT = 1 << 22

# ----------------------------------------------------------------------------- configurations (instantiated templates)
TYPES = ([(s, 1) for s in (1, 2, 3, 4, 7, 8, 9, 12, 16, 24, 40, 64, 100)] + [(s, 2) for s in (2, 6, 10)] +
         [(s, 4) for s in (4, 12, 20, 100)] + [(s, 8) for s in (8, 16, 24, 40, 104)] + [(s, 16) for s in (16, 48)] +
         [(s, 32) for s in (32, 96)] + [(s, 64) for s in (64, 192)])
SYS_TYPES = [(1, 1), (3, 1), (4, 4), (8, 8), (12, 4), (24, 8), (16, 16), (100, 4), (32, 32), (64, 64), (192, 64)]
ALIGNED = [(1, 1, -1), (2, 2, -1), (8, 8, -1), (8, 8, 8), (8, 8, 16), (8, 8, 64), (8, 8, 4096), (4, 4, 16), (12, 4, 32), (24, 8, 64),
           (16, 16, -1), (64, 64, -1), (192, 64, -1), (100, 4, 128), (3, 1, 2)]


def pool_S(sT):
    u = max(sT, 8)
    return sorted(set([0, 7, 8, sT, u + 1, 2 * u, 2 * u + 1, 3 * u + 5, 8 * u + 3, 1024]))


def pa_s(sT):
    return sorted(set([0, 1, 2, 3, 7, max(1, 8192 // sT)]))


STL_PA = [(4, 4, 8), (1, 1, 7), (12, 4, 3), (24, 8, 1), (16, 16, 4), (64, 64, 2), (100, 4, 2), (32, 32, 5)]
STL_SYS = [(4, 4), (8, 8), (24, 8), (16, 16), (3, 1)]
STL_AL = [(8, 8, 64), (16, 16, -1), (64, 64, -1), (12, 4, 32)]
BIG_CFG = ["POOL(8,8,1048576)", "PA(4,4,100000)"]      # chunks of 1 MiB / 400 kB


def list_node_layout(sT, aT):
    """sizeof / alignof of libstdc++'s std::_List_node<T> (two pointers + aligned storage for T); checked by the harness"""
    al = max(8, aT); off = (16 + aT - 1) // aT * aT
    return (off + sT + al - 1) // al * al, al


EXH_CFG = [("pool", 4, 4, 0), ("pool", 4, 4, 16), ("pool", 12, 4, 41), ("pa", 1, 1, 7), ("pool", 100, 4, 7), ("pa", 64, 64, 2),
           ("pool", 8, 8, 1024)]


def config_lines():
    lines = []
    for sT, aT in TYPES:
        for S in pool_S(sT):
            lines.append("POOL(%d,%d,%d)" % (sT, aT, S))
        for s in pa_s(sT):
            lines.append("PA(%d,%d,%d)" % (sT, aT, s))
    for sT, aT in SYS_TYPES:
        lines.append("SYS(%d,%d)" % (sT, aT))
    for sT, aT, al in ALIGNED:
        lines.append("ALIGNED(%d,%d,%d)" % (sT, aT, al))
    return lines + BIG_CFG


def config_of(case):
    t = case.split()
    if t[0] in ("pool", "pa"):
        return "%s(%s,%s,%s)" % (t[0].upper(), t[1], t[2], t[3])
    if t[0] == "multi":
        return "PA(%s,%s,%s)" % (t[1], t[2], t[3])
    if t[0] == "malloc":
        return "SYS(%s,%s)" % (t[1], t[2])
    if t[0] in ("debug", "dman", "debugkeep"):
        return "SYS(%s,%s)" % (t[2], t[3])
    if t[0] == "api":
        return {"pa": "PA(%s,%s,%s)" % (t[2], t[3], t[4]), "malloc": "SYS(%s,%s)" % (t[2], t[3]), "debug": "SYS(%s,%s)" % (t[2], t[3]),
                "aligned": "ALIGNED(%s,%s,%s)" % (t[2], t[3], t[4])}.get(t[1])
    if t[0] == "aligned":
        return "ALIGNED(%s,%s,%s)" % (t[1], t[2], t[3])
    return None


NPART = 4      # the harness is compiled NPART times, each with a quarter of the instantiations (parallel, short compile)
NPART_SAN = 2


def write_configs(ctx):
    """configs_p<k>.inc: the instantiations of part k; configs_san<k>.inc: the subset compiled into the sanitizer build (quick tier: a
    quarter of the pool instantiations + the exhaustive-script configurations; thorough tier: all); configs_keep.inc: the SYS
    instantiations only (DEBUG_ALLOCATOR_KEEP=1 build).  Returns (#instantiations, [set of part k], [set of san part k])."""
    lines = config_lines()
    for kind, sT, aT, s in EXH_CFG:
        assert "%s(%d,%d,%d)" % (kind.upper(), sT, aT, s) in lines, (kind, sT, aT, s)
    exh = set("%s(%d,%d,%d)" % (k.upper(), a, b, c) for k, a, b, c in EXH_CFG)
    san = [l for i, l in enumerate(lines) if not ctx.quick or i % 4 == 0 or l in exh or l.startswith("SYS") or l.startswith("ALIGNED")]
    parts = [lines[k::NPART] for k in range(NPART)]
    sparts = [san[k::NPART_SAN] for k in range(NPART_SAN)]
    stl = ["STLPA(%d,%d,%d)" % c for c in STL_PA] + ["STLSYS(%d,%d)" % c for c in STL_SYS] + ["STLAL(%d,%d,%d)" % c for c in STL_AL]
    files = [("configs_stl.inc", stl)] + [("configs_p%d.inc" % k, ls) for k, ls in enumerate(parts)] + [("configs_san%d.inc" % k, ls) for k, ls in enumerate(sparts)] + \
            [("configs_keep.inc", [l for l in lines if l.startswith("SYS")])]
    for name, ls in files:
        txt = "\n".join(ls) + "\n"
        p = ctx.path(name)
        if not os.path.exists(p) or open(p).read() != txt:
            open(p, "w").write(txt)
    return len(lines), [set(x) for x in parts], [set(x) for x in sparts]


# ----------------------------------------------------------------------------- geometry (python copy only to steer the generator)
def lcm(a, b):
    from math import gcd
    return a * b // gcd(a, b)


def geom(sT, aT, S):
    u = max(sT, 8); size = S if (sT <= S and 8 <= S) else u; al = lcm(aT, 8)
    ru = lambda x: x if x % al == 0 else (x // al + 1) * al
    return dict(u=u, size=size, al=al, asz=ru(u), cs=ru(size), el=ru(size) // ru(u))


# ----------------------------------------------------------------------------- scripts: abstract events -> indexed ops
def render(events, succeeds, zfrees=lambda n: n == 1):
    """events: ('a', n, id) | ('f', id) | ('z', id, n) | ('b', id, k) | ('b2', id) | ('o', token).
    succeeds(n) -> predicted success of allocate(n) (block becomes live); zfrees(n): deallocate(p, n) releases the block.
    Returns op tokens (indices recomputed) or None when an event refers to a block that is not live / not released."""
    live, dead, out = [], [], []
    for e in events:
        if e[0] == 'a':
            out.append("a%d" % e[1])
            if succeeds(e[1]):
                live.append(e[2])
        elif e[0] == 'f':
            if e[1] not in live:
                return None
            out.append("f%d" % live.index(e[1])); live.remove(e[1]); dead.append(e[1])
        elif e[0] == 'z':
            if e[1] not in live:
                return None
            out.append("z%d.%d" % (live.index(e[1]), e[2]))
            if zfrees(e[2]):
                live.remove(e[1]); dead.append(e[1])
        elif e[0] == 'b':
            if e[1] not in live:
                return None
            out.append("b%d.%d" % (live.index(e[1]), e[2]))
        elif e[0] == 'b2':
            if e[1] not in dead:
                return None
            out.append("b%d.2" % dead.index(e[1]))
        else:
            out.append(e[1])
    return out


def parse_events(ops, succeeds, zfrees=lambda n: n == 1):
    live, dead, ev, nid = [], [], [], 0
    for t in ops:
        if t[0] == 'a':
            n = int(t[1:]); ev.append(('a', n, nid))
            if succeeds(n):
                live.append(nid)
            nid += 1
        elif t[0] == 'f':
            i = int(t[1:]); ev.append(('f', live[i])); dead.append(live.pop(i))
        elif t[0] == 'z':
            i, n = [int(x) for x in t[1:].split(".")]; ev.append(('z', live[i], n))
            if zfrees(n):
                dead.append(live.pop(i))
        elif t[0] == 'b':
            i, k = [int(x) for x in t[1:].split(".")]
            ev.append(('b2', dead[i]) if k == 2 else ('b', live[i], k))
        else:
            ev.append(('o', t))
    return ev


def exhaustive_scripts(maxlen, maxlive):
    res = []
    def go(prefix, nlive):
        if prefix:
            res.append(list(prefix))
        if len(prefix) == maxlen:
            return
        if nlive < maxlive:
            prefix.append("a1"); go(prefix, nlive + 1); prefix.pop()
        for i in range(nlive):
            prefix.append("f%d" % i); go(prefix, nlive - 1); prefix.pop()
    go([], 0)
    return res


def random_walk(rng, length, elements, bad_ns=(0, 2, 3, 1000), okn=1):
    """Phased walk: fill past chunk boundaries, drain in LIFO/FIFO/random order, refill (forces reuse across chunks)."""
    ops, nlive = [], 0
    target = rng.choice([1, 2, elements, elements + 1, 2 * elements + 1, 3 * elements]) if elements < 200 else rng.choice([3, 40, elements + 1])
    mode = "fill"
    order = rng.choice(["lifo", "fifo", "rand"])
    while len(ops) < length:
        z = rng.random()
        if z < 0.04 and bad_ns:
            ops.append("a%d" % rng.choice(bad_ns)); continue
        if mode == "fill":
            ops.append("a%d" % okn); nlive += 1
            if nlive >= target:
                mode = "drain"; order = rng.choice(["lifo", "fifo", "rand"]); low = rng.choice([0, 0, 1, max(0, target // 2)])
        else:
            if nlive <= low or nlive == 0:
                mode = "fill"; target = max(1, nlive + rng.choice([1, 2, elements, elements + 1, 2 * elements + 1])) if elements < 200 else nlive + rng.choice([1, 5, 50])
                continue
            i = nlive - 1 if order == "lifo" else 0 if order == "fifo" else rng.randrange(nlive)
            ops.append("f%d" % i); nlive -= 1
            if rng.random() < 0.1:
                mode = "fill"
    return ops


def decorate_pool(rng, ops, pa, rate=0.08):
    """Insert the remaining entry points into an a/f script: free(null) x, free(foreign) y; PoolAllocator only: deallocate(p,0) z<i>.0,
    deallocate(p,1) as z<i>.1, copy / converting construction / rebind k0 k1 k2, allocate(SIZE_MAX)."""
    out, nlive = [], 0
    for t in ops:
        if rng.random() < rate:
            c = rng.choice(["x", "y"] + (["k0", "k1", "k2", "k3", "z", "amax"] if pa else []))
            if c == "z":
                if nlive:
                    out.append("z%d.0" % rng.randrange(nlive))
            elif c == "amax":
                out.append("a%d" % SIZE_MAX)
            else:
                out.append(c)
        if t[0] == 'f' and pa and rng.random() < 0.3:
            t = "z%s.1" % t[1:]
        out.append(t)
        if t == "a1":
            nlive += 1
        elif t[0] == 'f' or (t[0] == 'z' and t.endswith(".1")):
            nlive -= 1
    return out


def decorate_debug(rng, ops, sT, misuse=True):
    """deallocate with the default / explicit count (z<i>.0, z<i>.<n>), and a terminal misuse: null / foreign pointer, wrong type,
    interior pointer, wrong count (each must stop the program with the matching diagnostic)."""
    out, live = [], []
    for t in ops:
        if t[0] == 'a':
            n = int(t[1:])
            if n * sT < 2 ** 46:
                live.append(n)
            out.append(t)
        elif t[0] == 'f':
            i = int(t[1:]); n = live.pop(i)
            z = rng.random()
            out.append("z%d.0" % i if z < 0.2 else "z%d.%d" % (i, n) if z < 0.4 and n > 0 else t)
        else:
            out.append(t)
    if misuse and rng.random() < 0.5:
        # no misuse after an overflowing request (on a tree without fixes/C15-2 the live lists of model and impl differ there)
        if out and out[-1][0] == 'a' and int(out[-1][1:]) * sT >= 2 ** 46:
            out.pop()
        c = rng.choice(["x", "y", "b0", "b1", "zw"])
        if c in ("x", "y"):
            out.append(c)
        elif live:
            i = rng.randrange(len(live))
            if c == "b0":
                out.append("b%d.0" % i)
            elif c == "b1":
                out.append("b%d.1" % i)
            else:
                out.append("z%d.%d" % (i, live[i] + rng.choice([1, 2, 100])))
    return out


def gen(ctx):
    quick = ctx.quick
    cases = []
    cp = os.path.join(V.VERIF, "corpus", "C15", "cases.txt")
    if os.path.exists(cp):
        cases += [l.strip().replace("PAGE", str(PAGE)) for l in open(cp) if l.strip() and not l.startswith("#")]
    rng = ctx.rng("gen")
    # --- pool: exhaustive short scripts over <= 3 live handles on configurations with 1, 2, 3, many slots per chunk
    ex = exhaustive_scripts(7 if quick else 9, 3)
    exh_cfg = EXH_CFG
    _unused = [("pool", 4, 4, 0), ("pool", 4, 4, 2 * 8), ("pool", 12, 4, 41), ("pa", 1, 1, 7), ("pool", 100, 4, 7), ("pa", 64, 64, 2),
               ("pool", 8, 8, 1024)]
    for kind, sT, aT, s in (exh_cfg[:5] if quick else exh_cfg):
        for sc in ex:
            cases.append("%s %d %d %d %s" % (kind, sT, aT, s, " ".join(sc)))
    # --- pool: every configuration: a boundary script + seeded walks
    nwalk = 2 if quick else 12
    for sT, aT in TYPES:
        for kind, params in (("pool", pool_S(sT)), ("pa", pa_s(sT))):
            for s in params:
                g = geom(sT, aT, s if kind == "pool" else s * sT)
                el = g["el"]
                k = min(el, 40)
                # fill two chunks (+1), free everything FIFO, refill: reuse order, chunk crossing
                fill = ["a1"] * (2 * k + 1)
                sc = fill + ["f0"] * (2 * k + 1) + ["a1"] * (k + 1) + ["a0", "a2", "x", "y"] + (["k0", "z0.0", "k2", "a%d" % SIZE_MAX, "k1", "z0.1", "a1", "k3", "a1", "f0"] if kind == "pa" else [])
                cases.append("%s %d %d %d %s" % (kind, sT, aT, s, " ".join(sc)))
                for w in range(nwalk):
                    L = rng.choice([20, 60, 150] if quick else [30, 100, 250, 500])
                    wk = random_walk(rng, L, el)
                    if w % 2 == 1 or not quick:
                        wk = decorate_pool(rng, wk, kind == "pa")
                    cases.append("%s %d %d %d %s" % (kind, sT, aT, s, " ".join(wk)))
    # --- malloc / aligned: sizes around 0, small, max_size
    for kind, cfgs in (("malloc", [(a, b, None) for a, b in SYS_TYPES]), ("aligned", ALIGNED)):
        for sT, aT, al in cfgs:
            ms = SIZE_MAX // sT
            big = [ms, ms + 1, ms - 1, 2 ** 63, SIZE_MAX, 2 ** 64 // sT + 1, (2 ** 64 + 8 * sT - 1) // sT]
            big = [b for b in big if 0 <= b <= SIZE_MAX and b * sT >= 2 ** 47]
            small = [0, 1, 2, 3, 7, 16, 100, 1000]
            mid = sorted(set(max(1, b // sT) + d for b in (4096, 65536, 1 << 20, (1 << 22) - 4096) for d in (0, 1)))   # whole extent written, usable size checked
            pre = "%s %d %d %s" % (kind, sT, aT, "" if al is None else "%d " % al)
            cases.append(pre + " ".join("a%d f0" % n for n in mid if n * sT <= WRITE_LIMIT))
            cases.append(pre + " ".join(["a%d" % n for n in small + big] + ["f0"] * len(small)))
            for w in range(2 if quick else 10):
                ops, nlive = [], 0
                for _ in range(rng.choice([10, 40] if quick else [20, 80, 200])):
                    z = rng.random()
                    if z < 0.12:
                        ops.append("a%d" % rng.choice(big))
                    elif z < 0.6 or nlive == 0:
                        ops.append("a%d" % rng.choice(small + [rng.randrange(1, 3000)])); nlive += 1
                    else:
                        ops.append("f%d" % rng.randrange(nlive)); nlive -= 1
                cases.append(pre + " ".join(ops))
    # --- debug allocator: sizes around page multiples; overflowing requests only at the end of a script
    for sT, aT in SYS_TYPES:
        per = PAGE // sT
        pm = [0] + [k * PAGE // sT for k in (1, 2, 3) if (k * PAGE) % sT == 0]        # byte size multiple of the page size (or 0)
        npm = sorted(set(n for n in [1, 2, 3, per - 1, per + 1, 2 * per + 1, 100, 3 * per - 1, 5] if n > 0 and (n * sT) % PAGE != 0))
        lim = (SIZE_MAX - 2 * PAGE) // sT
        over = [b for b in [lim + 1, SIZE_MAX // sT, SIZE_MAX // sT + 1, 2 ** 64 // sT + 1, SIZE_MAX, 2 ** 63 + 1, (2 ** 64 + 8 * sT - 1) // sT] if lim < b <= SIZE_MAX]
        huge_ok = [lim, lim - 1, 2 ** 50 // sT + 1]
        pre = "debug %d %d %d " % (PAGE, sT, aT)
        # (a) single alloc/free per size class
        for n in pm + npm:
            cases.append(pre + "a%d f0" % n)
        for n in over + huge_ok:
            cases.append(pre + "a1 a%d" % n)
        # (b) walks over non-page-multiple sizes only (full coverage also on a tree without fixes/C15-1)
        # (c) walks over all sizes
        for sizes, cnt in ((npm, 3 if quick else 12), (npm + pm, 3 if quick else 12)):
            for w in range(cnt):
                ops, nlive = [], 0
                for _ in range(rng.choice([8, 25] if quick else [10, 40, 120])):
                    if rng.random() < 0.55 or nlive == 0:
                        ops.append("a%d" % rng.choice(sizes)); nlive += 1
                    else:
                        i = rng.choice([0, nlive - 1, rng.randrange(nlive)])
                        ops.append("f%d" % i); nlive -= 1
                if rng.random() < 0.5:
                    ops.append("a%d" % rng.choice(over + huge_ok))
                cases.append(pre + " ".join(ops))
                if w % 2 == 0:
                    cases.append(pre + " ".join(decorate_debug(rng, ops, sT)))
        # (d) misuse, one per kind
        cases += [pre + "a5 a2 " + m for m in ("x", "y", "b0.0", "b1.1", "b0.1", "z1.3", "z0.0 z0.2 a3 z0.4")]
        # (e) DebugMemory::AllocationManager used directly: own manager, deallocate<T>(p) with the default count, destructor with / without
        #     blocks in use
        for w in range(3 if quick else 10):
            ops, live = [], []
            for _ in range(rng.choice([4, 12] if quick else [6, 20, 60])):
                if rng.random() < 0.55 or not live:
                    n = rng.choice(npm + pm); ops.append("a%d" % n); live.append(n)
                else:
                    i = rng.randrange(len(live)); n = live.pop(i)
                    ops.append(rng.choice(["f%d" % i, "f%d" % i, "z%d.%d" % (i, n)]))
            if w % 2 == 0:
                ops += ["f0"] * len(live)          # clean destruction
            cases.append("dman %d %d %d " % (PAGE, sT, aT) + " ".join(ops))
        cases.append("dman %d %d %d a3 b0.0" % (PAGE, sT, aT))
        cases.append("dman %d %d %d a3 a1 f0 y" % (PAGE, sT, aT))
        # (f) DEBUG_ALLOCATOR_KEEP=1 build: same traces, plus detection of a double free
        for w in range(3 if quick else 10):
            ops, nlive, ndead = [], 0, 0
            for _ in range(rng.choice([4, 12] if quick else [6, 20, 60])):
                if rng.random() < 0.55 or nlive == 0:
                    ops.append("a%d" % rng.choice(npm + pm)); nlive += 1
                else:
                    ops.append("f%d" % rng.randrange(nlive)); nlive -= 1; ndead += 1
            if ndead and w % 3 != 2:
                ops.append("b%d.2" % rng.randrange(ndead))
            cases.append("debugkeep %d %d %d " % (PAGE, sT, aT) + " ".join(ops))
    # --- several allocator objects of one type: copies never share the pool, release through another object is refused, operator==
    for sT, aT in TYPES:
        for sN in [x for x in pa_s(sT) if x in (1, 2, 3, 7)][:(2 if quick else 4)]:
            for w in range(1 if quick else 6):
                ops, lives = [], [0]
                for _ in range(rng.choice([15, 40] if quick else [20, 60, 150])):
                    z = rng.random(); nal = len(lives)
                    owners = [j for j in range(nal) if lives[j] > 0]
                    if z < 0.45 or not owners:
                        j = rng.randrange(nal); n = 1 if rng.random() < 0.93 else rng.choice([0, 2])
                        ops.append("A%d.%d" % (j, n)); lives[j] += (n == 1)
                    elif z < 0.68:
                        j = rng.choice(owners); ops.append("F%d.%d" % (j, rng.randrange(lives[j]))); lives[j] -= 1
                    elif z < 0.78 and nal < 6:
                        ops.append("C%d" % rng.randrange(nal)); lives.append(0)
                    elif z < 0.90:
                        j = rng.choice(owners); k = rng.randrange(nal); i = rng.randrange(lives[j])
                        ops.append("V%d.%d.%d" % (k, j, i)); lives[j] -= (k == j)
                    else:
                        ops.append("E%d.%d" % (rng.randrange(nal), rng.randrange(nal)))
                cases.append("multi %d %d %d %s" % (sT, aT, sN, " ".join(ops)))
    cases.append("multi 12 4 2 A0.1 C0 A1.1 E0.1 E1.1 V1.0.0 V0.0.0 F1.0 C1 A2.1 A2.1 A2.1 V0.2.1 E2.2 E0.2")
    # --- the allocators in their real role: std::list (all four) / std::vector (malloc, aligned, debug) through std::allocator_traits
    def stl_walk(L, movable):
        ops, sz = [], 0
        for _ in range(L):
            z = rng.random()
            if z < 0.45 or sz == 0:
                ops.append("p%d" % rng.randrange(1, 250)); sz += 1
            elif z < 0.58:
                ops.append("q"); sz -= 1
            elif z < 0.70:
                ops.append("e%d" % rng.randrange(sz)); sz -= 1
            elif z < 0.80:
                ops.append("i%d.%d" % (rng.randrange(sz + 1), rng.randrange(1, 250))); sz += 1
            elif z < 0.84:
                ops.append("c"); sz = 0
            elif z < 0.91:
                ops.append("y")
            elif not movable:
                ops.append("y")      # PoolAllocator: copy construction only (a copied PoolAllocator never compares equal: assignment / move are outside its contract)
            elif z < 0.96:
                ops.append("g")
            else:
                ops.append("m")
        return ops
    nst = 2 if quick else 10
    for sT, aT, sN in STL_PA:
        nS, nA = list_node_layout(sT, aT)
        cases.append("stl pa list %d %d %d %d %d p1 p2 p3 y y q q q q p4 c p5 y" % (sT, aT, sN, nS, nA))
        for w in range(nst):
            cases.append("stl pa list %d %d %d %d %d %s" % (sT, aT, sN, nS, nA, " ".join(stl_walk(rng.choice([15, 50]), False))))
    for what, cfgs in (("malloc", [(a, b, 0) for a, b in STL_SYS]), ("debug", [(a, b, 0) for a, b in STL_SYS]), ("aligned", STL_AL)):
        for sT, aT, par in cfgs:
            nS, nA = list_node_layout(sT, aT)
            for cont in ("list", "vector"):
                for w in range(nst):
                    cases.append("stl %s %s %d %d %d %d %d %s" % (what, cont, sT, aT, par, nS, nA, " ".join(stl_walk(rng.choice([15, 50]), True))))
    # --- large chunks (1 MiB / 400 kB): geometry and the first slots only
    cases.append("pool 8 8 1048576 " + " ".join(["a1"] * 50 + ["f0"] * 25 + ["a1"] * 30 + ["x", "a2"]))
    cases.append("pa 4 4 100000 " + " ".join(["a1"] * 50 + ["f3"] * 25 + ["a1"] * 30 + ["k0", "a0", "k3", "a1"]))
    # --- plain interface: max_size(), operator== / != (all overloads), rebind, PoolAllocator<void,s>
    for sT, aT in TYPES:
        for sN in pa_s(sT):
            cases.append("api pa %d %d %d" % (sT, aT, sN))
    for sT, aT in SYS_TYPES:
        cases.append("api malloc %d %d 0" % (sT, aT)); cases.append("api debug %d %d 0" % (sT, aT))
    for sT, aT, al in ALIGNED:
        cases.append("api aligned %d %d %d" % (sT, aT, al))
    # --- isAligned
    for k in range(0, 13):
        a = 1 << k
        for p in sorted(set([0, 1, a - 1, a, a + 1, 2 * a, 3 * a, 3 * a + a // 2, 4096, 4096 + a, 2 ** 47 - a, 2 ** 47 - a + 1, 2 ** 63, 2 ** 63 + a // 2 + 0,
                             2 ** 64 - a, 2 ** 64 - 1] + [rng.randrange(2 ** 48) for _ in range(4)] + [rng.randrange(2 ** 36) * a for _ in range(3)])):
            if 0 <= p < 2 ** 64:
                cases.append("isaligned %d %d" % (p, a))
    # --- AlignedBase<align,.>::operator new(count, ptr) (AlignedNumber<double,align> placed at a 4096-aligned buffer + off)
    for a in (16, 32, 64, 128):
        for off in sorted(set([0, 1, 8, a // 2, a - 1, a, a + 1, a + 8, 2 * a, 3 * a + a // 2, 4096, 4096 + a // 2, 8192 - a] + [rng.randrange(8192) for _ in range(6)])):
            for mode in (0, 1, 2, 3):       # operator new, operator new[], default (aborting) handler, empty handler
                cases.append("alignedbase %d %d %d" % (a, off, mode))
    return cases


# ----------------------------------------------------------------------------- classification
def case_parts(case):
    t = case.split()
    kind = t[0]
    if kind == "api":
        return kind, t[1:], []
    npar = {"pool": 3, "pa": 3, "malloc": 2, "aligned": 3, "debug": 3, "dman": 3, "debugkeep": 3, "isaligned": 2, "alignedbase": 3, "multi": 3, "stl": 0}[kind]
    return kind, [int(x) for x in t[1:1 + npar]], t[1 + npar:]


DEBUG_KINDS = ("debug", "dman", "debugkeep")
NOSCRIPT = ("isaligned", "alignedbase", "api", "multi", "stl")


def succeeds_fn(kind, par):
    if kind in ("pool", "pa"):
        return lambda n: n == 1
    sT = par[1] if kind in DEBUG_KINDS else par[0]
    return lambda n: n * sT < 2 ** 46


def zfrees_fn(kind):
    return (lambda n: n == 1) if kind in ("pool", "pa") else (lambda n: True)


def sig_of(case, impl_line, verdict):
    kind, par, ops = case_parts(case)
    if kind == "api":
        return "C15:api:%s" % par[0]
    if kind == "alignedbase":
        return "C15:alignedbase:mode%d" % par[2]
    if kind == "stl":
        t = case.split(); fl = re.search(r"!([a-z-]+)", verdict)
        return "C15:stl:%s:%s:%s" % (t[1], t[2], fl.group(1) if fl else "crash" if "incomplete" in verdict else "chunks" if "chunk" in verdict else "contents")
    if kind == "multi":
        fl = re.search(r"!([a-z-]+)", verdict)
        return "C15:multi:" + (fl.group(1) if fl else "not-refused" if "not refused" in verdict else "operator-eq" if "operator==" in verdict
                               else "destroy" if "destroying" in verdict else "crash" if "incomplete" in verdict else "block-predicate")
    m = re.search(r"at op (\d+): (\S+)", verdict)
    if kind in DEBUG_KINDS and m:
        k, tok = int(m.group(1)), m.group(2)
        sT = par[1]
        if k < len(ops):
            op = ops[k]
            if op[0] == 'a' and tok.startswith("ok") and int(op[1:]) * sT + 2 * PAGE > SIZE_MAX:
                return "C15:%s:alloc:size-overflow" % kind
            if op[0] == 'a' and tok.startswith("ok") and int(op[1:]) * sT >= 2 ** 47:
                return "C15:%s:served-unservable-request" % kind
            if op[0] == 'f' and tok.startswith("ABORT(memory_block_not_found"):
                try:
                    ev = parse_events(ops[:k + 1], succeeds_fn(kind, par), zfrees_fn(kind))
                    n = [e[1] for e in ev if e[0] == 'a' and e[2] == ev[-1][1]][0]
                    if (n * sT) % PAGE == 0:
                        return "C15:%s:dealloc:page-multiple" % kind
                except Exception:
                    pass
            return "C15:%s:%s:%s" % (kind, {"a": "alloc", "f": "dealloc", "z": "dealloc-count", "x": "dealloc-null", "y": "dealloc-foreign",
                                               "b": "dealloc-misuse"}.get(op[0], "op"), re.sub(r"[^A-Za-z!-]", "", tok.split("(")[0])[:24])
        return "C15:%s:%s" % (kind, re.sub(r"[^A-Za-z!(_)-]", "", tok)[:40])
    fl = re.search(r"!([a-z-]+)", verdict)
    if kind == "malloc" and fl and fl.group(1) == "misaligned" and par[1] > 16:
        return "C15:malloc:misaligned:overaligned-type"
    if fl:
        return "C15:%s:%s" % (kind, fl.group(1))
    if "unservable" in verdict:
        return "C15:%s:served-unservable-request" % kind
    if "max_size" in verdict:
        return "C15:%s:served-beyond-max_size" % kind
    if "destructor" in verdict:
        return "C15:%s:manager-destructor" % kind
    if "print()" in verdict:
        return "C15:%s:print" % kind
    if "destroy" in verdict:
        return "C15:%s:destroy" % kind
    if "not refused" in verdict:
        return "C15:%s:n-not-1-served" % kind
    if "block predicate" in verdict:
        if m and int(m.group(1)) < len(ops) and ops[int(m.group(1))][0] in "xyzk":
            return "C15:%s:%s" % (kind, {"x": "free-null", "y": "free-foreign", "z": "deallocate-count", "k": "copy"}[ops[int(m.group(1))][0]])
        return "C15:%s:block-predicate" % kind
    if "incomplete" in verdict:
        return "C15:%s:crash" % kind
    return "C15:%s:other" % kind


# ----------------------------------------------------------------------------- build / run
REPO_SRCS = V.REPO_CC_DEFAULT + ["dune/common/debugallocator.cc", "dune/common/debugalign.cc"]
SAN_ENV = {"ASAN_OPTIONS": "allocator_may_return_null=1:detect_leaks=0:abort_on_error=1", "UBSAN_OPTIONS": "halt_on_error=1:abort_on_error=1"}


def build(ctx, san=True):
    """returns (impls, impls_san, ncfg): impls = {"parts": [(exe, configs)], "keep": exe}"""
    ncfg, parts, sparts = write_configs(ctx)
    inc = "-I" + ctx.build
    jobs = [dict(srcs=[H], out=ctx.path("impl_p%d" % k), opt="-O1", flags=[inc, '-DCONFIGS_INC="configs_p%d.inc"' % k] + (["-DC15_WITH_STL"] if k == 0 else []), repo_srcs=REPO_SRCS) for k in range(NPART)]
    jobs.append(dict(srcs=[H], out=ctx.path("impl_keep"), opt="-O1", flags=[inc, '-DCONFIGS_INC="configs_keep.inc"', "-DDEBUG_ALLOCATOR_KEEP=1"], repo_srcs=REPO_SRCS))
    if san:
        jobs += [dict(srcs=[H], out=ctx.path("impl_san%d" % k), san=True, opt="-O0", flags=[inc, '-DCONFIGS_INC="configs_san%d.inc"' % k] + (["-DC15_WITH_STL"] if k == 0 else []), repo_srcs=REPO_SRCS)
                 for k in range(NPART_SAN)]
    outs = V.cxx_many(ctx, jobs)
    impls = {"parts": list(zip(outs[:NPART], parts)), "keep": outs[NPART]}
    impls_san = {"parts": list(zip(outs[NPART + 1:], sparts)), "keep": None} if san else None
    return impls, impls_san, ncfg


def run_impl(ctx, impl, cases, tag, timeout=None, env=None):
    """route every case to the executable that contains its instantiation (`debugkeep` cases: the DEBUG_ALLOCATOR_KEEP=1 build)"""
    timeout = timeout or (300 if ctx.quick else 1200)
    route = {}
    for i, c in enumerate(cases):
        if c.startswith("debugkeep"):
            exe = impl["keep"]
        else:
            cfg = config_of(c)
            exe = next((e for e, cs in impl["parts"] if cfg in cs), impl["parts"][0][0])
        route.setdefault(exe, []).append(i)
    res = ["NOT-RUN"] * len(cases)
    for n, (exe, idx) in enumerate(sorted(route.items(), key=lambda kv: str(kv[0]))):
        if exe is None:
            continue
        for i, o in zip(idx, V.run_cases(ctx, [exe], [cases[i] for i in idx], tag="%simpl%d" % (tag, n), timeout=timeout, env=env)):
            res[i] = o
    return res


def probe_compile(ctx):
    """public overloads that only matter at compile time: PoolAllocator comparison with different chunk sizes"""
    try:
        V.cxx(ctx, [os.path.join(V.VERIF, "harness", "C15", "probe_eq.cc")], ctx.path("probe_eq.o"), repo_srcs=[], flags=["-c"])
        return True
    except V.BuildError as e:
        m = re.search(r"error: (.*)", str(e))
        ctx.violation("C15:pa:operator==:different-chunk-size:does-not-compile",
                      {"case": "harness/C15/probe_eq.cc: PoolAllocator<int,3>() == PoolAllocator<int,4>()", "impl": "compile error: " + (m.group(1) if m else "?"),
                       "model": "c15_pa_equal true false = false", "oracle": "the comparison operators must be usable for every pair of PoolAllocator types"})
        return False


def run_all(ctx, model, impl, cases, tag):
    mo = V.run_cases(ctx, [model], cases, tag=tag + "model", timeout=600)
    io = run_impl(ctx, impl, cases, tag)
    cf = ctx.path(tag + "oracle.cases"); of = ctx.path(tag + "oracle.impl")
    open(cf, "w").write("\n".join(cases) + "\n"); open(of, "w").write("\n".join(io) + "\n")
    rc, out = V.sh([model, cf, of], timeout=600)
    vo = out.split("\n")
    if vo and vo[-1] == "":
        vo.pop()
    if len(vo) != len(cases):
        raise V.BuildError("oracle pass produced %d lines for %d cases: %s" % (len(vo), len(cases), out[-500:]))
    return mo, io, vo


def shrink(ctx, model, impl, case, sig, impl_line, verdict):
    """Delta debugging on the op sequence (abstract events, frees follow their allocation), impl + oracle in the loop."""
    kind, par, ops = case_parts(case)
    if kind in NOSCRIPT:
        return (case, impl_line, verdict)
    suc = succeeds_fn(kind, par); zf = zfrees_fn(kind)
    try:
        ev = parse_events(ops, suc, zf)
    except Exception:
        return (case, impl_line, verdict)
    pre = " ".join([kind] + [str(x) for x in par]) + " "
    best = (case, impl_line, verdict)
    for rnd in range(12):
        cands = []
        for i in range(len(ev)):
            e = ev[i]
            cand = [x for j, x in enumerate(ev) if j != i and not (e[0] == 'a' and x[0] in ('f', 'z', 'b', 'b2') and x[1] == e[2])]
            r = render(cand, suc, zf)
            if r is not None and r:
                cands.append((cand, pre + " ".join(r)))
        # also: drop the tail after each position (big steps first)
        for cut in (len(ev) // 2, len(ev) * 3 // 4):
            r = render(ev[:cut], suc, zf)
            if r:
                cands.insert(0, (ev[:cut], pre + " ".join(r)))
        if not cands:
            break
        cs = [c for _, c in cands]
        _, io, vo = run_all(ctx, model, impl, cs, "shrink")
        hit = None
        for (cev, c), a, v in zip(cands, io, vo):
            if v != "ok" and sig_of(c, a, v) == sig:
                hit = cev; best = (c, a, v); break
        if hit is None:
            break
        ev = hit
    return best


def params_hook(ctx):
    V.sh([sys.executable, os.path.join(V.VERIF, "tools", "extract_params.py"), ctx.repo], check=True)


def coqchk(ctx):
    """thorough tier: independent re-check of the compiled property file (and everything it depends on) by coqchk"""
    with V.locked("coq"):
        rc, out = V.sh(["coqchk", "-silent", "-o", "-Q", ".", "DuneV", "DuneV.Properties_C15"], cwd=V.COQ, timeout=1800)
    m = re.search(r"\* Axioms:\s*(.*?)\n\s*\n", out, re.S)
    ctx.coverage["coqchk"] = {"rc": rc, "axioms": (m.group(1).strip() if m else "?"), "tail": out[-300:] if rc else ""}
    if rc != 0:
        ctx.violation("coq:coqchk", {"broken": "coqchk rejects the compiled development", "log": out[-3000:]}, found_input=False)


def run(ctx):
    ctx.params_hook = params_hook
    ok = V.coq_stage(ctx)
    if ok and not ctx.quick:
        coqchk(ctx)
    model = V.build_model(ctx)
    impl, impl_san, ncfg = build(ctx, san=True)
    sancfg = set().union(*[cs for _, cs in impl_san["parts"]])
    ctx.coverage["compile_probe_pa_eq"] = probe_compile(ctx)
    cases = gen(ctx)
    ctx.log("generated %d cases on %d instantiations" % (len(cases), ncfg))
    mo, io, vo = run_all(ctx, model, impl, cases, "")
    kinds, nops, nviol, ndis = {}, 0, 0, 0
    stats = {"blocks": 0, "grows": 0, "reused_slots": 0, "refusals": 0, "frees": 0, "max_chunks": 0, "scripts_ge_100_ops": 0}
    shrunk = set()
    for c, m, a, v in zip(cases, mo, io, vo):
        kind = c.split(" ", 1)[0]; kinds[kind] = kinds.get(kind, 0) + 1
        mm, _, mv = m.partition(" | ")
        toks = mm.split()
        nops += len(toks)
        if kind in ("pool", "pa"):
            seen = set()
            for t in toks[1:]:
                if t[0] == 'c':
                    stats["blocks"] += 1
                    if t in seen: stats["reused_slots"] += 1
                    seen.add(t)
                    if t.endswith("+0"): stats["grows"] += 0
                elif t == "bad_alloc": stats["refusals"] += 1
                elif t == "F": stats["frees"] += 1
            ch = set(t.split("+")[0] for t in toks[1:] if t[0] == 'c')
            stats["grows"] += len(ch); stats["max_chunks"] = max(stats["max_chunks"], len(ch))
            if len(toks) >= 100: stats["scripts_ge_100_ops"] += 1
        if mv != "ok":
            ctx.notes.append("model's own trace rejected by the spec oracle on %s: %s" % (c[:80], mv))
            ctx.violation("C15:model-vs-spec", {"broken": "theorem reading: model output rejected by spec oracle", "case": c, "model": mm, "oracle": mv}, found_input=False)
        if v != "ok":
            nviol += 1
            sig = sig_of(c, a, v)
            if sig not in shrunk and len(shrunk) < 6:
                shrunk.add(sig)
                small, simpl, sverdict = shrink(ctx, model, impl, c, sig, a, v)
                smo = V.run_cases(ctx, [model], [small], tag="minmodel")[0].partition(" | ")[0]
                ctx.violation(sig, {"case": small, "impl": simpl, "model": smo, "oracle": sverdict, "unshrunk_case": c if len(c) < 4000 else c[:4000] + " ...",
                                    "replay_cmd": "bin/check C15 --replay <this file>"})
            elif nviol <= 300:
                ctx.violation(sig, {"case": c if len(c) < 4000 else c[:4000] + " ...", "impl": a[:4000], "model": mm[:4000], "oracle": v})
        elif a != mm:
            ndis += 1
            if ndis <= 20:
                ctx.violation("corr:C15/%s" % kind, {"broken": "corr:C15/%s (impl differs from model, spec oracle accepts the impl's trace)" % kind,
                                                     "case": c[:4000], "impl": a[:4000], "model": mm[:4000], "oracle": "accepts impl output"}, found_input=False)
    # sanitizer build: pool / malloc / debug / isaligned cases (aligned_alloc with size not a multiple of the alignment is rejected by ASan itself)
    # (UBSan itself stops deallocate(nullptr) of the debug allocator at the pointer arithmetic: those cases stay with the plain build)
    sub = [i for i, c in enumerate(cases) if not c.startswith("aligned") and not c.startswith("debugkeep") and not c.startswith("api aligned")
           and not (c.split()[0] in DEBUG_KINDS and c.endswith(" x"))
           and (c.startswith("isaligned") or (c.startswith("stl") and not c.startswith("stl aligned")) or config_of(c) in sancfg)][::(2 if ctx.quick else 1)]
    so = run_impl(ctx, impl_san, [cases[i] for i in sub], "san", timeout=300 if ctx.quick else 1500, env=SAN_ENV)
    nsan = 0
    dif = [(i, so[j]) for j, i in enumerate(sub) if j < len(so) and so[j] != io[i]]
    if dif:
        cf = ctx.path("san.oracle.cases"); of = ctx.path("san.oracle.impl")
        open(cf, "w").write("\n".join(cases[i] for i, _ in dif) + "\n"); open(of, "w").write("\n".join(o for _, o in dif) + "\n")
        rc, out = V.sh([model, cf, of], timeout=600)
        sv = out.split("\n")
        for (i, o), v2 in zip(dif, sv):
            nsan += 1
            if nsan > 40:
                break
            if v2 != "ok":
                ctx.violation(sig_of(cases[i], o, v2), {"case": cases[i][:4000], "impl": io[i][:2000], "impl_sanitized_build": o[:2000], "oracle": v2,
                                                        "build": "-fsanitize=address,undefined"})
            elif vo[i] == "ok":
                ctx.violation("corr:C15/%s:sanitizer" % cases[i].split()[0],
                              {"broken": "sanitizer build and plain build give different traces, the spec oracle accepts both", "case": cases[i][:4000],
                               "impl": io[i][:2000], "impl_sanitized_build": o[:2000]}, found_input=False)
    nontrivial = len(set(c for c in cases if re.search(r"\ba\d+\b.*\bf\d+\b", c)))
    ctx.coverage.update({
        "evaluations": len(cases), "operations_replayed": nops, "distinct_nontrivial": nontrivial,
        "rule": "cases = corpus + exhaustive scripts (len<=%d, <=3 live) on 5-7 pool configurations + boundary script and seeded phased walks on every one of %d "
                "instantiations (Pool<T,S>, PoolAllocator<T,s>, Malloc/Aligned/DebugAllocator<T>) + size-boundary scripts; non-trivial = script contains an "
                "allocation followed by a release; distinct = distinct case lines" % (7 if ctx.quick else 9, ncfg),
        "samples": [c[:200] for c in (cases[:1] + cases[len(cases) // 3: len(cases) // 3 + 2] + cases[-600:-599] + cases[-1:])],
        "kind_distribution": kinds, "pool_stats": stats, "instantiations": ncfg, "element_types": len(TYPES),
        "impl_model_disagreements": ndis, "oracle_rejections": nviol, "sanitizer_cases": len(sub), "sanitizer_differences": nsan,
        "exhaustive": False, "traces_validated_against_impl": len(cases), "page_size": PAGE,
    })
    ctx.assumptions += ["operator new / malloc / aligned_alloc / mmap return fresh storage disjoint from live storage, aligned as requested (platform contract)",
                        "sizeof(void*) = alignof(void*) = 8 (LP64); page size read from sysconf at run time",
                        "chunk identification relies on Pool obtaining storage only through the replaceable global operator new",
                        "intrusive free list modelled as the sequence of its nodes (C15_Model.v header)"]


def replay(ctx, path):
    rep = json.load(open(path))
    case = rep["case"]
    model = V.build_model(ctx)
    impl, _, _ = build(ctx, san=False)
    mo, io, vo = run_all(ctx, model, impl, [case], "replay")
    mm, _, mv = mo[0].partition(" | ")
    print("case  :", case); print("impl  :", io[0]); print("model :", mm); print("oracle:", vo[0], "(on impl output);", mv, "(on model output)")
    return 1 if vo[0] != "ok" else 0
