"""C15 — allocators hand out aligned, disjoint, usable blocks for any request history (DESIGN.md section 4, C15)."""
import os, sys, re, json, itertools
import vcheck as V

META = {
    "level": "proof",
    "technique": "Coq proof (pool geometry for all (sizeof T, alignof T, s); free-list/live partition invariant and block predicate for all "
                 "allocate/free histories; malloc/aligned guards; debug-allocator page layout and deallocate lookup) + extracted model and "
                 "extracted spec oracle vs the C++ allocators on identical scripts (operator-new recorder maps pointers to chunk#+offset)",
    "text": "Theorems in coq/Properties_C15.v: the static_asserts of Pool hold for every parameter choice; for every history of allocate/free "
            "the model's free list and the live blocks partition the slots of all chunks, every block handed out is inside its chunk, aligned, "
            "large enough and disjoint from every live block, n != 1 is refused, destroy releases every chunk once; MallocAllocator/AlignedAllocator "
            "never pass a wrapped size to the system; the DebugAllocator block ends exactly at the guard page and deallocate finds it (refuted for the "
            "tree as found when the byte size is a multiple of the page size).  The model is tied to dune/common/{pool,malloc,aligned,debug}allocator.hh "
            "on every run by replaying exhaustive short scripts and seeded random walks on ~500 template instantiations; Dune::isAligned "
            "(std::align bit trick) decides p mod 2^k = 0; AlignedBase placement new reports exactly the misaligned addresses.",
    "note": "Trusted: Coq kernel, extraction, OCaml driver, C++ harness (operator new recorder, tag writing, EFAULT probes), g++, glibc "
            "malloc/aligned_alloc/mmap return fresh (aligned) memory; sizeof(void*)=alignof(void*)=8.",
    "design_ref": "DESIGN.md section 4 C15",
}

H = os.path.join(V.VERIF, "harness", "C15", "impl.cc")
PAGE = os.sysconf("SC_PAGESIZE")
SIZE_MAX = 2 ** 64 - 1
WRITE_LIMIT = 1 << 22

# ----------------------------------------------------------------------------- configurations (instantiated templates)
TYPES = ([(s, 1) for s in (1, 2, 3, 4, 7, 8, 9, 12, 16, 24, 40, 64, 100)] + [(s, 2) for s in (2, 6, 10)] +
         [(s, 4) for s in (4, 12, 20, 100)] + [(s, 8) for s in (8, 16, 24, 40, 104)] + [(s, 16) for s in (16, 48)] +
         [(s, 32) for s in (32, 96)] + [(s, 64) for s in (64, 192)])
SYS_TYPES = [(1, 1), (3, 1), (4, 4), (8, 8), (12, 4), (24, 8), (16, 16), (100, 4), (32, 32), (64, 64), (192, 64)]
ALIGNED = [(1, 1, -1), (2, 2, -1), (8, 8, -1), (8, 8, 8), (8, 8, 16), (8, 8, 64), (8, 8, 4096), (4, 4, 16), (12, 4, 32), (24, 8, 64),
           (16, 16, -1), (64, 64, -1), (192, 64, -1), (100, 4, 128), (3, 1, 2)]


def pool_S(sT):
    u = max(sT, 8)
    return sorted(set([0, 7, 8, sT, u + 1, 2 * u, 2 * u + 1, 3 * u + 5, 8 * u + 3, 1024]))


def pa_s(sT):
    return sorted(set([0, 1, 2, 3, 7, max(1, 8192 // sT)]))


EXH_CFG = [("pool", 4, 4, 0), ("pool", 4, 4, 16), ("pool", 12, 4, 41), ("pa", 1, 1, 7), ("pool", 100, 4, 7), ("pa", 64, 64, 2),
           ("pool", 8, 8, 1024)]


def config_lines():
    lines = []
    for sT, aT in TYPES:
        for S in pool_S(sT):
            lines.append("POOL(%d,%d,%d)" % (sT, aT, S))
        for s in pa_s(sT):
            lines.append("PA(%d,%d,%d)" % (sT, aT, s))
    for sT, aT in SYS_TYPES:
        lines.append("SYS(%d,%d)" % (sT, aT))
    for sT, aT, al in ALIGNED:
        lines.append("ALIGNED(%d,%d,%d)" % (sT, aT, al))
    return lines


def config_of(case):
    t = case.split()
    if t[0] in ("pool", "pa"):
        return "%s(%s,%s,%s)" % (t[0].upper(), t[1], t[2], t[3])
    if t[0] == "malloc":
        return "SYS(%s,%s)" % (t[1], t[2])
    if t[0] == "debug":
        return "SYS(%s,%s)" % (t[2], t[3])
    if t[0] == "aligned":
        return "ALIGNED(%s,%s,%s)" % (t[1], t[2], t[3])
    return None


def write_configs(ctx):
    """configs.inc: every instantiation; configs_san.inc: the subset compiled into the sanitizer build (quick tier: a quarter of the
    pool instantiations + the exhaustive-script configurations, to keep the compile time down; thorough tier: all)."""
    lines = config_lines()
    for kind, sT, aT, s in EXH_CFG:
        assert "%s(%d,%d,%d)" % (kind.upper(), sT, aT, s) in lines, (kind, sT, aT, s)
    exh = set("%s(%d,%d,%d)" % (k.upper(), a, b, c) for k, a, b, c in EXH_CFG)
    san = [l for i, l in enumerate(lines) if not ctx.quick or i % 4 == 0 or l in exh or l.startswith("SYS") or l.startswith("ALIGNED")]
    for name, ls in (("configs.inc", lines), ("configs_san.inc", san)):
        txt = "\n".join(ls) + "\n"
        p = ctx.path(name)
        if not os.path.exists(p) or open(p).read() != txt:
            open(p, "w").write(txt)
    return len(lines), set(san)


# ----------------------------------------------------------------------------- geometry (python copy only to steer the generator)
def lcm(a, b):
    from math import gcd
    return a * b // gcd(a, b)


def geom(sT, aT, S):
    u = max(sT, 8); size = S if (sT <= S and 8 <= S) else u; al = lcm(aT, 8)
    ru = lambda x: x if x % al == 0 else (x // al + 1) * al
    return dict(u=u, size=size, al=al, asz=ru(u), cs=ru(size), el=ru(size) // ru(u))


# ----------------------------------------------------------------------------- scripts: abstract events -> indexed ops
def render(events, succeeds):
    """events: ('a', n, id) | ('f', id).  succeeds(n) -> bool predicted success (block becomes live).  Returns op tokens or None."""
    live, out = [], []
    for e in events:
        if e[0] == 'a':
            out.append("a%d" % e[1])
            if succeeds(e[1]):
                live.append(e[2])
        else:
            if e[1] not in live:
                return None
            out.append("f%d" % live.index(e[1])); live.remove(e[1])
    return out


def parse_events(ops, succeeds):
    live, ev, nid = [], [], 0
    for t in ops:
        if t[0] == 'a':
            n = int(t[1:]); ev.append(('a', n, nid))
            if succeeds(n):
                live.append(nid)
            nid += 1
        else:
            i = int(t[1:]); ev.append(('f', live[i])); live.pop(i)
    return ev


def exhaustive_scripts(maxlen, maxlive):
    res = []
    def go(prefix, nlive):
        if prefix:
            res.append(list(prefix))
        if len(prefix) == maxlen:
            return
        if nlive < maxlive:
            prefix.append("a1"); go(prefix, nlive + 1); prefix.pop()
        for i in range(nlive):
            prefix.append("f%d" % i); go(prefix, nlive - 1); prefix.pop()
    go([], 0)
    return res


def random_walk(rng, length, elements, bad_ns=(0, 2, 3, 1000), okn=1):
    """Phased walk: fill past chunk boundaries, drain in LIFO/FIFO/random order, refill (forces reuse across chunks)."""
    ops, nlive = [], 0
    target = rng.choice([1, 2, elements, elements + 1, 2 * elements + 1, 3 * elements]) if elements < 200 else rng.choice([3, 40, elements + 1])
    mode = "fill"
    order = rng.choice(["lifo", "fifo", "rand"])
    while len(ops) < length:
        z = rng.random()
        if z < 0.04 and bad_ns:
            ops.append("a%d" % rng.choice(bad_ns)); continue
        if mode == "fill":
            ops.append("a%d" % okn); nlive += 1
            if nlive >= target:
                mode = "drain"; order = rng.choice(["lifo", "fifo", "rand"]); low = rng.choice([0, 0, 1, max(0, target // 2)])
        else:
            if nlive <= low or nlive == 0:
                mode = "fill"; target = max(1, nlive + rng.choice([1, 2, elements, elements + 1, 2 * elements + 1])) if elements < 200 else nlive + rng.choice([1, 5, 50])
                continue
            i = nlive - 1 if order == "lifo" else 0 if order == "fifo" else rng.randrange(nlive)
            ops.append("f%d" % i); nlive -= 1
            if rng.random() < 0.1:
                mode = "fill"
    return ops


def gen(ctx):
    quick = ctx.quick
    cases = []
    cp = os.path.join(V.VERIF, "corpus", "C15", "cases.txt")
    if os.path.exists(cp):
        cases += [l.strip().replace("PAGE", str(PAGE)) for l in open(cp) if l.strip() and not l.startswith("#")]
    rng = ctx.rng("gen")
    # --- pool: exhaustive short scripts over <= 3 live handles on configurations with 1, 2, 3, many slots per chunk
    ex = exhaustive_scripts(7 if quick else 9, 3)
    exh_cfg = EXH_CFG
    _unused = [("pool", 4, 4, 0), ("pool", 4, 4, 2 * 8), ("pool", 12, 4, 41), ("pa", 1, 1, 7), ("pool", 100, 4, 7), ("pa", 64, 64, 2),
               ("pool", 8, 8, 1024)]
    for kind, sT, aT, s in (exh_cfg[:5] if quick else exh_cfg):
        for sc in ex:
            cases.append("%s %d %d %d %s" % (kind, sT, aT, s, " ".join(sc)))
    # --- pool: every configuration: a boundary script + seeded walks
    nwalk = 2 if quick else 12
    for sT, aT in TYPES:
        for kind, params in (("pool", pool_S(sT)), ("pa", pa_s(sT))):
            for s in params:
                g = geom(sT, aT, s if kind == "pool" else s * sT)
                el = g["el"]
                k = min(el, 40)
                # fill two chunks (+1), free everything FIFO, refill: reuse order, chunk crossing
                fill = ["a1"] * (2 * k + 1)
                sc = fill + ["f0"] * (2 * k + 1) + ["a1"] * (k + 1) + ["a0", "a2"]
                cases.append("%s %d %d %d %s" % (kind, sT, aT, s, " ".join(sc)))
                for w in range(nwalk):
                    L = rng.choice([20, 60, 150] if quick else [30, 100, 250, 500])
                    cases.append("%s %d %d %d %s" % (kind, sT, aT, s, " ".join(random_walk(rng, L, el))))
    # --- malloc / aligned: sizes around 0, small, max_size
    for kind, cfgs in (("malloc", [(a, b, None) for a, b in SYS_TYPES]), ("aligned", ALIGNED)):
        for sT, aT, al in cfgs:
            ms = SIZE_MAX // sT
            big = [ms, ms + 1, ms - 1, 2 ** 63, SIZE_MAX, 2 ** 64 // sT + 1, (2 ** 64 + 8 * sT - 1) // sT]
            big = [b for b in big if 0 <= b <= SIZE_MAX and b * sT >= 2 ** 47]
            small = [0, 1, 2, 3, 7, 16, 100, 1000]
            pre = "%s %d %d %s" % (kind, sT, aT, "" if al is None else "%d " % al)
            cases.append(pre + " ".join(["a%d" % n for n in small + big] + ["f0"] * len(small)))
            for w in range(2 if quick else 10):
                ops, nlive = [], 0
                for _ in range(rng.choice([10, 40] if quick else [20, 80, 200])):
                    z = rng.random()
                    if z < 0.12:
                        ops.append("a%d" % rng.choice(big))
                    elif z < 0.6 or nlive == 0:
                        ops.append("a%d" % rng.choice(small + [rng.randrange(1, 3000)])); nlive += 1
                    else:
                        ops.append("f%d" % rng.randrange(nlive)); nlive -= 1
                cases.append(pre + " ".join(ops))
    # --- debug allocator: sizes around page multiples; overflowing requests only at the end of a script
    for sT, aT in SYS_TYPES:
        per = PAGE // sT
        pm = [0] + [k * PAGE // sT for k in (1, 2, 3) if (k * PAGE) % sT == 0]        # byte size multiple of the page size (or 0)
        npm = sorted(set(n for n in [1, 2, 3, per - 1, per + 1, 2 * per + 1, 100, 3 * per - 1, 5] if n > 0 and (n * sT) % PAGE != 0))
        lim = (SIZE_MAX - 2 * PAGE) // sT
        over = [b for b in [lim + 1, SIZE_MAX // sT, SIZE_MAX // sT + 1, 2 ** 64 // sT + 1, SIZE_MAX, 2 ** 63 + 1, (2 ** 64 + 8 * sT - 1) // sT] if lim < b <= SIZE_MAX]
        huge_ok = [lim, lim - 1, 2 ** 50 // sT + 1]
        pre = "debug %d %d %d " % (PAGE, sT, aT)
        # (a) single alloc/free per size class
        for n in pm + npm:
            cases.append(pre + "a%d f0" % n)
        for n in over + huge_ok:
            cases.append(pre + "a1 a%d" % n)
        # (b) walks over non-page-multiple sizes only (full coverage also on a tree without fixes/C15-1)
        # (c) walks over all sizes
        for sizes, cnt in ((npm, 3 if quick else 12), (npm + pm, 3 if quick else 12)):
            for w in range(cnt):
                ops, nlive = [], 0
                for _ in range(rng.choice([8, 25] if quick else [10, 40, 120])):
                    if rng.random() < 0.55 or nlive == 0:
                        ops.append("a%d" % rng.choice(sizes)); nlive += 1
                    else:
                        i = rng.choice([0, nlive - 1, rng.randrange(nlive)])
                        ops.append("f%d" % i); nlive -= 1
                if rng.random() < 0.5:
                    ops.append("a%d" % rng.choice(over + huge_ok))
                cases.append(pre + " ".join(ops))
    # --- isAligned
    for k in range(0, 13):
        a = 1 << k
        for p in sorted(set([0, 1, a - 1, a, a + 1, 2 * a, 3 * a, 3 * a + a // 2, 4096, 4096 + a, 2 ** 47 - a, 2 ** 47 - a + 1, 2 ** 63, 2 ** 63 + a // 2 + 0,
                             2 ** 64 - a, 2 ** 64 - 1] + [rng.randrange(2 ** 48) for _ in range(4)] + [rng.randrange(2 ** 36) * a for _ in range(3)])):
            if 0 <= p < 2 ** 64:
                cases.append("isaligned %d %d" % (p, a))
    # --- AlignedBase<align,.>::operator new(count, ptr) (AlignedNumber<double,align> placed at a 4096-aligned buffer + off)
    for a in (16, 32, 64, 128):
        for off in sorted(set([0, 1, 8, a // 2, a - 1, a, a + 1, a + 8, 2 * a, 3 * a + a // 2, 4096, 4096 + a // 2, 8192 - a] + [rng.randrange(8192) for _ in range(6)])):
            cases.append("alignedbase %d %d" % (a, off))
    return cases


# ----------------------------------------------------------------------------- classification
def case_parts(case):
    t = case.split()
    kind = t[0]
    npar = {"pool": 3, "pa": 3, "malloc": 2, "aligned": 3, "debug": 3, "isaligned": 2, "alignedbase": 2}[kind]
    return kind, [int(x) for x in t[1:1 + npar]], t[1 + npar:]


def succeeds_fn(kind, par):
    if kind in ("pool", "pa"):
        return lambda n: n == 1
    sT = par[1] if kind == "debug" else par[0]
    return lambda n: n * sT < 2 ** 46


def sig_of(case, impl_line, verdict):
    kind, par, ops = case_parts(case)
    m = re.search(r"at op (\d+): (\S+)", verdict)
    if kind == "debug" and m:
        k, tok = int(m.group(1)), m.group(2)
        sT = par[1]
        if k < len(ops):
            op = ops[k]
            if op[0] == 'a' and tok.startswith("ok") and int(op[1:]) * sT + 2 * PAGE > SIZE_MAX:
                return "C15:debug:alloc:size-overflow"
            if op[0] == 'f' and tok.startswith("ABORT(memory_block_not_found"):
                # which block was freed?
                live = []
                for o in ops[:k]:
                    if o[0] == 'a':
                        live.append(int(o[1:]))
                    else:
                        live.pop(int(o[1:]))
                n = live[int(op[1:])] if int(op[1:]) < len(live) else -1
                if n >= 0 and (n * sT) % PAGE == 0:
                    return "C15:debug:dealloc:page-multiple"
        return "C15:debug:" + re.sub(r"[^A-Za-z!(_)-]", "", tok)[:40]
    fl = re.search(r"!([a-z-]+)", verdict)
    if kind == "malloc" and fl and fl.group(1) == "misaligned" and par[1] > 16:
        return "C15:malloc:misaligned:overaligned-type"
    if fl:
        return "C15:%s:%s" % (kind, fl.group(1))
    if "max_size" in verdict:
        return "C15:%s:served-beyond-max_size" % kind
    if "destroy" in verdict:
        return "C15:%s:destroy" % kind
    if "not refused" in verdict:
        return "C15:%s:n-not-1-served" % kind
    if "block predicate" in verdict:
        return "C15:%s:block-predicate" % kind
    if "incomplete" in verdict:
        return "C15:%s:crash" % kind
    return "C15:%s:other" % kind


# ----------------------------------------------------------------------------- build / run
REPO_SRCS = V.REPO_CC_DEFAULT + ["dune/common/debugallocator.cc", "dune/common/debugalign.cc"]
SAN_ENV = {"ASAN_OPTIONS": "allocator_may_return_null=1:detect_leaks=0:abort_on_error=1", "UBSAN_OPTIONS": "halt_on_error=1:abort_on_error=1"}


def build(ctx, san=True):
    ncfg, sancfg = write_configs(ctx)
    jobs = [dict(srcs=[H], out=ctx.path("impl"), opt="-O1", flags=["-I" + ctx.build], repo_srcs=REPO_SRCS)]
    if san:
        jobs.append(dict(srcs=[H], out=ctx.path("impl_san"), san=True, flags=["-I" + ctx.build, '-DCONFIGS_INC="configs_san.inc"'], repo_srcs=REPO_SRCS))
    outs = V.cxx_many(ctx, jobs)
    return outs, (ncfg, sancfg)


def run_all(ctx, model, impl, cases, tag):
    mo = V.run_cases(ctx, [model], cases, tag=tag + "model", timeout=600)
    io = V.run_cases(ctx, [impl], cases, tag=tag + "impl", timeout=300 if ctx.quick else 1200)
    cf = ctx.path(tag + "oracle.cases"); of = ctx.path(tag + "oracle.impl")
    open(cf, "w").write("\n".join(cases) + "\n"); open(of, "w").write("\n".join(io) + "\n")
    rc, out = V.sh([model, cf, of], timeout=600)
    vo = out.split("\n")
    if vo and vo[-1] == "":
        vo.pop()
    if len(vo) != len(cases):
        raise V.BuildError("oracle pass produced %d lines for %d cases: %s" % (len(vo), len(cases), out[-500:]))
    return mo, io, vo


def shrink(ctx, model, impl, case, sig, impl_line, verdict):
    """Delta debugging on the op sequence (abstract events, frees follow their allocation), impl + oracle in the loop."""
    kind, par, ops = case_parts(case)
    if kind in ("isaligned", "alignedbase"):
        return (case, impl_line, verdict)
    suc = succeeds_fn(kind, par)
    try:
        ev = parse_events(ops, suc)
    except Exception:
        return (case, impl_line, verdict)
    pre = " ".join([kind] + [str(x) for x in par]) + " "
    best = (case, impl_line, verdict)
    for rnd in range(12):
        cands = []
        for i in range(len(ev)):
            e = ev[i]
            cand = [x for j, x in enumerate(ev) if j != i and not (e[0] == 'a' and x[0] == 'f' and x[1] == e[2])]
            r = render(cand, suc)
            if r is not None and r:
                cands.append((cand, pre + " ".join(r)))
        # also: drop the tail after each position (big steps first)
        for cut in (len(ev) // 2, len(ev) * 3 // 4):
            r = render(ev[:cut], suc)
            if r:
                cands.insert(0, (ev[:cut], pre + " ".join(r)))
        if not cands:
            break
        cs = [c for _, c in cands]
        _, io, vo = run_all(ctx, model, impl, cs, "shrink")
        hit = None
        for (cev, c), a, v in zip(cands, io, vo):
            if v != "ok" and sig_of(c, a, v) == sig:
                hit = cev; best = (c, a, v); break
        if hit is None:
            break
        ev = hit
    return best


def coqchk(ctx):
    """thorough tier: independent re-check of the compiled property file (and everything it depends on) by coqchk"""
    with V.locked("coq"):
        rc, out = V.sh(["coqchk", "-silent", "-o", "-Q", ".", "DuneV", "DuneV.Properties_C15"], cwd=V.COQ, timeout=1800)
    m = re.search(r"\* Axioms:\s*(.*?)\n\s*\n", out, re.S)
    ctx.coverage["coqchk"] = {"rc": rc, "axioms": (m.group(1).strip() if m else "?"), "tail": out[-300:] if rc else ""}
    if rc != 0:
        ctx.violation("coq:coqchk", {"broken": "coqchk rejects the compiled development", "log": out[-3000:]}, found_input=False)


def run(ctx):
    ok = V.coq_stage(ctx)
    if ok and not ctx.quick:
        coqchk(ctx)
    model = V.build_model(ctx)
    (outs, (ncfg, sancfg)) = build(ctx, san=True)
    impl, impl_san = outs
    cases = gen(ctx)
    ctx.log("generated %d cases on %d instantiations" % (len(cases), ncfg))
    mo, io, vo = run_all(ctx, model, impl, cases, "")
    kinds, nops, nviol, ndis = {}, 0, 0, 0
    stats = {"blocks": 0, "grows": 0, "reused_slots": 0, "refusals": 0, "frees": 0, "max_chunks": 0, "scripts_ge_100_ops": 0}
    shrunk = set()
    for c, m, a, v in zip(cases, mo, io, vo):
        kind = c.split(" ", 1)[0]; kinds[kind] = kinds.get(kind, 0) + 1
        mm, _, mv = m.partition(" | ")
        toks = mm.split()
        nops += len(toks)
        if kind in ("pool", "pa"):
            seen = set()
            for t in toks[1:]:
                if t[0] == 'c':
                    stats["blocks"] += 1
                    if t in seen: stats["reused_slots"] += 1
                    seen.add(t)
                    if t.endswith("+0"): stats["grows"] += 0
                elif t == "bad_alloc": stats["refusals"] += 1
                elif t == "F": stats["frees"] += 1
            ch = set(t.split("+")[0] for t in toks[1:] if t[0] == 'c')
            stats["grows"] += len(ch); stats["max_chunks"] = max(stats["max_chunks"], len(ch))
            if len(toks) >= 100: stats["scripts_ge_100_ops"] += 1
        if mv != "ok":
            ctx.notes.append("model's own trace rejected by the spec oracle on %s: %s" % (c[:80], mv))
            ctx.violation("C15:model-vs-spec", {"broken": "theorem reading: model output rejected by spec oracle", "case": c, "model": mm, "oracle": mv}, found_input=False)
        if v != "ok":
            nviol += 1
            sig = sig_of(c, a, v)
            if sig not in shrunk and len(shrunk) < 6:
                shrunk.add(sig)
                small, simpl, sverdict = shrink(ctx, model, impl, c, sig, a, v)
                smo = V.run_cases(ctx, [model], [small], tag="minmodel")[0].partition(" | ")[0]
                ctx.violation(sig, {"case": small, "impl": simpl, "model": smo, "oracle": sverdict, "unshrunk_case": c if len(c) < 4000 else c[:4000] + " ...",
                                    "replay_cmd": "bin/check C15 --replay <this file>"})
            elif nviol <= 300:
                ctx.violation(sig, {"case": c if len(c) < 4000 else c[:4000] + " ...", "impl": a[:4000], "model": mm[:4000], "oracle": v})
        elif a != mm:
            ndis += 1
            if ndis <= 20:
                ctx.violation("corr:C15/%s" % kind, {"broken": "corr:C15/%s (impl differs from model, spec oracle accepts the impl's trace)" % kind,
                                                     "case": c[:4000], "impl": a[:4000], "model": mm[:4000], "oracle": "accepts impl output"}, found_input=False)
    # sanitizer build: pool / malloc / debug / isaligned cases (aligned_alloc with size not a multiple of the alignment is rejected by ASan itself)
    sub = [i for i, c in enumerate(cases) if not c.startswith("aligned") and (c.startswith("isaligned") or config_of(c) in sancfg)][::(2 if ctx.quick else 1)]
    so = V.run_cases(ctx, [impl_san], [cases[i] for i in sub], tag="san", timeout=300 if ctx.quick else 1500, env=SAN_ENV)
    nsan = 0
    dif = [(i, so[j]) for j, i in enumerate(sub) if j < len(so) and so[j] != io[i]]
    if dif:
        cf = ctx.path("san.oracle.cases"); of = ctx.path("san.oracle.impl")
        open(cf, "w").write("\n".join(cases[i] for i, _ in dif) + "\n"); open(of, "w").write("\n".join(o for _, o in dif) + "\n")
        rc, out = V.sh([model, cf, of], timeout=600)
        sv = out.split("\n")
        for (i, o), v2 in zip(dif, sv):
            nsan += 1
            if nsan > 40:
                break
            if v2 != "ok":
                ctx.violation(sig_of(cases[i], o, v2), {"case": cases[i][:4000], "impl": io[i][:2000], "impl_sanitized_build": o[:2000], "oracle": v2,
                                                        "build": "-fsanitize=address,undefined"})
            elif vo[i] == "ok":
                ctx.violation("corr:C15/%s:sanitizer" % cases[i].split()[0],
                              {"broken": "sanitizer build and plain build give different traces, the spec oracle accepts both", "case": cases[i][:4000],
                               "impl": io[i][:2000], "impl_sanitized_build": o[:2000]}, found_input=False)
    nontrivial = len(set(c for c in cases if re.search(r"\ba\d+\b.*\bf\d+\b", c)))
    ctx.coverage.update({
        "evaluations": len(cases), "operations_replayed": nops, "distinct_nontrivial": nontrivial,
        "rule": "cases = corpus + exhaustive scripts (len<=%d, <=3 live) on 5-7 pool configurations + boundary script and seeded phased walks on every one of %d "
                "instantiations (Pool<T,S>, PoolAllocator<T,s>, Malloc/Aligned/DebugAllocator<T>) + size-boundary scripts; non-trivial = script contains an "
                "allocation followed by a release; distinct = distinct case lines" % (7 if ctx.quick else 9, ncfg),
        "samples": [c[:200] for c in (cases[:1] + cases[len(cases) // 3: len(cases) // 3 + 2] + cases[-600:-599] + cases[-1:])],
        "kind_distribution": kinds, "pool_stats": stats, "instantiations": ncfg, "element_types": len(TYPES),
        "impl_model_disagreements": ndis, "oracle_rejections": nviol, "sanitizer_cases": len(sub), "sanitizer_differences": nsan,
        "exhaustive": False, "traces_validated_against_impl": len(cases), "page_size": PAGE,
    })
    ctx.assumptions += ["operator new / malloc / aligned_alloc / mmap return fresh storage disjoint from live storage, aligned as requested (platform contract)",
                        "sizeof(void*) = alignof(void*) = 8 (LP64); page size read from sysconf at run time",
                        "chunk identification relies on Pool obtaining storage only through the replaceable global operator new",
                        "intrusive free list modelled as the sequence of its nodes (C15_Model.v header)"]


def replay(ctx, path):
    rep = json.load(open(path))
    case = rep["case"]
    model = V.build_model(ctx)
    (outs, _) = build(ctx, san=False)
    mo, io, vo = run_all(ctx, model, outs[0], [case], "replay")
    mm, _, mv = mo[0].partition(" | ")
    print("case  :", case); print("impl  :", io[0]); print("model :", mm); print("oracle:", vo[0], "(on impl output);", mv, "(on model output)")
    return 1 if vo[0] != "ok" else 0
