"""C16 — iterators, ranges and hybrid loops visit exactly the intended elements, lawfully (DESIGN.md section 4, C16)."""
import os, sys, re, json, time
import vcheck as V

META = {
    "level": "proof",
    "technique": "Coq proof (operators derived by the facade templates from the primitives of a derived class obey the iterator laws on "
                 "positions; instances; ranges = lists; hybrid static = dynamic = fold) + extracted-model vs C++ exhaustive all-pairs-of-positions "
                 "correspondence with spec oracle, sanitizer build, compile probe for const/mutable interoperability",
    "text": "Theorems in coq/Properties_C16.v: the legacy Forward/Bidirectional/RandomAccessIteratorFacade and the new IteratorFacade derive "
            "==,!=,<,<=,>,>=,-,++,--,+,+=,-,-=,[] from the primitives such that every operator equals integer arithmetic on positions, for any "
            "derived class whose primitives satisfy the primitive laws and for both argument orders of the interoperable comparisons; the "
            "DenseIterator (size_t position incl. wrapped one-before-begin), GenericIterator, ArrayList iterators and IntegralRangeIterator "
            "(all integral widths) discharge the primitive laws; integral / transformed / sparse ranges enumerate the specified lists; "
            "Hybrid forEach/accumulate/switchCases/ifElse agree between compile-time and run-time containers.  The model is tied to the "
            "headers on every run by executing the extracted model and the real templates on identical cases: all pairs of positions x all "
            "in-range steps x all constness combinations on containers of size 0..6.",
    "note": "Trusted: Coq kernel, extraction, OCaml driver, C++ harness, g++.  Iterator categories/concepts are compile-time facts "
            "(static_asserts in the harness).  Model of IntegralRangeIterator is the code after fixes/C16-1.patch.",
    "design_ref": "DESIGN.md section 4 C16",
}

H = os.path.join(V.VERIF, "harness", "C16")
TYPES = {"i8": (8, True), "u8": (8, False), "i16": (16, True), "u16": (16, False),
         "i32": (32, True), "u32": (32, False), "i64": (64, True), "u64": (64, False)}
XTYPES = {"ill": (64, True), "ull": (64, False), "ch": (8, True)}     # long long, unsigned long long, char (iterator streams only)
SIRANGE = {0: ("i32", 0, 0), 1: ("i32", 0, 5), 2: ("i32", -4, 3), 3: ("i32", -6, -2), 4: ("u64", 2, 7), 5: ("i16", 32760, 32767),
           6: ("u8", 250, 255), 7: ("i64", 4, 4), 8: ("u32", 0, 1), 9: ("i8", -128, -120),
           10: ("u8", 126, 131), 11: ("u32", 2147483646, 2147483650)}      # audit 2: unsigned ranges straddling 2^(w-1)
SWITCHR = {0: (0, 0), 1: (0, 4), 2: (2, 7), 3: (-3, 2), 4: (2, 5)}
BITN = ["eq", "ne", "lt", "le", "gt", "ge"]


def tmin(t):
    w, s = (TYPES.get(t) or XTYPES[t]); return -(1 << (w - 1)) if s else 0


def tmax(t):
    w, s = (TYPES.get(t) or XTYPES[t]); return (1 << (w - 1)) - 1 if s else (1 << w) - 1


def sext(w, z):
    m = z % (1 << w); return m if m < (1 << (w - 1)) else m - (1 << w)


def ir_diff_overflows(t, a, b):
    """mirror of c16_ir_diff_overflows (coq/C16_Model.v): operator- as written overflows its signed arithmetic type"""
    w, _ = (TYPES.get(t) or XTYPES[t])
    d = sext(w, a) - sext(w, b)
    return w >= 32 and (d < -(1 << (w - 1)) or d >= (1 << (w - 1)))


def ir_froms(t, n, quick):
    lo, hi = tmin(t), tmax(t)
    w, s = (TYPES.get(t) or XTYPES[t])
    c = {lo, lo + 1, hi - n, 5}
    if hi - n - 1 > lo: c.add(hi - n - 1)
    if s: c |= {-3, -n, -1}
    else: c |= {(1 << (w - 1)) - 2, (1 << (w - 1)) - n}      # straddling the sign bit of the difference type
    return sorted(x for x in c if lo <= x and x + n <= hi)


def gen(ctx):
    quick = ctx.quick
    cases = []
    cp = os.path.join(V.VERIF, "corpus", "C16", "cases.txt")
    if os.path.exists(cp):
        cases += [l.strip() for l in open(cp) if l.strip() and not l.startswith("#")]
    rng = ctx.rng("gen")
    NMAX = 6 if quick else 8

    def ra(kind, ns, lo, two=True):
        for n in ns:
            for i in range(lo, n + 1):
                for j in range(lo, n + 1):
                    cases.append("cmp %s %d %d %d" % (kind, n, i, j))
                for k in range(lo - i, n - i + 1):
                    for var in (("m", "c") if two else ("m",)):
                        cases.append("step %s %d %s %d %d" % (kind, n, var, i, k))
    ra("dyn", range(0, NMAX + 1), -1)
    ra("fv", range(1, 7), -1)
    ra("fmrow", range(1, 5 if quick else 7), -1)
    ra("gen", range(0, NMAX + 1), -1)
    for s in ([0, 2, 3, 7] if quick else [0, 1, 2, 3, 4, 6, 7, 12]):
        ra("al:%d" % s, range(0, NMAX + 1), 0)
    ra("tr", range(0, NMAX + 1), 0)
    for t in TYPES:
        for n in ([0, 2, 4] if quick else [0, 1, 2, 3, 5, 7]):
            for f in ir_froms(t, n, quick):
                ra("ir:%s:%d" % (t, f), [n], -1 if f > tmin(t) else 0, two=False)
    for n in range(0, 6 if quick else 8):
        for i in range(0, n + 1):
            for j in range(0, n + 1):
                cases.append("cmp sl %d %d %d" % (n, i, j))
                cases.append("cmp trl %d %d %d" % (n, i, j))
            for k in range(0, n - i + 1):
                for var in "icm":
                    cases.append("step sl %d %s %d %d" % (n, var, i, k))
            for k in range(-i, n - i + 1):
                for var in "mc":
                    cases.append("step trl %d %s %d %d" % (n, var, i, k))
    for kind in ("dyn", "gen"):
        for n in range(0, 4):
            for i in range(-1, n + 1):
                for j in range(-1, n + 1):
                    cases.append("cmpx %s %d %d %d" % (kind, n, i, j))
    # IndexedIterator: random operation sequences that stay inside [0,n]
    for _ in range(300 if quick else 3000):
        base = rng.choice(["vec", "dyn"]); n = rng.randrange(0, 8); pos = 0; ops = []
        for _ in range(rng.randrange(0, 9)):
            o = rng.choice("+-abpm")
            if o in "+a" and pos + 1 <= n: ops.append(o); pos += 1
            elif o in "-b" and pos - 1 >= 0: ops.append(o); pos -= 1
            elif o == "p":
                k = rng.randrange(-pos, n - pos + 1); ops.append("p%d" % k); pos += k
            elif o == "m":
                k = rng.randrange(pos - n, pos + 1); ops.append("m%d" % k); pos -= k
        i0 = rng.choice([0, 0, 1, 7, -5, 1000000])
        cases.append("idxrun %s %d %d %s" % (base, n, i0, ",".join(ops) or "-"))
    # integral ranges: boundary-directed bounds for every integral type
    for t in TYPES:
        lo, hi = tmin(t), tmax(t)
        for n in ([0, 1, 3, 6] if quick else [0, 1, 2, 3, 6, 11, 30]):
            for f in ir_froms(t, n, quick):
                to = f + n
                xs = sorted({x for x in (f - 1, f, f + 1, to - 1, to, to + 1, lo, hi, 0) if lo <= x <= hi})
                cases.append("irange %s %d %d %s" % (t, f, to, ",".join(map(str, xs))))
        for _ in range(20 if quick else 300):
            n = rng.randrange(0, 12); f = rng.randrange(lo, hi - n + 1); to = f + n
            xs = [rng.randrange(max(lo, f - 3), min(hi, to + 3) + 1) for _ in range(4)]
            cases.append("irange %s %d %d %s" % (t, f, to, ",".join(map(str, xs))))
    for i, (t, f, to) in SIRANGE.items():
        xs = sorted({x for x in (f - 1, f, to - 1, to) if tmin(t) <= x <= tmax(t)})
        cases.append("sirange %d %s %d %d %s" % (i, t, f, to, ",".join(map(str, xs))))
    # transformed and sparse ranges
    def rxs(maxlen=6):
        return [rng.choice([0, 1, -1, 7, -1000, 999, rng.randrange(-50, 50)]) for _ in range(rng.randrange(0, maxlen + 1))]
    for base in ["vec", "cvec", "rvec", "dyn", "list", "al"]:
        for _ in range(25 if quick else 400):
            a, b = rng.choice([(1, 0), (2, 5), (-1, 0), (0, 3), (3, -7), (rng.randrange(-9, 9), rng.randrange(-9, 9))])
            cases.append("tr %s %d %d %s" % (base, a, b, ",".join(map(str, rxs())) or "-"))
    for _ in range(25 if quick else 400):
        f = rng.randrange(-20, 20); to = f + rng.randrange(0, 8)
        cases.append("tr ir %d %d %d,%d" % (rng.randrange(-5, 5), rng.randrange(-5, 5), f, to))
    for base in ["dyn", "cdyn", "idxvec"]:
        for _ in range(15 if quick else 200):
            cases.append("sparse %s %s" % (base, ",".join(map(str, rxs())) or "-"))
    for _ in range(10):
        cases.append("sparse fv3 %s" % ",".join(str(rng.randrange(-9, 9)) for _ in range(3)))
    # hybrid helpers
    for n in range(0, 6):
        cases.append("hy size %d" % n); cases.append("hy idx %d" % n)
    for _ in range(60 if quick else 1000):
        xs = ",".join(map(str, rxs(5))) or "-"
        cases.append("hy foreach %s" % xs); cases.append("hy at %s" % xs)
        cases.append("hy acc %d %s" % (rng.randrange(-3, 4), xs))
    cases += ["hy ifelse 0", "hy ifelse 1"]
    for tid in range(0, 6):
        for v in range(0, 10):
            cases.append("hy switch %d %d" % (tid, v))
    for sid, (f, to) in SWITCHR.items():
        for v in range(f - 2, to + 2):
            cases.append("hy switchr %d %d %d %d" % (sid, f, to, v))
    # ---- entry points added by the API-coverage audit (mutants/C16/API_COVERAGE.md)
    for n in range(0, 7):
        for arg in range(0, n + 3):
            cases.append("cont dyn %d %d" % (n, arg))
    for n in range(1, 5):
        for arg in range(0, n + 2):
            cases.append("cont fv %d %d" % (n, arg))
        cases.append("cont fmrow %d 0" % n)
    for n in range(0, 5):
        for sft in (0, 2, 4):
            cases.append("cont al:%d %d 0" % (sft, n))
        cases.append("cont tr %d 0" % n)
        for arg in range(0, n + 1):
            cases.append("cont sl %d %d" % (n, arg))
    BK = [("genbi", -1, True, "mc", 0), ("genfw", 0, False, "mc", 0), ("bsv", 0, False, "mc", 0), ("diag", -1, True, "mc", 2),
          ("cbi", -1, True, "mc", 0), ("nffw", 0, False, "m", 0), ("nfbi", -1, True, "m", 0)]
    for kind, lo, bidir, variants, nmin in BK:
        for n in range(nmin, 6):
            for i in range(lo, n + 1):
                for j in range(lo, n + 1):
                    cases.append("bcmp %s %d %d %d" % (kind, n, i, j))
                for k in range((lo - i) if bidir else 0, n - i + 1):
                    for var in variants:
                        cases.append("bstep %s %d %s %d %d" % (kind, n, var, i, k))
    for kind in ("nfman", "nfptr"):
        for n in range(0, 6):
            for i in range(-1, n + 1):
                for j in range(-1, n + 1):
                    cases.append("ncmp %s %d %d %d" % (kind, n, i, j))
                for k in range(-1 - i, n - i + 1):
                    cases.append("nstep %s %d m %d %d" % (kind, n, i, k))
    for n in range(1, 6):
        for i in range(0, n):
            cases.append("arrow %d %d" % (n, i))
    for kind, lo in (("al", 0), ("sl", 0), ("dyn", -1), ("gen", -1)):
        for n in range(0, 5):
            for i in range(lo, n + 1):
                for j in range(lo, n + 1):
                    cases.append("prim %s %d %d %d" % (kind, n, i, j))
    cases.append("hyx enum")
    for variant in ("ref", "proxy", "iter", "fwd", "direct"):
        cases.append("trx %s -" % variant)
        for _ in range(15 if quick else 200):
            cases.append("trx %s %s" % (variant, ",".join(map(str, rxs())) or "-"))
    for _ in range(15 if quick else 200):
        cases.append("sparsex diag %s" % ",".join(str(rng.randrange(-9, 10)) for _ in range(rng.randrange(2, 5))))
    for _ in range(40 if quick else 500):
        cases.append("rutil %s" % ",".join(str(rng.choice([0, 0, 1, -1, 7, rng.randrange(-50, 50)])) for _ in range(rng.randrange(1, 7))))
    for i in range(8):
        cases.append("iseq %d" % i)
    for rid, (f, to) in {0: (0, 0), 1: (0, 3), 2: (2, 6), 3: (4, 4)}.items():
        cases.append("hyx range %d %d %d" % (rid, f, to))
    for v in range(0, 9):
        cases.append("hyx vswitch %d" % v)
    for a in range(3):
        for b in range(3):
            for c in range(3):
                cases.append("hyx fun3 %d %d %d" % (a, b, c))
    for _ in range(15 if quick else 200):
        cases.append("hyx fvec %s" % ",".join(str(rng.randrange(-99, 100)) for _ in range(3)))
    # ---- dimension audit (mutants/C16/API_COVERAGE.md, "Dimension audit")
    # template-argument families: ArrayList chunk sizes 1 and 8, DynamicMatrix rows, long long / unsigned long long / char ranges, facade with D = int
    for kind in ("al1:0", "al1:2", "al8:0", "al8:7", "al8:9"):
        ra(kind, range(0, 6), 0)
    ra("dmrow", range(0, 5), -1)
    for t in XTYPES:
        for n in (0, 3):
            for f in ir_froms(t, n, quick):
                ra("ir:%s:%d" % (t, f), [n], -1 if f > tmin(t) else 0, two=False)
    for n in range(0, 5):
        for i in range(-1, n + 1):
            for j in range(-1, n + 1):
                cases.append("ncmp nfptri %d %d %d" % (n, i, j))
            for k in range(-1 - i, n - i + 1):
                cases.append("nstep nfptri %d m %d %d" % (n, i, k))
    # aliasing and special members on one iterator object
    for kind, lo in (("dyn", -1), ("gen", -1), ("al:2", 0), ("tr", 0), ("dmrow", -1), ("ir:i32:5", -1), ("nfptri", -1)):
        for n in range(0, 5):
            for i in range(lo, n + 1):
                for j in range(lo, n + 1):
                    cases.append("self %s %d %d %d" % (kind, n, i, j))
    for n in range(0, 5):
        for i in range(0, n + 1):
            cases.append("self sl %d %d 0" % (n, i))
    # object histories: one iterator driven through an operation sequence
    def walk_ops(lo, n, allow_neg_first=True):
        pos, ops = 0, []
        for _ in range(rng.randrange(0, 12)):
            o = rng.choice("+-abcvpmPM")
            if o in "+a" and pos + 1 <= n: ops.append(o); pos += 1
            elif o in "-b" and pos - 1 >= lo: ops.append(o); pos -= 1
            elif o in "cv": ops.append(o)
            elif o in "pP":
                k = rng.randrange(lo - pos, n - pos + 1); ops.append("%s%d" % (o, k)); pos += k
            elif o in "mM":
                k = rng.randrange(pos - n, pos - lo + 1); ops.append("%s%d" % (o, k)); pos -= k
        return ",".join(ops) or "-"
    for kind, lo in (("dyn", -1), ("gen", -1), ("al:2", 0), ("al1:2", 0), ("al8:3", 0), ("tr", 0), ("dmrow", -1), ("ir:i32:-3", -1), ("nfptri", -1)):
        for _ in range(40 if quick else 500):
            n = rng.randrange(0, 9)
            cases.append("walk %s %d %s" % (kind, n, walk_ops(lo, n)))
    # roles: IndexedIterator over further bases; Hybrid on further run-time ranges; views over further bases, views of views; special members of views
    for base in ("ir", "al", "tr"):
        for _ in range(60 if quick else 600):
            n = rng.randrange(0, 8); pos = 0; ops = []
            for _ in range(rng.randrange(0, 9)):
                o = rng.choice("+-abpm")
                if o in "+a" and pos + 1 <= n: ops.append(o); pos += 1
                elif o in "-b" and pos - 1 >= 0: ops.append(o); pos -= 1
                elif o == "p":
                    k = rng.randrange(-pos, n - pos + 1); ops.append("p%d" % k); pos += k
                elif o == "m":
                    k = rng.randrange(pos - n, pos + 1); ops.append("m%d" % k); pos -= k
            cases.append("idxrun %s %d %d %s" % (base, n, rng.choice([0, 1, -5, 77]), ",".join(ops) or "-"))
    for kind in ("al", "cal", "sl", "dynv", "view"):
        cases.append("hyx dyn %s -" % kind)
        for _ in range(10 if quick else 100):
            cases.append("hyx dyn %s %s" % (kind, ",".join(map(str, rxs(7))) or "-"))
    for variant in ("nested", "itrange", "copy", "twice", "cat"):
        cases.append("trx %s -" % variant)
        for _ in range(12 if quick else 150):
            cases.append("trx %s %s" % (variant, ",".join(map(str, rxs())) or "-"))
    for _ in range(8 if quick else 80):
        cases.append("trx fvbase %s" % ",".join(str(rng.randrange(-99, 100)) for _ in range(3)))
    # boundaries: large containers (random pairs / steps), integral ranges as long as the difference type allows
    for kind, lo in (("dyn", -1), ("gen", -1), ("al:2", 0), ("al8:9", 0), ("tr", 0)):
        for _ in range(25 if quick else 300):
            n = rng.choice([63, 64, 65, 100]); i = rng.randrange(lo, n + 1); j = rng.choice([lo, n, i, rng.randrange(lo, n + 1)])
            cases.append("%s %s %d %d %d" % ("cmp", kind, n, i, j))
            cases.append("step %s %d %s %d %d" % (kind, n, rng.choice("mc"), i, j - i))
    for t, f in (("i8", -128), ("u8", 0), ("u8", 128), ("ch", -128), ("i8", 0)):
        n = 127                      # the longest span the 8-bit difference type can express: positions 0 .. 127
        for i in (0, 1, 126, 127):
            for j in (0, 63, 127):
                cases.append("cmp ir:%s:%d %d %d %d" % (t, f, n, i, j))
                cases.append("step ir:%s:%d %d m %d %d" % (t, f, n, i, j - i))
    for op in ["plus", "minus", "max", "min", "equal_to"]:
        for a in range(5):
            for b in range(5):
                if op != "minus" or a >= b:
                    cases.append("hy fun %s %d %d" % (op, a, b))
    # ---- dimension audit 2 (mutants/C16/API_COVERAGE.md, "Dimension audit 2")
    # A: assignment / converting assignment onto a target that already points into ANOTHER container (other position, size, offset, function, index)
    for kind, lo in (("dyn", -1), ("gen", -1), ("al:2", 0), ("al:0", 0), ("tr", 0), ("ir:i32:5", -1), ("trf", 0), ("sl", 0), ("idx", 0)):
        for n in range(0, 5):
            for i in range(lo, n + 1):
                for j in range(lo, n + 1):
                    cases.append("asg %s %d %d %d" % (kind, n, i, j))
    cases.append("asgv -")
    for _ in range(20 if quick else 300):
        cases.append("asgv %s" % (",".join(map(str, rxs(7))) or "-"))
    # B: IndexedIterators with different indices on the two sides; sparse range whose begin / end indices are unrelated
    IDX = [0, 1, -5, 7, 1000000, -(1 << 62), (1 << 62)]
    for base in ("dyn", "tr", "ir", "al"):
        for n in range(0, 5):
            for i in range(0, n + 1):
                for j in range(0, n + 1):
                    pool = IDX[:5] if base == "ir" else IDX      # IndexedIterator<IntegralRangeIterator<int>>::size_type is int
                    a = rng.choice(pool); b = rng.choice([x for x in pool if x != a])
                    cases.append("idxcmp %s %d %d %d %d %d" % (base, n, i, j, a, b))
    for _ in range(25 if quick else 300):
        cases.append("sparsei %d %d %s" % (rng.choice(IDX[:5]), rng.choice(IDX), ",".join(map(str, rxs())) or "-"))
    # C: containers whose capacity exceeds their size
    ra("dynov", range(0, 5), -1)
    ra("genov", range(0, 5), -1)
    # D: integral ranges up to the full span of the type; extreme element values through the value-carrying helpers
    for t in TYPES:
        lo, hi = tmin(t), tmax(t); w, sg = TYPES[t]; half = 1 << (w - 1)
        spans = {(lo, hi), (lo, hi - 1), (lo + 1, hi), (lo, lo + half), (lo, lo + half - 1), (lo, lo + half + 1), (hi - half, hi), (hi - half - 1, hi), (lo, lo), (hi, hi), (hi - 1, hi)}
        if sg: spans |= {(-1, hi), (lo, 0), (lo, 1), (-half // 2 - 1, half // 2 + 1)}
        for (f, to) in sorted(spans):
            xs = sorted({x for x in (f - 1, f, f + 1, to - 1, to, to + 1, lo, hi, 0, -1, half - 1, half) if lo <= x <= hi})
            cases.append("irangex %s %d %d %s" % (t, f, to, ",".join(map(str, xs))))
        for _ in range(6 if quick else 100):
            f = rng.randrange(lo, hi + 1); to = rng.randrange(f, hi + 1)
            xs = [rng.randrange(lo, hi + 1) for _ in range(3)] + [f, to]
            cases.append("irangex %s %d %d %s" % (t, f, to, ",".join(map(str, xs))))
    EXT = [-(1 << 31), (1 << 31) - 1, -(1 << 31) + 1, (1 << 31) - 2, 0, -1, 1]
    for _ in range(20 if quick else 200):
        xs = ",".join(str(rng.choice(EXT)) for _ in range(rng.randrange(1, 7)))
        cases.append("rutil %s" % xs); cases.append("sparse dyn %s" % xs); cases.append("sparse cdyn %s" % xs)
        cases.append("tr %s %d %d %s" % (rng.choice(["vec", "cvec", "rvec", "dyn", "list", "al"]), rng.choice([1, -1, 3]), rng.choice([0, 1, -7]), xs))
        cases.append("trx nested %s" % xs)
    return cases


def toks(line):
    d = {}
    for t in line.split():
        k, _, v = t.partition("=")
        d[k] = v
    return d


def case_class(case):
    t = case.split()
    if t[0] in ("cmp", "cmpx", "step", "bcmp", "bstep", "ncmp", "nstep", "cont", "prim", "self", "walk", "asg", "idxcmp"):
        return t[0], t[1].split(":")[0]
    if t[0] in ("trx", "hyx"):
        return t[0], t[1]
    if t[0] == "hy":
        return "hy", t[1]
    if t[0] == "irange":
        return t[0], "T"
    if t[0] in ("tr", "sparse", "idxrun"):
        return t[0], t[1]
    return t[0], "-"


def oracle_all(case, impl, spec):
    """All (reason, signature) pairs for which the spec rejects the impl's observation ([] = accepted).
    The spec line is the law evaluated on positions / the specified list / the fold.  Every token is judged on its own,
    so that a known finding in one token cannot mask a fresh one in another token of the same case."""
    op, cl = case_class(case)
    if impl == spec:
        return []
    t = case.split()
    if impl.startswith(("CRASH", "HANG", "NOT-RUN", "EXC", "BADCASE", "TABLE-MISMATCH")) or spec.startswith(("MODEL-ERROR", "BADCASE")):
        return [("impl: %s" % impl[:200], "C16:%s:%s:%s" % (op, cl, impl.split("(")[0].split()[0].lower()))]
    di, ds = toks(impl), toks(spec)
    res = []
    for k in ds:
        if di.get(k) == ds[k]:
            continue
        got = di.get(k, "<missing>")
        if op in ("cmp", "cmpx", "bcmp", "ncmp") or (op == "idxcmp" and k in ("vv", "vp", "pv")):
            i, j = int(t[3]), int(t[4])
            rel = "i=j" if i == j else ("i<j" if i < j else "i>j")
            mixed = "mixed" if k[0] != k[1] else "same"
            gb, _, gd = got.partition(":"); sb, _, sd_ = ds[k].partition(":")
            if "x" in gb:
                res.append(("%s: ordering/difference between mutable and const iterator does not compile" % k,
                            "C16:%s:%s:nocompile:%s" % (op, cl, mixed)))
                gb = gb.replace("x", "");  sb = sb[:len(gb)]; gd = sd_
            for n_, (x, y) in enumerate(zip(gb, sb)):
                if x != y:
                    res.append(("%s: operator %s on positions (%d,%d) gives %s, law says %s" % (k, BITN[n_], i, j, x, y),
                                "C16:%s:%s:%s:%s:%s" % (op, cl, BITN[n_], mixed, rel)))
            if gd != sd_:
                res.append(("%s: difference of positions (%d,%d) is %s, law says %s" % (k, i, j, gd, sd_), "C16:%s:%s:diff:%s:%s" % (op, cl, mixed, rel)))
            if len(gb) != len(sb):
                res.append(("%s: malformed %s" % (k, got), "C16:%s:%s:format" % (op, cl)))
        else:
            res.append(("%s = %s but the property fixes %s" % (k, got, ds[k]), "C16:%s:%s:%s" % (op, cl, k)))
    extra = [k for k in di if k not in ds]
    if extra:
        res.append(("unexpected tokens %s" % extra, "C16:%s:%s:format" % (op, cl)))
    return res


def oracle_line(case, impl, spec):
    r = oracle_all(case, impl, spec)
    return r[0] if r else (None, None)


def san_expected_overflow(case):
    """cases on which operator- of IntegralRangeIterator, as written, leaves the range of its signed arithmetic type"""
    t = case.split()
    if t[0] not in ("cmp", "step") or not t[1].startswith("ir:"):
        return False
    _, ty, f = t[1].split(":"); f = int(f)
    if t[0] == "cmp":
        i, j = int(t[3]), int(t[4])
    else:
        i = int(t[4]); j = i; i = i + int(t[5])       # back = (it+k) - it
    return ir_diff_overflows(ty, f + i, f + j)


SIR_T = {"i32": "int", "u64": "std::size_t", "i16": "short", "u8": "unsigned char", "i64": "long", "u32": "unsigned", "i8": "signed char"}
# feature groups of the impl driver: (group name, source file, entry point, extra flags); each is its own translation unit
def groups():
    g = [("iter1", "impl.cc", "c16_iter_case_1", ["-DC16_PART=1"]), ("iter2", "impl.cc", "c16_iter_case_2", ["-DC16_PART=2"]),
         ("iter3", "impl.cc", "c16_iter_case_3", ["-DC16_PART=3"]), ("misc", "impl.cc", "c16_misc_case", ["-DC16_PART=4"]),
         ("hybrid", "impl.cc", "c16_hy_case", ["-DC16_PART=5"]), ("extra", "impl2.cc", "c16_extra_case", []),
         ("audit", "impl4.cc", "c16_audit_case", []), ("audit2", "impl5.cc", "c16_audit2_case", [])]
    for i, (t, f, to) in SIRANGE.items():
        g.append(("sir%d" % i, "impl3.cc", "c16_sirange_%d" % i,
                  ["-DC16_SIR_FN=c16_sirange_%d" % i, "-DC16_SIR_T=%s" % SIR_T[t], "-DC16_SIR_TO=(%d)" % to, "-DC16_SIR_FROM=(%d)" % f]))
    return g


def build(ctx, san=True):
    """Every feature group is compiled on its own; a group that does not compile against ctx.repo becomes the violation `compile:<group>`
    (no failing input) and is replaced by a stub whose cases print NOCOMPILE, so that all other groups still run."""
    from concurrent.futures import ThreadPoolExecutor
    # compile probe: are ArrayListIterator / ConstArrayListIterator interoperable for <,<=,>,>=,- ?
    rc, out = V.sh(["g++", "-std=gnu++20", "-fsyntax-only", "-w", "-DHAVE_CONFIG_H", "-I" + os.path.join(V.VERIF, "harness", "common", "include"),
                    "-I" + ctx.repo, os.path.join(H, "probe_al_mixed.cc")], timeout=120)
    mixed = rc == 0
    flags = ["-DC16_AL_MIXED"] if mixed else []
    variants = [("impl", dict(opt="-O2"))] + ([("impl_san", dict(san=True))] if san else [])
    failed = {}
    nhit = []

    cache = ctx.path("objcache"); os.makedirs(cache, exist_ok=True)
    gxx = V.sh(["g++", "--version"])[1].split("\n")[0]

    def one(name, kw, grp, srcf, fn, gflags):
        # Objects are cached by the hash of the PREPROCESSED translation unit (all headers of ctx.repo included) + compiler + flags:
        # the same token stream compiled with the same flags yields the same object, so re-use is sound; any edit of an included
        # header changes the hash of exactly the groups that include it.
        import hashlib, shutil
        obj = ctx.path("%s.%s.o" % (name, grp))
        fl = flags + ["-g0", "-c"] + gflags
        pre = ["g++", "-std=gnu++20", "-w", "-DHAVE_CONFIG_H", "-D_GLIBCXX_USE_FLOAT128", "-I" + os.path.join(V.VERIF, "harness", "common", "include"),
               "-I" + os.path.join(V.VERIF, "harness", "common"), "-I" + ctx.repo] + (["-D" + ctx.hooks_define] if ctx.hooks_define else []) + flags + gflags
        rc, txt = V.sh(pre + ["-E", "-P", os.path.join(H, srcf)], timeout=300)
        key = None
        if rc == 0:
            key = hashlib.sha256((gxx + "|" + repr(sorted(kw.items())) + "|" + " ".join(fl) + "|" + txt).encode("utf-8", "replace")).hexdigest()
            hit = os.path.join(cache, key + ".o")
            if os.path.exists(hit):
                shutil.copyfile(hit, obj); nhit.append(grp); return obj
        try:
            V.cxx(ctx, [os.path.join(H, srcf)], obj, repo_srcs=[], flags=fl, timeout=600, **kw)
            if key:
                shutil.copyfile(obj, os.path.join(cache, key + ".o.tmp")); os.replace(os.path.join(cache, key + ".o.tmp"), os.path.join(cache, key + ".o"))
        except V.BuildError as e:
            failed.setdefault(grp, str(e))
            V.cxx(ctx, [os.path.join(H, "stub.cc")], obj, repo_srcs=[], flags=["-g0", "-c", "-DC16_STUB_FN=%s" % fn], **kw)
        return obj

    objs = {}
    with ThreadPoolExecutor(max_workers=min(V.NCPU, int(os.environ.get('VERIF_C16_JOBS', '8')))) as ex:
        futs = [(name, ex.submit(one, name, kw, *g)) for name, kw in variants for g in groups()]
        for name, kw in variants:
            futs.append((name, ex.submit(lambda n=name, k=kw: V.cxx(ctx, [os.path.join(H, "main.cc")], ctx.path("%s.main.o" % n), repo_srcs=[], flags=["-g0", "-c"], **k))))
        for name, f in futs:
            objs.setdefault(name, []).append(f.result())
    outs = V.cxx_many(ctx, [dict(srcs=objs[name], out=ctx.path(name), flags=["-g0"], **kw) for name, kw in variants])
    for grp, log in sorted(failed.items()):
        msg = [l for l in log.split("\n") if "error" in l][:6]
        ctx.violation("compile:%s" % grp, {"broken": "corr:C16/compile:%s (this group of the impl driver no longer compiles against the tree; its cases are not run)" % grp,
                                            "compiler": msg, "log": log[-3000:]}, found_input=False)
    ctx.coverage["groups_not_compiling"] = sorted(failed)
    ctx.coverage["object_cache_hits"] = len(nhit)
    # keep the cache small: drop objects not used for a week
    now = time.time()
    for f in os.listdir(cache):
        fp = os.path.join(cache, f)
        try:
            if now - os.path.getmtime(fp) > 7 * 86400: os.remove(fp)
        except OSError:
            pass
    return mixed, outs[0], (outs[1] if san else None), out


def params_hook(ctx):
    # operator tables / constants re-read from ctx.repo into coq/Params_gen.v (tools/params.d/C16.py)
    V.sh([sys.executable, os.path.join(V.VERIF, "tools", "extract_params.py"), ctx.repo], check=True)
    try:
        rep = json.load(open(os.path.join(V.VERIF, "build", "params_report.json")))
        mine = {k: v for k, v in rep.items() if k.startswith("c16_")}
        ctx.coverage["translated_constants"] = mine
        missing = [k for k, v in mine.items() if v.get("source") != "extracted"]
        if missing:
            ctx.notes.append("constants not located in the source, committed defaults used: %s" % missing)
    except Exception as e:
        ctx.notes.append("params report unreadable: %s" % e)


RACE = "inconsistent assumptions"      # another check rebuilt coq/Params_gen.vo between two separately locked coqc calls of lib/vcheck.py


def coq_stage_retry(ctx):
    for attempt in range(4):
        n = len(ctx.viol)
        if V.coq_stage(ctx):
            return True
        if RACE in (ctx.coq or {}).get("log", "") and attempt < 3:
            del ctx.viol[n:]
            ctx.log("coq stage hit a concurrent rebuild of Params_gen.vo, retrying")
            continue
        return False


def build_model_retry(ctx):
    for attempt in range(4):
        try:
            return V.build_model(ctx)
        except V.BuildError as e:
            if RACE in str(e) and attempt < 3:
                ctx.log("model build hit a concurrent rebuild of Params_gen.vo, retrying")
                continue
            raise


def run(ctx):
    ctx.params_hook = params_hook
    coq_stage_retry(ctx)
    if not ctx.quick:
        rc, out = V.sh(["coqchk", "-o", "-silent", "-Q", ".", "DuneV", "DuneV.Properties_C16"], cwd=V.COQ, timeout=1800)
        ax = re.search(r"\* Axioms:\s*(.*?)\n\s*\n", out, re.S)
        ctx.coverage["coqchk"] = {"rc": rc, "axioms": (ax.group(1).strip() if ax else "?")}
        if rc != 0:
            ctx.violation("coq:coqchk", {"broken": "coqchk rejects the compiled C16 development", "log": out[-2000:]}, found_input=False)
    model = build_model_retry(ctx)
    mixed, impl, impl_san, probe_log = build(ctx)
    ctx.log("ArrayList const/mutable ordering operators compile: %s" % mixed)
    cases = gen(ctx)
    ctx.log("generated %d cases" % len(cases))
    mo = V.run_cases(ctx, [model], cases, tag="model", timeout=600)
    io = V.run_cases(ctx, [impl], cases, tag="impl", timeout=60 if ctx.quick else 300)
    classes, nviol, ndis, per_sig, nnc = {}, 0, 0, {}, 0
    for c, m, a in zip(cases, mo, io):
        cl = "%s:%s" % case_class(c); classes[cl] = classes.get(cl, 0) + 1
        mm, _, spec = m.partition(" | ")
        if a == "NOCOMPILE":          # group reported as compile:<group>
            nnc += 1
            continue
        rej = oracle_all(c, a, spec)
        if rej:
            nviol += 1
            for reason, sig in rej:
                per_sig[sig] = per_sig.get(sig, 0) + 1
                if per_sig[sig] <= 3:
                    ctx.violation(sig, {"case": c, "impl": a, "model": mm, "spec": spec, "oracle": reason, "replay_cmd": "bin/check C16 --replay <this file>"})
        elif a != mm:
            ndis += 1
            ctx.violation("corr:C16/%s" % cl, {"broken": "corr:C16/%s" % cl, "case": c, "impl": a, "model": mm, "spec": spec,
                                                "oracle": "accepts impl output"}, found_input=False)
        if mm != spec:
            ctx.notes.append("model/spec mismatch on %s: %s vs %s" % (c, mm, spec))
    # sanitizer build: everything that must be clean, plus a few cases on which the difference as written overflows
    ovf = [i for i, c in enumerate(cases) if san_expected_overflow(c)]
    clean = [i for i in range(len(cases)) if i not in set(ovf)]
    if ctx.quick:
        clean = clean[::3]
    so = V.run_cases(ctx, [impl_san], [cases[i] for i in clean], tag="san", timeout=300 if ctx.quick else 1200)
    nsan = 0
    for j, i in enumerate(clean):
        if j < len(so) and so[j] != io[i]:
            nsan += 1
            if nsan <= 20:
                ctx.violation("C16:%s:%s:sanitizer" % case_class(cases[i]), {"case": cases[i], "impl": io[i], "impl_sanitized_build": so[j],
                                                                              "oracle": "ASan/UBSan build behaves differently or aborts"})
    nov = 0
    for i in ovf[:: max(1, len(ovf) // 6)][:6]:
        o = V.run_cases(ctx, [impl_san], [cases[i]], tag="sanovf", timeout=60, max_restarts=1)
        if o and o[0] != io[i]:
            nov += 1
            ctx.violation("C16:%s:%s:ubsan:signed-overflow-in-difference" % case_class(cases[i]),
                          {"case": cases[i], "impl": io[i], "impl_sanitized_build": o[0],
                           "oracle": "undefined behaviour: it1 - it2 computed as difference_type(a) - difference_type(b) overflows although the distance is representable"})
    nontriv = set(c for c in cases if not re.match(r"^(cmp|cmpx|step|bcmp|bstep|ncmp|nstep|cont) \S+ 0 ", c) and not c.endswith(" -"))
    ctx.coverage.update({
        "evaluations": len(cases), "distinct_nontrivial": len(nontriv),
        "rule": "cases = corpus + for every iterator kind (DynamicVector/FieldVector/FieldMatrix-row DenseIterator, GenericIterator, ArrayList with start offsets, "
                "TransformedRangeView over vector (new facade), IntegralRangeIterator over 8 integral types with boundary-directed range starts): ALL pairs of positions "
                "lo..n and ALL in-range steps, both constness variants, container sizes 0..%d; SLList (3 variants) and list-transformed iterators all pairs; "
                "seeded IndexedIterator op sequences; integral ranges at type limits; transformed/sparse ranges over random contents; hybrid helpers static vs dynamic; "
                "non-trivial = container non-empty / argument list non-empty; distinct = distinct case lines" % (6 if ctx.quick else 8),
        "samples": cases[:2] + cases[len(cases) // 2: len(cases) // 2 + 2] + cases[-2:],
        "class_distribution": classes, "impl_model_disagreements": ndis, "cases_in_groups_not_compiling": nnc, "oracle_rejections": nviol, "oracle_rejections_by_signature": per_sig,
        "sanitizer_cases": len(clean), "sanitizer_differences": nsan, "predicted_difference_overflow_cases": len(ovf),
        "predicted_difference_overflow_confirmed_by_ubsan": nov, "arraylist_mixed_constness_ordering_compiles": mixed,
        "exhaustive": False, "exhaustive_scope": "all pairs of positions and all in-range steps for the listed kinds and sizes (not exhaustive over contents/types)", "traces_validated_against_impl": len(cases),
    })
    ctx.assumptions += ["iterator categories / concepts are compile-time facts (static_asserts in the harness), not Coq theorems",
                        "position of a resulting iterator is identified by == against iterators constructed at every position, value by operator*",
                        "signed overflow in IntegralRangeIterator::operator- is observed through UBSan only (wraps on this platform)"]


def replay(ctx, path):
    rep = json.load(open(path))
    case = rep["case"]
    model = V.build_model(ctx)
    mixed, impl, impl_san, _ = build(ctx, san="sanitized" in json.dumps(rep))
    mo = V.run_cases(ctx, [model], [case], tag="rmodel")
    io = V.run_cases(ctx, [impl], [case], tag="rimpl", timeout=20)
    mm, _, spec = mo[0].partition(" | ")
    print("case  :", case); print("impl  :", io[0]); print("model :", mm); print("spec  :", spec)
    rs = oracle_all(case, io[0], spec)
    known = [k for k in V.load_known("C16") if k.get("status") == "known"]
    fresh = [(x, sg) for x, sg in rs if not any(re.search(k["signature"], sg) for k in known)]
    r = "; ".join("%s [%s]" % (x, sg) for x, sg in (fresh or rs)) or None
    if impl_san:
        so = V.run_cases(ctx, [impl_san], [case], tag="rsan", timeout=30, max_restarts=1)
        print("san   :", so[0])
        if so[0] != io[0] and r is None:
            r = "sanitized build differs"
    print("oracle:", r or "accepts")
    return 1 if r else 0
