"""C17 — tolerant comparison, rounding and integer math helpers (DESIGN.md section 4, C17)."""
import os, sys, re, struct, json, subprocess
from fractions import Fraction
from concurrent.futures import ThreadPoolExecutor
import vcheck as V

META = {
    "level": "proof",
    "technique": "Coq proof (comparison algebra for every IEEE binary format via Flocq; integer helpers over Z with explicit "
                 "width guards) + extracted bit-exact Flocq model vs C++ differential correspondence with exact-rational spec oracle",
    "text": "Theorems in coq/Properties_C17.v: the tolerant comparisons of the Flocq model (one correctly rounded operation per C++ "
            "operation, any precision/exponent range) are symmetric, ne = !eq, exactly one of lt/eq/gt, le = lt||eq, ge = gt||eq, "
            "vector eq = conjunction, for all finite arguments and finite eps >= 0, all three styles; power/factorial of "
            "the machine-integer model return the exact value under explicit representability guards; binomial as found is refuted "
            "(intermediate n!/(n-k)! overflows), binomial after fixes/C17-1.patch returns C(n,k) whenever it is representable "
            "(C17_binomial_exact); trunc/round after fixes/C17-2/3.patch return the documented integer for every format, finite val, "
            "finite eps >= 0 (C17_trunc_round, over Flocq); classifiers are any/all.  The model is tied to float_cmp.cc / math.hh / fvector.hh on every run by "
            "running the extracted model and the C++ templates (float, double, long double; int32/uint32/int64/uint64) on identical "
            "boundary-directed bit patterns and comparing bit-exactly, and by judging the C++ output with the exact-rational oracle.",
    "note": "Trusted: Coq kernel, Flocq, extraction, OCaml driver, C++ harness, g++ on x86-64 SSE2 (one rounding per operation, no FMA "
            "contraction), bit-pattern transport of operands.  long double is covered by the format-generic theorem only.",
    "design_ref": "DESIGN.md section 4 C17",
}

HARNESS = os.path.join(V.VERIF, "harness/C17/impl.cc")
ITYPES = {"i32": (True, 32), "u32": (False, 32), "i64": (True, 64), "u64": (False, 64)}
NARROW = {"i8": (True, 8), "u8": (False, 8), "i16": (True, 16), "u16": (False, 16)}     # promoted to int inside the templates
ALLTYPES = dict(ITYPES, **NARROW)

# ------------------------------------------------------------------ float bit helpers
class Fmt:
    def __init__(self, name, w, prec, emax, pk, upk):
        self.name, self.w, self.prec, self.emax, self.pk, self.upk = name, w, prec, emax, pk, upk
        self.hex = 20 if w == 79 else w // 4
        self.mw = prec - 1
        self.expmask = ((1 << (w - prec)) - 1) << self.mw
        self.sign = 1 << (w - 1)
        self.inf = self.expmask
        self.nan = self.expmask | (1 << (self.mw - 1))
        self.maxfin = self.expmask - 1
        self.one = self.bits(1.0)

    def bits(self, x):
        """round-to-nearest-even bit pattern of the Python float / Fraction x (overflow -> inf)"""
        if self.w == 64:
            return struct.unpack("<Q", struct.pack("<d", float(x)))[0]
        if self.w == 32:
            try:
                return struct.unpack("<I", struct.pack("<f", float(x)))[0]
            except OverflowError:
                return self.inf | (self.sign if x < 0 else 0)
        # software rounding (long double: internal layout = 1 + 15 + 63 bits, integer bit implicit)
        x = Fraction(x)
        if x == 0:
            return 0
        sg = self.sign if x < 0 else 0
        a = abs(x)
        e = a.numerator.bit_length() - a.denominator.bit_length()
        if Fraction(2) ** e > a:
            e -= 1
        emin = 3 - self.emax - self.prec
        q = max(e - (self.prec - 1), emin)
        sc = a / Fraction(2) ** q
        m = sc.numerator // sc.denominator
        rem = sc - m
        if rem > Fraction(1, 2) or (rem == Fraction(1, 2) and m % 2 == 1):
            m += 1
        if m == 1 << self.prec:
            m >>= 1; q += 1
        if q + self.prec > self.emax:
            return sg | self.inf
        if m < 1 << self.mw:
            return sg | m                                       # subnormal (q == emin)
        return sg | ((q + self.mw + self.emax - 1) << self.mw) | (m - (1 << self.mw))

    def frac(self, b):
        """exact value of a finite pattern"""
        if self.w in (32, 64):
            return Fraction(self.val(b))
        sg = -1 if b & self.sign else 1
        eb = (b & self.expmask) >> self.mw
        fr = b & ((1 << self.mw) - 1)
        if eb == 0:
            return sg * fr * Fraction(2) ** (3 - self.emax - self.prec)
        return sg * (fr + (1 << self.mw)) * Fraction(2) ** (eb - (self.emax - 1) - self.mw)

    def val(self, b):
        if self.w == 64:
            return struct.unpack("<d", struct.pack("<Q", b))[0]
        if self.w == 32:
            return struct.unpack("<f", struct.pack("<I", b))[0]
        if not self.isfin(b):
            return float("nan") if b & ((1 << self.mw) - 1) else (float("-inf") if b & self.sign else float("inf"))
        try:
            return float(self.frac(b))
        except OverflowError:
            return float("inf")

    def isfin(self, b):
        return (b & self.expmask) != self.expmask

    def step(self, b, k):
        """k-th neighbour of a finite value in the ordered sequence of floats (saturating at +-max)"""
        o = -(b & ~self.sign) if b & self.sign else b
        o += k
        o = max(-self.maxfin, min(self.maxfin, o))
        return (self.sign | -o) if o < 0 else o

    def h(self, b):
        if self.w != 79:
            return "%0*x" % (self.hex, b)
        se, fr = b >> 63, b & ((1 << 63) - 1)                   # explicit integer bit of the x87 format
        return "%04x%016x" % (se, ((1 << 63) if se & 0x7fff else 0) | fr)

    def unh(self, s):
        x = int(s, 16)
        if self.w != 79:
            return x
        return ((x >> 64) << 63) | (x & ((1 << 63) - 1))


F32 = Fmt("32", 32, 24, 128, "<f", "<I")
F64 = Fmt("64", 64, 53, 1024, "<d", "<Q")
F80 = Fmt("80", 79, 64, 16384, None, None)        # long double (x87 extended), software rounding
FMTS = {"32": F32, "64": F64, "80": F80}
FLOATS = (F32, F64, F80)


def cnt(ctx, f, nq, nt):
    """number of random cases for format f: quick nq (40% for long double: its exact oracle is the slowest), thorough nt"""
    if ctx.quick:
        return nq * 2 // 5 if f.w == 79 else nq
    return nt



def special_values(f):
    mach = 2.0 ** (1 - f.prec)
    vs = [0, f.sign, 1, f.sign | 1, 1 << f.mw, f.sign | (1 << f.mw), (1 << f.mw) - 1, f.maxfin, f.sign | f.maxfin,
          f.one, f.sign | f.one, f.step(f.one, 1), f.step(f.one, -1), f.bits(0.5), f.bits(1.5), f.bits(2.0), f.bits(3.0),
          f.bits(-2.5), f.bits(1e-6), f.bits(mach), f.bits(0.1), f.bits(1e10), f.bits(-1e10), f.bits(1e-30),
          f.maxfin - 1, f.step(f.maxfin, -(1 << (f.mw - 1)))]
    return vs


def eps_values(f):
    mach = 2.0 ** (1 - f.prec)
    return [f.bits(8 * mach), f.bits(1e-6), 0, f.bits(mach), f.bits(mach / 2), f.bits(1e-3), f.bits(0.25), f.bits(0.5), f.bits(1.0),
            f.bits(2.0), 1, 1 << f.mw, f.bits(1e10), f.maxfin, f.bits(1 - mach / 2), f.bits(3 * mach)]


def rnd_value(f, rng):
    z = rng.random()
    if z < 0.25:
        return rng.choice(special_values(f))
    if z < 0.55:   # moderate magnitude
        x = rng.choice([1, -1]) * rng.random() * 10 ** rng.randint(-3, 4)
        return f.bits(x)
    if z < 0.65:   # small integers and halves
        return f.bits(rng.choice([1, -1]) * (rng.randint(0, 40) + rng.choice([0, 0, 0.5, 0.25])))
    b = rng.getrandbits(f.w)
    if not f.isfin(b):
        b &= ~(1 << (f.w - 2))
    return b


def near_partner(f, rng, style, eps, a):
    """a value b such that |a-b| is at (or a few ulps around) the tolerance boundary of eq(a,b,eps)"""
    if not (f.isfin(a) and f.isfin(eps)):
        return rnd_value(f, rng)
    A, E = f.frac(a), f.frac(eps)
    sgn = rng.choice([1, -1])
    try:
        if style == "a":
            B = A + sgn * E
        elif style == "w":
            # |a-b| = eps*max(|a|,|b|):  b = a(1-eps)  (|a| is the max)  or  b = a/(1-eps)  (|b| is the max)
            B = A * (1 - E) if sgn > 0 or E >= 1 else A / (1 - E)
        else:
            # |a-b| = eps*min(|a|,|b|):  b = a(1+eps) (|a| is the min)  or  b = a/(1+eps)
            B = A * (1 + E) if sgn > 0 else A / (1 + E)
        b = f.bits(B)
    except (OverflowError, ZeroDivisionError):
        return rnd_value(f, rng)
    if not f.isfin(b):
        return b
    return f.step(b, rng.choice([0, 0, 1, -1, 2, -2, 3, -3, rng.randint(-40, 40)]))


def gen_cmp(ctx, cases, tags):
    rng = ctx.rng("cmp")
    quick = ctx.quick
    for f in FLOATS:
        sv, ev = special_values(f), eps_values(f)
        # exhaustive special x special for the first epsilons, all styles
        for s in "wsa":
            for e in ev[:3 if quick else 6]:
                for a in sv:
                    for b in sv:
                        cases.append("cmp %s %s %s %s %s" % (f.name, s, f.h(e), f.h(a), f.h(b))); tags.append("cmp/special")
        n = cnt(ctx, f, 2500, 60000)
        for i in range(n):
            s = "wsa"[i % 3]
            e = rng.choice(ev) if rng.random() < 0.8 else f.bits(rng.random() * 10 ** rng.randint(-9, 0))
            a = rnd_value(f, rng)
            z = rng.random()
            if z < 0.6:
                b = near_partner(f, rng, s, e, a); tg = "cmp/boundary"
            elif z < 0.75:
                b = f.step(a, rng.choice([0, 1, -1, 2, -2, 5, -17])) if f.isfin(a) else a; tg = "cmp/neighbour"
            elif z < 0.8:
                b = a ^ f.sign; tg = "cmp/negated"
            else:
                b = rnd_value(f, rng); tg = "cmp/random"
            if rng.random() < 0.02:
                a = rng.choice([f.inf, f.inf | f.sign, f.nan]); tg = "cmp/nonfinite"
            if rng.random() < 0.5:
                a, b = b, a
            cases.append("cmp %s %s %s %s %s" % (f.name, s, f.h(e), f.h(a), f.h(b))); tags.append(tg)
            if i % 5 == 0:      # the swapped pair too (symmetry is then visible in the impl outputs themselves)
                cases.append("cmp %s %s %s %s %s" % (f.name, s, f.h(e), f.h(b), f.h(a))); tags.append(tg)
        # aliasing: eq..le(x, x) with both operands the SAME object, every special value incl. NaN / infinities
        for s_ in "wsa":
            for e in ev[:4]:
                for a in sv + [f.inf, f.inf | f.sign, f.nan]:
                    cases.append("cmp %s %s %s %s %s" % (f.name, s_, f.h(e), f.h(a), f.h(a))); tags.append("cmp/aliased")
        for s_ in "wsa":
            for n1 in (0, 1, 2, 3, 5):
                for _ in range(6):
                    v = [rng.choice(sv + [f.nan, f.inf]) if rng.random() < 0.5 else rnd_value(f, rng) for _ in range(n1)]
                    cases.append("vcmp %s %s %s %d %s %d %s" % (f.name, s_, f.h(ev[0]), n1, " ".join(map(f.h, v)), n1, " ".join(map(f.h, v))))
                    tags.append("vcmp/aliased")
        # vectors
        for i in range(cnt(ctx, f, 400, 6000)):
            s = "wsa"[i % 3]
            e = rng.choice(ev[:8])
            n1 = rng.choice([0, 1, 1, 2, 2, 3, 3, 4, 6])
            n2 = n1 if rng.random() < 0.9 else rng.choice([0, 1, 2, 3, 5])
            a = [rnd_value(f, rng) for _ in range(n1)]
            b = []
            for j in range(n2):
                z = rng.random()
                if j < n1 and z < 0.55:
                    b.append(a[j])
                elif j < n1 and z < 0.9:
                    b.append(near_partner(f, rng, s, e, a[j]))
                else:
                    b.append(rnd_value(f, rng))
            cases.append("vcmp %s %s %s %d %s %d %s" % (f.name, s, f.h(e), n1, " ".join(map(f.h, a)), n2, " ".join(map(f.h, b))))
            tags.append("vcmp")


def gen_round(ctx, cases, tags):
    rng = ctx.rng("round")
    quick = ctx.quick
    for f in FLOATS:
        mach = Fraction(2) ** (1 - f.prec)
        ev = [f.bits(8 * float(mach)), f.bits(1e-6), 0, f.bits(1e-3), f.bits(0.25), f.bits(0.5), f.bits(float(mach)), f.bits(1.0), f.bits(0.01)]
        bases = [0, 1, 2, 3, 4, 7, 10, 100, 1000, 12345, 2 ** 15 - 1, 2 ** 15, 2 ** 16 - 1, 2 ** 16, 2 ** 20, 2 ** 23, 2 ** 24 - 1, 2 ** 24, 2 ** 31 - 1, 2 ** 31, 2 ** 32 - 1, 2 ** 32,
                 2 ** 52, 2 ** 53, 2 ** 62, 2 ** 63 - 1024, 2 ** 63, 2 ** 64 - 2048, 2 ** 64]
        n = cnt(ctx, f, 4000, 80000)
        for i in range(n):
            op = "round" if i % 2 else "trunc"
            ity = rng.choice(["i32", "i32", "i64", "u32", "u64"] + (["i16", "u16", "i16"] if f is F64 else []))
            s = rng.choice("wsa"); r = rng.choice("zidu")
            e = rng.choice(ev) if rng.random() < 0.85 else f.bits(rng.random() * 10 ** rng.randint(-8, 0))
            E = f.frac(e)
            z = rng.random()
            if z < 0.8:
                base = rng.choice(bases) if rng.random() < 0.5 else rng.randint(0, 50)
                sg = rng.choice([1, 1, -1])
                if ity[0] == "u" and rng.random() < 0.7:
                    sg = 1
                fr = rng.choice([Fraction(0), Fraction(1, 2), Fraction(1, 4), Fraction(3, 4), mach, -mach, E, -E, E * base, -E * base,
                                 Fraction(1, 2) + E / 2, Fraction(1, 2) - E / 2, Fraction(1, 2) + mach, Fraction(1, 2) - mach,
                                 Fraction(1, 2) + E, Fraction(1, 2) - E, Fraction(rng.random()), Fraction(1, 1000), Fraction(999, 1000),
                                 1 - E, 1 - E * base, 1 - mach * 4])
                try:
                    v = f.bits(sg * (Fraction(base) + fr))
                except OverflowError:
                    v = f.bits(float(base))
                if f.isfin(v):
                    v = f.step(v, rng.choice([0, 0, 0, 1, -1, 2, -2]))
                tg = "%s/constructed" % op
            elif z < 0.97:
                v = rnd_value(f, rng); tg = "%s/random" % op
            else:
                v = rng.choice([f.inf, f.inf | f.sign, f.nan, f.maxfin]); tg = "%s/nonfinite" % op
            cases.append("%s %s %s %s %s %s %s" % (op, f.name, ity, s, r, f.h(e), f.h(v))); tags.append(tg)


def wrap(t, z):
    sg, w = ALLTYPES[t]
    z %= 1 << w
    return z - (1 << w) if sg and z >= 1 << (w - 1) else z


def crashes_impl(op, t, a, b):
    """Would the C++ raise SIGFPE (integer division by zero / INT_MIN / -1)?  Only used to keep such cases out of
    the batch (they are undefined behaviour, the model reports UB); not an oracle."""
    if op == "ipow" and b < 0:
        r = 1
        for _ in range(-b):
            r = wrap(t, r * a)
        return r == 0
    if op == "binom":
        n, k = a, b
        if k < 0 or k > n:
            return False
        if wrap(t, 2 * k) > n:
            k = n - k
        fk = 1
        for i in range(k):
            fk = wrap(t, fk * (i + 1))
        return fk == 0
    return False


def gen_int(ctx, cases, tags):
    rng = ctx.rng("int")
    quick = ctx.quick
    N = 70
    for t in ITYPES:
        sg, w = ITYPES[t]
        for n in range(-2 if sg else 0, N + 1):
            cases.append("fact %s %d" % (t, n)); tags.append("fact")
            for k in range(-1 if sg else 0, n + 2):
                if n >= 0:
                    cases.append("binom %s %d %d" % (t, n, k)); tags.append("binom/exhaustive")
        for m in range(-12 if sg else 0, 13):
            for p in range(-70 if not quick else -12, 71):
                if not crashes_impl("ipow", t, m, p):
                    cases.append("ipow %s %d %d" % (t, m, p)); tags.append("ipow/exhaustive")
        lim = (1 << (w - 1)) - 1 if sg else (1 << w) - 1
        # boundary bases: m^p just inside / outside the type
        for p in range(1, 64):
            r = int(round(lim ** (1.0 / p)))
            for m in {r - 1, r, r + 1, -(r - 1), -r, -(r + 1)}:
                if abs(m) >= 2 and (sg or m > 0) and abs(m) <= lim:
                    cases.append("ipow %s %d %d" % (t, m, p)); tags.append("ipow/boundary")
        # large n, small k or small n-k (representable results with large factors), up to the maximum of the type:
        # `k > n-k` must not wrap / overflow there (the as-found `2*k > n` did)
        for _ in range(150 if quick else 3000):
            k = rng.randint(0, 6)
            n = rng.choice([rng.randint(71, 3000), rng.randint(3000, 70000), lim // 2 - 1, lim // 2, lim // 2 + 1, lim // 3, lim - 1, lim])
            kk = rng.choice([k, n - k])
            if kk >= 0:
                cases.append("binom %s %d %d" % (t, n, kk)); tags.append("binom/large-n")
        for n, k in [(lim, lim), (lim, 0), (lim, 1), (lim, lim - 1), (lim - 1, lim - 1), (lim, 2), (lim // 2 + 1, lim // 2 + 1)]:
            cases.append("binom %s %d %d" % (t, n, k)); tags.append("binom/large-n")
        # power at the limits of the type
        for m, p in [(lim, 1), (lim, 0), (lim, 2), (2, w - 2), (2, w - 1), (2, w)] + ([(-lim - 1, 1), (-1, 199), (-1, 200), (-2, w - 1), (-2, w)] if sg else []):
            cases.append("ipow %s %d %d" % (t, m, p)); tags.append("ipow/boundary")
        for v in [0, 1, 2, lim, lim - 1] + ([-1, -2, -lim, -lim - 1] if sg else []) + [rng.randint(-lim if sg else 0, lim) for _ in range(20)]:
            cases.append("isign %s %d" % (t, v)); tags.append("isign")
    for t, (sg, w) in NARROW.items():
        lim = (1 << (w - 1)) - 1 if sg else (1 << w) - 1
        for n in range(-2 if sg else 0, 12):
            cases.append("fact %s %d" % (t, n)); tags.append("fact/narrow")
        for m in range(-4 if sg else 0, 5):
            for p in range(-3, 18):
                if not crashes_impl("ipow", t, m, p):
                    cases.append("ipow %s %d %d" % (t, m, p)); tags.append("ipow/narrow")
        for m, p in [(lim, 1), (lim, 2), (2, w - 2), (2, w - 1), (2, w)] + ([(-lim - 1, 1), (-2, w - 1), (-1, 33)] if sg else []):
            cases.append("ipow %s %d %d" % (t, m, p)); tags.append("ipow/narrow")
    for f in FLOATS:
        for i in range(cnt(ctx, f, 300, 5000)):
            m = rng.choice(special_values(f)) if rng.random() < 0.2 else f.bits(rng.choice([1, -1]) * rng.choice([rng.random() * 3, rng.randint(0, 12), 1 + rng.random() * 1e-3, 10.0, 0.1]))
            p = rng.randint(-70, 70) if rng.random() < 0.8 else rng.choice([0, 1, -1, 2, -2, 200, -200, 1100, -1100])
            cases.append("fpow %s %s %d" % (f.name, f.h(m), p)); tags.append("fpow")
        for v in special_values(f) + [f.inf, f.inf | f.sign, f.nan, f.nan | f.sign]:
            cases.append("fsign %s %s" % (f.name, f.h(v))); tags.append("fsign")


def gen_cls(ctx, cases, tags):
    rng = ctx.rng("cls")
    for f in FLOATS:
        pool = [f.nan, f.nan | f.sign | 1, f.inf, f.inf | f.sign, 0, f.sign, 1, f.maxfin, f.one, f.bits(-2.5), f.expmask | 1]
        for v in pool:
            cases.append("cls %s s 1 %s" % (f.name, f.h(v))); tags.append("cls/scalar")
        for a in pool:
            for b in pool:
                cases.append("cls %s c 2 %s %s" % (f.name, f.h(a), f.h(b))); tags.append("cls/complex")
                cases.append("cls %s v 2 %s %s" % (f.name, f.h(a), f.h(b))); tags.append("cls/fvector")
                cases.append("unord %s %s %s" % (f.name, f.h(a), f.h(b))); tags.append("unordered")
        # NaN / inf in every position of longer vectors
        for n in (1, 3, 4, 5):
            for pos in range(n):
                for bad in (f.nan, f.inf, f.inf | f.sign):
                    v = [rng.choice([0, f.one, f.maxfin, f.bits(-2.5)]) for _ in range(n)]
                    v[pos] = bad
                    cases.append("cls %s v %d %s" % (f.name, n, " ".join(map(f.h, v)))); tags.append("cls/fvector")
            for _ in range(10):
                v = [rng.choice(pool) for _ in range(n)]
                cases.append("cls %s v %d %s" % (f.name, n, " ".join(map(f.h, v)))); tags.append("cls/fvector")


def round_arg(f, rng, ity, E):
    """a boundary-directed argument for round/trunc: integer + {0, 1/2, +-eps, +-ulp, ...} or a random value"""
    mach = Fraction(2) ** (1 - f.prec)
    bases = [0, 1, 2, 3, 7, 10, 100, 12345, 2 ** 20, 2 ** 24 - 1, 2 ** 24, 2 ** 31 - 1, 2 ** 31, 2 ** 32 - 1, 2 ** 32, 2 ** 53, 2 ** 63 - 1024, 2 ** 63]
    if rng.random() < 0.85:
        base = rng.choice(bases) if rng.random() < 0.4 else rng.randint(0, 50)
        sg = 1 if (ity[0] == "u" and rng.random() < 0.7) else rng.choice([1, 1, -1])
        fr = rng.choice([Fraction(0), Fraction(1, 2), Fraction(1, 4), Fraction(3, 4), mach, -mach, E, -E, E * base, -E * base,
                         Fraction(1, 2) + E / 2, Fraction(1, 2) - E / 2, Fraction(1, 2) + mach, Fraction(1, 2) - mach,
                         Fraction(rng.random()), Fraction(999, 1000), 1 - E, 1 - mach * 4])
        try:
            v = f.bits(sg * (Fraction(base) + fr))
        except OverflowError:
            v = f.bits(float(base))
        if f.isfin(v):
            v = f.step(v, rng.choice([0, 0, 0, 1, -1, 2, -2]))
        return v
    return rnd_value(f, rng)


def gen_api(ctx, cases, tags):
    """entry points with defaulted template / function arguments, integral_constant overloads, further argument types
    (API-coverage audit, mutants/C17/API_COVERAGE.md)"""
    rng = ctx.rng("api")
    quick = ctx.quick
    for n in range(0, 12):
        cases.append("icfact %d" % n); tags.append("icfact")
    for n in range(-1, 13):
        for k in range(-1, 14):
            cases.append("icbinom %d %d" % (n, k)); tags.append("icbinom")
    for t in ("i32", "u32", "i64"):
        for v in (0, 1, 5, 2147483647) + ((-1, -7) if t[0] == "i" else ()):
            cases.append("icls %s %d" % (t, v)); tags.append("icls")
    for v in range(-128, 128):
        cases.append("isign i8 %d" % v); tags.append("isign/narrow")
    for v in range(0, 256, 5):
        cases.append("isign u8 %d" % v); tags.append("isign/narrow")
    for v in (-32768, -32767, -1, 0, 1, 32767):
        cases.append("isign i16 %d" % v); tags.append("isign/narrow")
    for v in (0, 1, 65535):
        cases.append("isign u16 %d" % v); tags.append("isign/narrow")
    for t in ITYPES:
        for E in "luh":
            for m in range(-3 if ITYPES[t][0] else 0, 4):
                for pw in list(range(0, 24, 1)) + ([] if E == "u" else [-1, -2, -5]):
                    if not crashes_impl("ipow", t, m, pw):
                        cases.append("ipowx %s %s %d %d" % (t, E, m, pw)); tags.append("ipowx")
    for f in FLOATS:
        cases.append("defeps %s" % f.name); tags.append("defeps")
        mach = 2.0 ** (1 - f.prec)
        ev = [f.bits(8 * mach), f.bits(1e-6), 0, f.bits(1e-3), f.bits(0.5), f.bits(mach)]
        defe = {"w": f.bits(8 * mach), "s": f.bits(8 * mach), "a": f.bits(1e-6)}
        for i in range(cnt(ctx, f, 500, 8000)):
            e = rng.choice(ev)
            st = "wsa"[i % 3]
            a = rnd_value(f, rng)
            z = rng.random()
            if z < 0.7:
                b = near_partner(f, rng, st, defe[st] if rng.random() < 0.8 else e, a)
            elif z < 0.85:
                b = f.step(a, rng.choice([0, 1, -1, 3, -9])) if f.isfin(a) else a
            else:
                b = rnd_value(f, rng)
            if rng.random() < 0.5:
                a, b = b, a
            cases.append("cmpd %s %s %s %s" % (f.name, f.h(e), f.h(a), f.h(b))); tags.append("cmpd")
        for i in range(cnt(ctx, f, 1200, 20000)):
            op = "round" if i % 2 else "trunc"
            ity = rng.choice(["i32", "i32", "i64", "u32", "u64"])
            sel = "crn"[i % 3]
            x = rng.choice("wsa") if sel == "c" else rng.choice("zidu") if sel == "r" else "-"
            st = x if sel == "c" else "w"
            if rng.random() < 0.5:
                e, E = "-", f.frac(defe[st])
            else:
                eb = rng.choice(ev); e, E = f.h(eb), f.frac(eb)
            v = round_arg(f, rng, ity, E)
            cases.append("rto %s %s %s %s %s %s %s" % (op, f.name, ity, sel, x, e, f.h(v))); tags.append("rto/%s/%s" % (op, sel))
        pool = [f.nan, f.inf, f.inf | f.sign, 0, f.one, f.maxfin, f.bits(-2.5)]
        for n in (1, 2, 3):
            for _ in range(25):
                v = [rng.choice(pool) if rng.random() < 0.4 else f.one for _ in range(2 * n)]
                cases.append("cls %s vc %d %s" % (f.name, n, " ".join(map(f.h, v)))); tags.append("cls/fvector-complex")


def gen(ctx):
    cases, tags = [], []
    cp = os.path.join(V.VERIF, "corpus", "C17", "cases.txt")
    if os.path.exists(cp):
        for l in open(cp):
            l = l.strip()
            if l and not l.startswith("#"):
                cases.append(l); tags.append("corpus")
    gen_int(ctx, cases, tags)
    gen_cls(ctx, cases, tags)
    gen_api(ctx, cases, tags)
    gen_cmp(ctx, cases, tags)
    gen_round(ctx, cases, tags)
    return cases, tags


# ------------------------------------------------------------------ running
def run_model(ctx, model, cases, impl_lines, tag="model"):
    """Run the extracted model + oracle on chunks in parallel.  Returns list of (model_obs, oracle)."""
    nchunk = max(1, min(V.NCPU, len(cases) // 500 + 1))
    jobs = []
    for c in range(nchunk):
        # round-robin assignment: slow ops (long double with extreme exponents) are spread over all workers
        part, ipart = cases[c::nchunk], impl_lines[c::nchunk]
        if not part:
            break
        cf, jf = ctx.path("%s.cases.%d" % (tag, c)), ctx.path("%s.impl.%d" % (tag, c))
        open(cf, "w").write("\n".join(part) + "\n")
        open(jf, "w").write("\n".join(ipart) + "\n")
        jobs.append((cf, jf, len(part)))

    def one(j):
        cf, jf, n = j
        try:
            p = subprocess.run([model, cf, jf], stdout=subprocess.PIPE, stderr=subprocess.PIPE, timeout=1500, text=True, errors="replace")
            lines = p.stdout.split("\n")
        except subprocess.TimeoutExpired:
            lines = []
        if lines and lines[-1] == "":
            lines.pop()
        lines = lines[:n] + ["MODEL-ERROR no output | - | ="] * (n - len(lines))
        return lines
    with ThreadPoolExecutor(max_workers=V.NCPU) as ex:
        parts = list(ex.map(one, jobs))
    out = [None] * len(cases)
    for c, lines in enumerate(parts):
        out[c::len(parts)] = lines
    res = []
    for l in out:
        parts = l.split(" | ")
        m, o = parts[0], (parts[1] if len(parts) > 1 else "-")
        af = parts[2] if len(parts) > 2 else "="
        res.append((m, o, m if af == "=" else af))      # (fixed-code model, oracle verdict, as-found model)
    return res


def sig_of(case, asfound_obs, impl_obs=None):
    """signature of a violation; asfound_obs = observation of the as-found model (before fixes/C17-*.patch)"""
    t = case.split()
    op = t[0]
    if op in ("binom", "ipow", "fact"):
        name = {"binom": "binomial", "ipow": "power", "fact": "factorial"}[op]
        return "C17:%s:%s" % (name, "intermediate-overflow" if asfound_obs == "UB" or asfound_obs == impl_obs else "value")
    if op == "cmp":
        return "C17:cmp:%s" % {"w": "relativeWeak", "s": "relativeStrong", "a": "absolute"}[t[2]]
    if op == "vcmp":
        return "C17:vcmp"
    if op == "rto":
        return sig_of(" ".join([t[1], t[2], t[3], "w", "z", "0", t[7]]), asfound_obs, impl_obs).replace("C17:", "C17:defaulted-") if True else None
    if op in ("round", "trunc"):
        f = FMTS[t[1]]
        v = f.unh(t[6])
        extra = ""
        if f.isfin(v) and abs(f.frac(v)) >= 2 ** f.prec:
            extra = ":ge2^prec"                 # int -> float conversion of lower+1 is no longer exact
        elif t[2][0] == "u" and f.isfin(v) and f.frac(v) < 0:
            extra = ":unsigned-negative"          # `lower--` wraps below 0
        elif t[2][0] == "u" and f.isfin(v) and f.frac(v) >= (1 << ALLTYPES[t[2]][1]) - 1:
            extra = ":unsigned-top"               # `lower+1` wraps above the maximum
        elif t[2][0] == "i" and f.isfin(v) and f.frac(v) >= (1 << (ALLTYPES[t[2]][1] - 1)) - 1:
            extra = ":signed-top"                 # `lower+1` overflows above the maximum
        elif t[2][0] == "i" and f.isfin(v) and f.frac(v) < -(1 << (ALLTYPES[t[2]][1] - 1)):
            extra = ":signed-bottom"              # `lower--` overflows below the minimum
        return "C17:%s:%s%s" % (op, {"z": "towardZero", "i": "towardInf", "d": "downward", "u": "upward"}[t[4]], extra)
    return "C17:%s" % op


def describe(case):
    """human-readable decoding of the bit patterns of a case (for replay files)"""
    t = case.split()
    if t[0] in ("ipow", "fact", "binom", "isign", "icfact", "icbinom", "icls", "ipowx"):
        return case
    if t[0] == "rto":
        t = [t[0] + "/" + t[1]] + t[2:]
    f = FMTS.get(t[1])
    out = []
    for x in t[2:]:
        if re.fullmatch(r"[0-9a-f]{%d}" % f.hex, x):
            out.append(repr(f.val(f.unh(x))))
        else:
            out.append(x)
    return "%s<%s> %s" % (t[0], "float" if f.w == 32 else "double", " ".join(out))


def build(ctx, san=True):
    model = V.build_model(ctx)
    jobs = [dict(srcs=[HARNESS], out=ctx.path("impl"), opt="-O2", repo_srcs=[])]
    if san:
        jobs.append(dict(srcs=[HARNESS], out=ctx.path("impl_san"), san=True, repo_srcs=[]))
    exes = V.cxx_many(ctx, jobs)
    return model, exes[0], (exes[1] if san else None)


def judge(ctx, cases, tags, io, mo, report=True):
    """Compare impl with model, apply the oracle.  Returns counters."""
    nviol = ndis = nub = 0
    persig = {}
    for c, tg, a, (m, o, af) in zip(cases, tags, io, mo):
        if m.startswith("MODEL-ERROR") or m == "OUTOFFUEL" or m == "UNKNOWN-OP":
            ctx.violation("corr:C17/model-error", {"broken": "corr:C17/model", "case": c, "model": m, "impl": a}, found_input=False)
            continue
        if o.startswith("BAD"):
            nviol += 1
            sg = sig_of(c, af, a)
            persig[sg] = persig.get(sg, 0) + 1
            if persig[sg] <= 4 and report:
                ctx.violation(sg, {"case": c, "decoded": describe(c), "impl": a, "model": m, "model_as_found": af, "oracle": o[4:],
                                   "replay_cmd": "bin/check C17 --replay <this file>"})
            continue
        if m == "UB":
            nub += 1
            continue
        if a != m:
            ndis += 1
            if af != m and (a == af or af == "UB"):
                # the oracle accepts the output, the impl behaves like the code before fixes/C17-*.patch
                sg = sig_of(c, af, a) + ":as-found"
                persig[sg] = persig.get(sg, 0) + 1
                if persig[sg] <= 4 and report:
                    ctx.violation(sg, {"broken": "corr:C17/%s (tree without the fix)" % c.split()[0], "case": c, "decoded": describe(c),
                                       "impl": a, "model": m, "model_as_found": af, "oracle": "accepts impl output (%s)" % o}, found_input=False)
            elif ndis <= 50 and report:
                ctx.violation("corr:C17/%s" % c.split()[0], {"broken": "corr:C17/%s" % c.split()[0], "case": c, "decoded": describe(c),
                                                           "impl": a, "model": m, "oracle": "accepts impl output (%s)" % o}, found_input=False)
    ctx.coverage["oracle_rejections_by_signature"] = persig
    return nviol, ndis, nub


def params_hook(ctx):
    V.sh([sys.executable, os.path.join(V.VERIF, "tools", "extract_params.py"), ctx.repo], check=True)


def run(ctx):
    ctx.params_hook = params_hook
    V.coq_stage(ctx)
    model, impl, impl_san = build(ctx)
    cases, tags = gen(ctx)
    ctx.log("generated %d cases" % len(cases))
    io = V.run_cases(ctx, [impl], cases, tag="impl", timeout=120 if ctx.quick else 600)
    ctx.log("impl done")
    mo = run_model(ctx, model, cases, io)
    ctx.log("model+oracle done")
    nviol, ndis, nub = judge(ctx, cases, tags, io, mo)
    # sanitizer build: every case the model calls defined must run without UBSan/ASan report and give the same line
    idx = [i for i, (m, o, af) in enumerate(mo) if m != "UB" and af != "UB" and not m.startswith("MODEL-ERROR")]
    idx = idx[::(5 if ctx.quick else 2)]
    # cases that were undefined behaviour before fixes/C17-*.patch and are defined after: a few per op only
    # (on a tree without the fix each of them aborts the sanitizer build; run_cases tolerates 12 restarts)
    seen_op = {}
    for i, (m, o, af) in enumerate(mo):
        if af == "UB" and m != "UB":
            k = cases[i].split()[0]
            seen_op[k] = seen_op.get(k, 0) + 1
            if seen_op[k] <= 3:
                idx.append(i)
    so = V.run_cases(ctx, [impl_san], [cases[i] for i in idx], tag="san", timeout=300 if ctx.quick else 1200)
    nsan = 0
    for j, i in enumerate(idx):
        if j < len(so) and so[j] != io[i]:
            nsan += 1
            if nsan <= 20:
                ctx.violation(sig_of(cases[i], mo[i][2], io[i]) + (":as-found" if mo[i][2] == "UB" else "") + ":sanitizer",
                              {"case": cases[i], "decoded": describe(cases[i]), "impl": io[i], "impl_sanitized_build": so[j], "model": mo[i][0],
                               "oracle": "the model calls this case defined, but the ASan/UBSan build aborts or answers differently"})
    dist = {}
    for tg in tags:
        dist[tg] = dist.get(tg, 0) + 1
    verdicts = {}
    for (m, o, af) in mo:
        k = o.split(" ")[0] if not o.startswith("BAD") else "BAD"
        verdicts[k] = verdicts.get(k, 0) + 1
    eqtrue = sum(1 for c, (m, o, af) in zip(cases, mo) if c.startswith("cmp ") and m[:1] == "1")
    eqfalse = sum(1 for c, (m, o, af) in zip(cases, mo) if c.startswith("cmp ") and m[:1] == "0")
    distinct = len(set(c for c, tg in zip(cases, tags) if not tg.startswith("cls") and any(re.search(r"[1-9a-f]", x) for x in c.split()[3:])))
    ctx.coverage.update({
        "evaluations": len(cases), "distinct_nontrivial": distinct,
        "rule": "cases = corpus + API-audit streams (defaulted epsilon / compare style / rounding style overloads of eq..le, round, trunc and FloatCmpOps; DefaultEpsilon "
                "values; integral_constant overloads of factorial / binomial and Factorial<m>; power with long / unsigned / short exponents; sign of narrow types; "
                "integer and FieldVector<complex> classification; std::vector / FieldVector<T,1> gt/lt/ge/le) + exhaustive integer scopes (binomial n<=70 all k, power |m|<=12 |p|<=70 (quick: p>=-12), factorial n<=70; int32/uint32/int64/uint64) "
                "+ boundary bases for power + classifier pools with NaN/inf in every position + special x special float pairs "
                "+ seeded boundary-directed float pairs (partner constructed at the tolerance boundary +- few ulps) for float and double, 3 styles "
                "+ constructed round/trunc arguments (integer + {0, 1/2, +-eps, +-ulp, ...}) x 4 rounding styles x 3 compare styles x 4 integer types; "
                "distinct = distinct case lines, non-trivial = not a classifier case and some operand after the first non-zero",
        "samples": [cases[i] for i in range(0, len(cases), max(1, len(cases) // 8))][:8],
        "op_distribution": dist, "oracle_verdicts": verdicts,
        "cmp_eq_true": eqtrue, "cmp_eq_false": eqfalse,
        "model_undefined_cases_not_compared": nub,
        "impl_model_disagreements": ndis, "oracle_rejections": nviol,
        "sanitizer_cases": len(idx), "sanitizer_disagreements": nsan, "exhaustive": False,
        "traces_validated_against_impl": len(cases) - nub,
    })
    ctx.assumptions += ["library axioms of the Flocq/Reals-based theorems (C17_cmp_algebra, C17_veq_conjunction, C17_eq_absolute_real_partial, C17_trunc_round, C17_trunc_plain, C17_round_plain), as printed by "
                        "Print Assumptions: ClassicalDedekindReals.sig_not_dec, ClassicalDedekindReals.sig_forall_dec, "
                        "FunctionalExtensionality.functional_extensionality_dep, Classical_Prop.classic; all other C17 theorems are closed under the global context",
                        "the model that is compared with the implementation is the code AFTER fixes/C17-1..3.patch (c17_binomial_fix, c17_round_fix, c17_trunc_fix: "
                        "C17_binomial_exact, C17_trunc_round); a tree without a fix is recognised through the as-found model (third output field of the driver) and "
                        "reported under the known-finding entry; the Euclid loop of the fixed binomial is modelled literally (C17_euclid_gcd)",
                        "x86-64 SSE2 arithmetic: each C++ floating operation is one IEEE round-to-nearest-even operation (no x87 excess precision, no FMA contraction)",
                        "operands are transported as bit patterns (memcpy), results of comparisons as booleans",
                        "long double (x87 extended) IS instantiated: transported as 80-bit patterns, compared bit-exactly with the Flocq model at (prec, emax) = (64, 16384) "
                        "(C17_cmp_algebra_x87, C17_trunc_round_x87, C17_default_eps_x87); assumes the default x87 precision control (64-bit significand)",
                        "cases the model calls undefined behaviour (signed overflow, division by zero, out-of-range float->int cast) are judged by the oracle only"]


def replay(ctx, path):
    rep = json.load(open(path))
    case = rep["case"]
    model, impl, _ = build(ctx, san=False)
    io = V.run_cases(ctx, [impl], [case], tag="rimpl", timeout=60)
    mo = run_model(ctx, model, [case], io, tag="rmodel")
    print("case   :", case); print("decoded:", describe(case))
    print("impl   :", io[0]); print("model  :", mo[0][0], "(as found: %s)" % mo[0][2]); print("oracle :", mo[0][1])
    return 1 if mo[0][1].startswith("BAD") else 0
