"""C18 -- path and string utilities (DESIGN.md section 4, C18).

Replay smoke test:  bin/check C18 --replay corpus/C18/replay_smoke.json   (see the note inside that file:
accepts / exit 0 on the unchanged tree, `not-normal-form` / exit 1 with mutants/C18/m1_no_backup_after_erase.patch applied).
"""
import os, sys, re, itertools, json
import vcheck as V

META = {
    "level": "proof",
    "technique": "Coq proof (literal list-ascii model of path.cc/stringutility.hh refines the component stack-machine spec, "
                 "all strings) + extracted-model vs C++ differential correspondence, exhaustive over a 4-letter path alphabet, "
                 "with the extracted spec as oracle on the impl's own output",
    "text": "Theorems in coq/Properties_C18.v, all for ALL strings over all characters (no bounded sweeps): C18_bridge (processPath p = rendering of the "
            "denotation of p; the literal index-based /../ loop is proved equal to the component stack machine), C18_pass_invariants (the assertions "
            "written as comments between the passes), C18_normal_form, C18_normal_form_fixpoint, C18_denote, C18_denote_iff_same_sanitised, C18_idempotent, "
            "C18_abs_never_escapes, C18_terminates (fuel |p|+2); C18_pretty, C18_pretty_trailing_slash, C18_pretty_denote, C18_isdir, C18_concat, "
            "C18_concat_sanitized (documented tables + denotational meaning); C18_relative_inverse, C18_relative_roundtrip, C18_relative_errors "
            "(inverse law, normal form of the result, exact error condition and exception texts re-read from path.cc); C18_prefix_suffix(_cstring); "
            "C18_format, C18_format_boundary, C18_format_error, C18_format_any_buffer (every expansion length, buffer size re-read from the source); "
            "C18_oracles_exact (the executable oracles are exactly the stated predicates); the header's example tables as Example C18_doc_tables.  "
            "No partial theorems.  The model is tied to dune/common/path.cc and stringutility.hh on every run by running the extracted model and "
            "the C++ functions on identical inputs (all strings over {/,.,a,b} up to length 7/8, all pairs up to length 4/5, name-pool pairs (lib/lib64), "
            "seeded long paths with arbitrary bytes, format lengths around the buffer size, exception payloads) and judging the C++ output with the extracted spec.",
    "note": "Trusted: Coq kernel, extraction, OCaml driver, C++ harness, g++/libstdc++ std::string, snprintf "
            "(contract: returns the full expansion length and stores the first n-1 characters).",
    "design_ref": "DESIGN.md section 4 C18",
}

ALPHA = "/.ab"
HARNESS = os.path.join(V.VERIF, "harness/C18/impl.cc")
REPO_SRCS = V.REPO_CC_DEFAULT + ["dune/common/path.cc"]


def esc(s):
    return ":" + "".join(c if ("!" <= c <= "~" and c != "%") else "%%%02X" % ord(c) for c in s)


def unesc(t):
    return re.sub(r"%([0-9A-Fa-f]{2})", lambda m: chr(int(m.group(1), 16)), t[1:])


def params_hook(ctx):
    V.sh([sys.executable, os.path.join(V.VERIF, "tools", "extract_params.py"), ctx.repo], check=True)


def bufsize():
    try:
        rep = json.load(open(os.path.join(V.VERIF, "build", "params_report.json")))
        return int(rep["c18_param_format_buffer"]["value"])
    except Exception:
        return 1000


def strings_upto(n, alpha=ALPHA):
    for l in range(n + 1):
        for t in itertools.product(alpha, repeat=l):
            yield "".join(t)


UNARY = ["process", "pretty0", "pretty1", "prettyauto", "isdir"]


def unary_cases(p):
    e = esc(p)
    return ["process " + e, "pretty %s 0" % e, "pretty %s 1" % e, "prettyauto " + e, "isdir " + e]


COMP_POOL = ["", "", ".", ".", "..", "..", "..", "a", "b", "a", "b", "c", "..a", "a..", "...", ".a", "a.", "x.y", "dir",
             "-", "a b", "%41", "\t", "..\x01", "\xe4", "....", ". ", " ..", "lib", "lib64", "li", "lib", "usr", "us", "\x00", "a\x00b", "..\x00", "\"", "x\"y", "]: "]
# component names that are prefixes of one another (character-level common prefix ends inside a component)
NAME_POOL = ["lib", "lib64", "li", "..", "."]
CONTAINERS = ["vec", "list", "sv", "deque", "vsc", "pmr"]


def rand_path(rng, maxc=10):
    n = rng.randrange(0, maxc + 1)
    cs = [rng.choice(COMP_POOL) for _ in range(n)]
    z = rng.random()
    if z < 0.25 and cs:
        # bias: pattern  x/x/../../..  (pops right after a collapse)
        k = rng.randrange(len(cs) + 1)
        cs[k:k] = ["a"] * rng.randrange(1, 4) + [".."] * rng.randrange(1, 5)
    s = "/".join(cs)
    if rng.random() < 0.4:
        s = "/" + s
    if rng.random() < 0.3:
        s = s + "/"
    return s


def fmt_cases(ctx, rng):
    """format <fmt> <kind> <arg> <expansion>: the expansion is computed here with Python's % operator
    (same semantics as C printf for the conversions used) and handed to the model as snprintf's result."""
    B = bufsize()
    cases = []
    lens = sorted(set([0, 1, 2, 10, B - 3, B - 2, B - 1, B, B + 1, B + 2, 2 * B - 1, 2 * B, 2 * B + 1, 5 * B] +
                      [rng.randrange(0, 3 * B) for _ in range(6 if ctx.quick else 60)]))
    for L in lens:
        if L < 0:
            continue
        a = "".join(rng.choice("xyz/. %") for _ in range(L))
        cases.append("format %s s %s %s" % (esc("%s"), esc(a), esc("%s" % a)))
        if L >= 3:
            b = a[:L - 3]
            cases.append("format %s s %s %s" % (esc("<%s>\n"), esc(b), esc("<%s>\n" % b)))
        if L >= 1:
            f = "%%%dd" % L
            v = rng.choice([0, 7, -7, 2147483647, -2147483648, rng.randrange(-10**6, 10**6)])
            if len(f % v) == L:
                cases.append("format %s d %d %s" % (esc(f), v, esc(f % v)))
            f = "%%-%ds|" % (L - 1) if L >= 2 else None
            if f:
                cases.append("format %s s %s %s" % (esc(f), esc("ab"), esc(f % "ab")))
        if L >= 8:
            # "%s%d" with the string filling up to the boundary
            v = rng.randrange(10, 99)
            b = a[:L - 2].replace(",", ";")
            cases.append("format %s sd %s %s" % (esc("%s%d"), esc(b + "," + str(v)), esc("%s%d" % (b, v))))
        if L >= 10:
            f = "%%.%df" % (L - 2)
            v = rng.choice(["0.5", "0.25", "1.0", "0.125", "3.0"])
            ex = f % float(v)
            if len(ex) == L:
                cases.append("format %s f %s %s" % (esc(f), v, esc(ex)))
    # further argument kinds / several arguments / the error path
    def pyfmt(f):
        return f.replace("ll", "").replace("z", "").replace("lu", "u")
    for f, k, v in [("%lld", "lld", -2**63), ("%lld", "lld", 2**63 - 1), ("%20lld|", "lld", 42), ("%lu", "lu", 2**64 - 1), ("%zu", "zu", 0),
                    ("%zu", "zu", 2**64 - 1), ("%c", "ch", 122), ("[%c]", "ch", 37)]:
        ex = pyfmt(f) % (chr(v) if k == "ch" else v)
        cases.append("format %s %s %d %s" % (esc(f), k, v, esc(ex)))
    for L in [0, 1, B - 12, B - 11, B - 10, B - 9, 3 * B]:
        w = max(L, 1)
        f = "%%%d.2f:%%d" % w
        ex = f % (2.5, -17)
        cases.append("format %s fd %s %s" % (esc(f), esc("2.5,-17"), esc(ex)))
        f = "%%s=%%0%dd;%%s" % w
        ex = f % ("key", 12, "tail")
        cases.append("format %s sds %s %s" % (esc(f), esc("key,12,tail"), esc(ex)))
    # the format string's own buffer as argument (stack and heap path), further promoted / wide argument types, five arguments
    for n in [0, 3, B // 2 - 3, B // 2 - 2, B // 2 - 1, B // 2, B]:
        f = "%s|" + "x" * n
        cases.append("format %s s@ - %s" % (esc(f), esc(f % f)))
    for f, k, v in [("%hd", "hd", -32768), ("%hd|%%", "hd", 32767), ("%hu", "hu", 65535), ("%d", "b", 1), ("%d", "b", 0)]:
        cases.append("format %s %s %d %s" % (esc(f), k, v, esc(f.replace("h", "") % v)))
    for f, k, v in [("%.3f", "f32", "0.5"), ("%g", "f32", "1.5"), ("%.2Lf", "Lf", "2.5"), ("%Lg", "Lf", "1e100")]:
        if k:
            cases.append("format %s %s %s %s" % (esc(f), k, v, esc(f.replace("L", "") % float(v))))
    for w in [1, B - 9, B - 8, B - 7]:
        f = "%%d,%%d,%%d,%%d,%%%dd" % w
        ex = f % (1, -2, 3, -4, 5)
        cases.append("format %s i5 %s %s" % (esc(f), esc("1,-2,3,-4,5"), esc(ex)))
    # sizes where a narrower size type would wrap (16 bit): 32767/32768, 65535/65536
    for L in ([32767, 32768, 65535, 65536, 70000] if not ctx.quick else [32768, 65536]):
        a = "q" * L
        cases.append("format %s s %s %s" % (esc("%s"), esc(a), esc(a)))
    # a wide character that cannot be converted in the "C" locale: snprintf returns a negative value
    cases.append("format %s lc %d !" % (esc("%lc"), 0x20AC))
    cases.append("format %s lc %d !" % (esc("abc%lcdef"), 0x10FFFF))
    cases.append("format %s lc %d %s" % (esc("%lc"), 65, esc("A")))
    for f, k, v in [("%d", "d", 0), ("%5d|%-5d|", None, None), ("%x", "u", 255), ("%08.3f", "f", "3.14159"), ("%e", "f", "12345.678"),
                    ("%g", "f", "0.0001"), ("%ld", "ld", -2**62), ("%c", "c", 65), ("%%", "none", None), ("plain text", "none", None),
                    ("", "none", None), ("%u", "u", 4294967295), ("%+d", "d", 5), ("%o", "u", 8), ("%10.4s|", "s", "abcdefgh")]:
        if k is None:
            continue
        if k == "none":
            cases.append("format %s none - %s" % (esc(f), esc(f % ())))
        elif k == "f":
            cases.append("format %s f %s %s" % (esc(f), v, esc(f % float(v))))
        elif k == "s":
            cases.append("format %s s %s %s" % (esc(f), esc(v), esc(f % v)))
        elif k == "c":
            cases.append("format %s c %d %s" % (esc(f), v, esc(f % chr(v))))
        else:
            cases.append("format %s %s %d %s" % (esc(f), k, v, esc(f % v)))
    return cases


def gen(ctx):
    quick = ctx.quick
    cases = []
    cp = os.path.join(V.VERIF, "corpus", "C18", "cases.txt")
    if os.path.exists(cp):
        cases += [l.strip() for l in open(cp) if l.strip() and not l.startswith("#")]
    ncorpus = len(cases)
    # exhaustive unary
    L1 = 7 if quick else 8
    for p in strings_upto(L1):
        cases += unary_cases(p)
    # exhaustive pairs
    L2 = 4 if quick else 5
    ss = list(strings_upto(L2))
    es = [esc(s) for s in ss]
    for a in es:
        for b in es:
            cases.append("concat %s %s" % (a, b))
            cases.append("relpath %s %s" % (a, b))
    L3 = 4
    es3 = [esc(s) for s in strings_upto(L3, "/.a")]
    for a in es3:
        for b in es3:
            cases.append("prefix %s %s" % (a, b))
            cases.append("suffix %s %s" % (a, b))
    # exhaustive pairs of paths with up to 3 (thorough: 4) components from NAME_POOL, same absoluteness
    L4 = 3 if quick else 4
    npaths = ["/".join(t) for l in range(L4 + 1) for t in itertools.product(NAME_POOL, repeat=l)]
    for lead in ("", "/"):
        ps = [esc(lead + q) for q in npaths]
        for a in ps:
            for b in ps:
                cases.append("relpath %s %s" % (a, b))
    for q in npaths:
        cases += unary_cases(q) + unary_cases("/" + q + "/")
    # other character containers for hasPrefix/hasSuffix, const char* arguments with an embedded NUL
    es5 = [esc(s) for s in strings_upto(3, "/.a")]
    for k in CONTAINERS:
        for a in es5:
            for b in es5:
                cases.append("prefix_%s %s %s" % (k, a, b))
                cases.append("suffix_%s %s %s" % (k, a, b))
    for k in [""] + ["_" + c for c in CONTAINERS]:
        for a, b in [("ab", "a\x00zz"), ("ab", "\x00"), ("", "\x00a"), ("a\x00b", "a"), ("a\x00b", "b"), ("ab", "b\x00b"), ("a\x00", "a\x00")]:
            cases.append("prefix%s %s %s" % (k, esc(a), esc(b)))
            cases.append("suffix%s %s %s" % (k, esc(a), esc(b)))
    # ALIASING and ASSIGN-BACK: one object bound to both parameters, result assigned to an argument,
    # const char* pointing into the container's own buffer, the format string as its own %s argument
    for p in strings_upto(5 if quick else 6):
        e = esc(p)
        cases += ["concat@ %s %s" % (e, e), "concat= %s %s" % (e, e), "relpath@ %s %s" % (e, e),
                  "process= " + e, "pretty= %s 1" % e, "pretty= %s 0" % e, "prettyauto= " + e]
        for k in range(len(p) + 1):
            cases.append("prefix@ %s %s %d" % (e, esc(p[k:]), k))
            cases.append("suffix@ %s %s %d" % (e, esc(p[k:]), k))
    for a in es[:341]:
        for b in es[:85]:
            cases.append("concat=base %s %s" % (a, b))
            cases.append("concat=p %s %s" % (a, b))
            cases.append("relpath=p %s %s" % (a, b))
    # seeded long paths
    rng = ctx.rng("gen")
    N = 1500 if quick else 30000
    for _ in range(N):
        p = rand_path(rng)
        cases += unary_cases(p)
    for _ in range(N):
        z = rng.random()
        a = rand_path(rng, 7)
        if z < 0.5:
            # related pair: common prefix, then diverge
            pre = rand_path(rng, 4)
            b = pre + "/" + rand_path(rng, 4).lstrip("/")
            a = pre + rng.choice(["/", "//", "/./", ""]) + rand_path(rng, 4).lstrip("/")
        elif z < 0.6:
            b = a
        else:
            b = rand_path(rng, 7)
            if rng.random() < 0.7 and a.startswith("/") != b.startswith("/"):
                b = ("/" + b) if a.startswith("/") else b.lstrip("/")
        cases.append("relpath %s %s" % (esc(a), esc(b)))
        cases.append("concat %s %s" % (esc(a), esc(b)))
        x = rng.choice([a[:rng.randrange(len(a) + 1)], a[rng.randrange(len(a) + 1):], b[:3], "/", "..", ""])
        k = rng.choice(["", "_vec", "_list", "_sv", "_deque", "_vsc", "_pmr"])
        cases.append("prefix%s %s %s" % (k, esc(a), esc(x)))
        cases.append("suffix%s %s %s" % (k, esc(a), esc(x)))
    # BOUNDARIES: results around the small-string size of std::string (15/16) and long inputs
    for n in range(12, 20):
        for p in ["a" * n, "/" + "a" * (n - 1), "a" * (n - 3) + "/..", "ab/" + "c" * (n - 3), "../" * (n // 3) + "x" * (n % 3), "/" * n, "./" * (n // 2)]:
            cases += unary_cases(p)
            cases.append("concat %s %s" % (esc(p[:n // 2]), esc(p[n // 2:])))
            cases.append("relpath %s %s" % (esc(p), esc(p[:n // 2])))
            cases.append("process= " + esc(p))
    big = 400 if quick else 2000
    for p in ["/".join(["a"] * big + [".."] * big), "/".join(["a"] * big + [".."] * (big + 7)), "/" + "/".join([".."] * big),
              "/" * (3 * big), "./" * big + "a", "/".join(["ab", ".."] * big) + "/c", "x" * (5 * big), "/".join(["d%d" % i for i in range(big)])]:
        cases += unary_cases(p)
        cases.append("relpath %s %s" % (esc(p), esc("a/b")))
        cases.append("relpath %s %s" % (esc("/".join(["a"] * big)), esc(p)))
        cases.append("concat@ %s %s" % (esc(p), esc(p)))
    cases += fmt_cases(ctx, rng)
    return cases, ncorpus, (L1, L2, L3, N, L4)


def nontrivial(case):
    t = case.split()
    if t[0] == "format":
        return t[4] == "!" or len(unesc(t[4])) >= bufsize() - 2
    args = [unesc(x) for x in t[1:] if x.startswith(":")]
    if t[0] in ("prefix@", "suffix@"):
        return len(unesc(t[1])) > 0
    if t[0].startswith("prefix") or t[0].startswith("suffix"):
        return len(args) == 2 and len(args[1]) > 0 and len(args[0]) >= len(args[1])
    for a in args:
        cs = a.split("/")
        if any(c in (".", "..") for c in cs) or "//" in a:
            return True
    return False


def sig_of(case, verdict):
    t = case.split()
    op = t[0]
    what = verdict.split(":")[0]
    return "C18:%s:%s" % (op, what)


def build(ctx, san=False):
    jobs = [dict(srcs=[HARNESS], out=ctx.path("impl"), repo_srcs=REPO_SRCS, opt="-O2")]
    if san:
        jobs.append(dict(srcs=[HARNESS], out=ctx.path("impl_san"), repo_srcs=REPO_SRCS, san=True))
    return V.cxx_many(ctx, jobs)


def run_pair(ctx, model, impl, cases, tag):
    io = V.run_cases(ctx, [impl], cases, tag="impl" + tag, timeout=120 if ctx.quick else 900)
    implout = ctx.path("implout" + tag)
    with open(implout, "w") as f:
        f.write("\n".join(io) + "\n")
    mo = V.run_cases(ctx, [model, implout], cases, tag="model" + tag, timeout=600 if ctx.quick else 1800)
    return io, mo


def run(ctx):
    ctx.params_hook = params_hook
    V.coq_stage(ctx)
    model = V.build_model(ctx)
    impl, impl_san = build(ctx, san=True)
    cases, ncorpus, (L1, L2, L3, N, L4) = gen(ctx)
    ctx.log("generated %d cases" % len(cases))
    io, mo = run_pair(ctx, model, impl, cases, "")
    ctx.log("impl and model ran")
    sub = list(range(0, len(cases), 23 if ctx.quick else 11))
    # all format cases go through the sanitizer build (stack buffer / heap retry)
    sub = sorted(set(sub) | set(i for i, c in enumerate(cases) if c.startswith("format")))
    so = V.run_cases(ctx, [impl_san], [cases[i] for i in sub], tag="san", timeout=300 if ctx.quick else 1200,
                     env={"ASAN_OPTIONS": "detect_leaks=0"})
    ndis = nviol = 0
    ops, verdicts, best, corr = {}, {}, {}, []
    nt = set()
    if len(io) != len(cases) or len(mo) != len(cases):
        ctx.violation("corr:C18/length", {"broken": "corr:C18/streams", "detail": "cases=%d impl=%d model=%d" % (len(cases), len(io), len(mo))},
                      found_input=False)
    for c, m, a in zip(cases, mo, io):
        op = c.split(" ", 1)[0]
        ops[op] = ops.get(op, 0) + 1
        mm, _, verdict = m.partition(" | ")
        if verdict != "ok":
            nviol += 1
            key = verdict.split(":")[0]
            verdicts[key] = verdicts.get(key, 0) + 1
            sig = sig_of(c, verdict)
            # cheap minimisation: per signature keep the shortest failing case of the whole batch
            if sig not in best or len(c) < len(best[sig]["case"]):
                best[sig] = {"case": c, "args": [unesc(x) for x in c.split()[1:] if x.startswith(":")],
                             "impl": a, "model": mm, "oracle": verdict, "replay_cmd": "bin/check C18 --replay <this file>"}
        elif a != mm:
            ndis += 1
            if ndis <= 50:
                corr.append(("corr:C18/%s" % op, {"broken": "corr:C18/%s" % op, "case": c, "impl": a, "model": mm,
                                                   "oracle": "accepts impl output"}))
        if mm.startswith("OUTOFFUEL") or mm.startswith("MODEL-ERROR") or mm == "UNKNOWN-OP":
            ctx.violation("corr:C18/model:%s" % mm.split()[0], {"broken": "model run", "case": c, "model": mm}, found_input=False)
    for sig in sorted(best):
        ctx.violation(sig, best[sig])
    for sig, rep in corr:
        ctx.violation(sig, rep, found_input=False)
    for j, i in enumerate(sub):
        if j < len(so) and so[j] != io[i]:
            ctx.violation("C18:%s:sanitizer" % cases[i].split()[0], {"case": cases[i], "impl": io[i], "impl_sanitized_build": so[j],
                                                                  "oracle": "ASan/UBSan build behaves differently or aborts"})
    distinct = set(cases)
    ntc = sum(1 for c in distinct if nontrivial(c))
    B = bufsize()
    ctx.coverage.update({
        "evaluations": len(cases), "distinct_nontrivial": ntc,
        "rule": "cases = corpus (documented tables, pathtest.cc) + ALL strings over {'/','.','a','b'} of length <= %d x {processPath (+ second application), "
                "prettyPath(.,0), prettyPath(.,1), prettyPath(.), pathIndicatesDirectory} + ALL pairs of such strings of length <= %d x {concatPaths, relativePath} "
                "+ all pairs over {'/','.','a'} of length <= %d x {hasPrefix, hasSuffix} (std::string; length <= 3 also for vector/list/deque<char> and string_view, "
                "plus const char* arguments with an embedded NUL) + ALL same-absoluteness pairs of paths with <= %d components from {lib, lib64, li, .., .} x relativePath + %d seeded long paths / related pairs from a component pool "
                "(incl. '..a', '...', blanks, control and 8-bit characters) + formatString expansions of lengths around the buffer size %d; "
                "+ aliasing/assign-back forms (one object in both roles, result assigned to an argument, const char* into the container's own buffer, format string as its own argument) for all strings <= 5/6 "
                "+ results around the small-string size and long inputs + 16-bit-wrap format lengths; every case is executed twice (determinism) and the arguments are checked to be untouched; "
                "non-trivial = some path argument has a '.', '..' or empty inner component (normalisation has work to do) / the suffix-prefix argument is "
                "non-empty and not longer than the string / the format expansion is >= bufferSize-2 long; distinct = distinct case lines" % (L1, L2, L3, L4, N, B),
        "samples": cases[:3] + cases[ncorpus + 40000: ncorpus + 40003] + cases[len(cases) // 2: len(cases) // 2 + 2] + cases[-400:-398] + [c[:120] for c in cases[-2:]],
        "op_distribution": ops, "impl_model_disagreements": ndis, "oracle_rejections": nviol, "oracle_rejection_kinds": verdicts,
        "sanitizer_cases": len(sub), "exhaustive": False,
        "exhaustive_scopes": {"unary_alphabet": ALPHA, "unary_maxlen": L1, "pair_maxlen": L2, "prefix_suffix_maxlen": L3},
        "format_buffer_size_from_source": B,
        "traces_validated_against_impl": len(cases),
    })
    ctx.assumptions += ["std::snprintf contract (returns the length of the full expansion, stores its first n-1 characters and a NUL)",
                        "format expansions handed to the model are computed by Python's % operator (same as C printf for %s %d %u %x %o %f %e %g %c with flags/width/precision)",
                        "std::string::find/erase/substr/resize have their documented meaning (modelled by list functions)",
                        "exception messages are observed through what() (a C string: compared up to the first NUL), after the 'Class [function:file:line]: ' prefix that DUNE_THROW adds"]


def replay(ctx, path):
    rep = json.load(open(path))
    case = rep["case"]
    model = V.build_model(ctx)
    impl, = build(ctx)
    io, mo = run_pair(ctx, model, impl, [case], "-replay")
    mm, _, verdict = mo[0].partition(" | ")
    print("case  :", case)
    print("impl  :", io[0])
    print("model :", mm)
    print("oracle:", verdict if verdict != "ok" else "accepts")
    return 1 if verdict != "ok" else 0
