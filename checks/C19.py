"""C19 — failures are agreed on by all processes; futures deliver exactly once (DESIGN.md section 4, C19)."""
import os, sys, re, json, itertools, time, subprocess
import vcheck as V

META = {
    "level": "proof",
    "technique": "Coq proof (MPIGuard: lock-step collective semantics of per-process guard scripts, agreement for all process counts / "
                 "section sequences / failure assignments; futures: state machine over all interleavings of member calls and the "
                 "completion event refines an exactly-once acceptor) + extracted model/spec vs the C++ classes under mpirun "
                 "(P=1..4, 7 communicator kinds, 8 non-blocking operations x 5 payload kinds x call orders) differential correspondence",
    "text": "Theorems in coq/Properties_C19.v: for every communicator size, every sequence of guarded sections and every assignment of "
            "{ok, throws, reports failure} to processes and sections, all processes leave the scope in the first failing section - the "
            "throwing ones with their exception, all others with MPIGuardError at that section's checkpoint - nobody throws when nobody "
            "fails, every process issues exactly one collective per section reached (no deadlock), also with an initially inactive and "
            "re-armed guard; for every history of valid/ready/wait/get calls interleaved with the completion event the future model's "
            "trace is accepted by the exactly-once specification (refuted for the unfixed MPIFuture<void>::get).  The model is tied to "
            "mpiguard.hh / mpifuture.hh / future.hh on every run by executing the same scripts on the real classes under mpirun.",
    "note": "Trusted: Coq kernel, extraction, OCaml driver, C++ harness, OpenMPI (collective/request semantics as specified; "
            "independence of disjoint communicators), the data each collective delivers (C19_Spec.c19_spec_data, cf. C07).",
    "design_ref": "DESIGN.md section 4 C19",
}

SRC = os.path.join(V.VERIF, "harness/C19/impl.cc")
GKINDS = ["H", "M", "C", "W", "S", "T", "N", "X", "R", "D", "h", "m", "c", "w", "n"]   # lower case: constructor called without the `active` argument
OPS_M = [(op, p) for op in ["isend", "irecv", "ibcast", "igather", "iscatter", "iallgather", "iallreduce", "iallreduce1"] for p in "ijvw"] + \
        [(op, p) for op in ["isend", "irecv", "ibcast", "iallreduce1"] for p in "qLl"] + [(op, p) for op in ["isend", "irecv", "ibcast"] for p in "Fs"] + \
        [("isend", "e"), ("ibcast", "e")] + \
        [("ibarrier", "0"), ("default", "i"), ("default", "v"), ("default", "0"), ("mkvalid", "i"), ("mkvalid", "v"), ("mkvalid", "0"),
         ("efuture", "i"), ("efuture", "0")]
HAS_SEND = ("igather", "iscatter", "iallgather", "iallreduce")            # futures with a send buffer: get_send_data()
SEND_ORDERS = ["d", "dg", "gd", "vdvg", "rdr", "wdg", "dwv", "gdg"]      # get_send_data at most once (twice is undefined: *nullptr)
ASSIGN_ORDERS = ["a", "av", "ag", "ga", "wag", "ama", "vagg", "raw"]
# ready() on the TARGET of a move construction (M) / move assignment into a default-constructed future (A); self move assignment (S)
TARGET_ORDERS = ["M", "Mg", "MMg", "rMwM", "MgM", "SMg", "S", "SgS", "vSrSg", "wSg"]
TARGET_ASSIGN_ORDERS = ["A", "Ag", "AMg", "rAwA", "SAg"]
RENEW_ORDERS = ["gn", "gng", "gnvrwg", "wgngg", "gnSg", "gnMg"]           # the consumed future object receives a new operation
COLLECTIVES = ("ibcast", "igather", "iscatter", "iallgather", "iallreduce", "iallreduce1", "ibarrier")
OPS_N = [("ibcast", "i"), ("ibcast", "j"), ("ibcast", "v"), ("ibcast", "w"), ("igather", "i"), ("iscatter", "i"), ("iallgather", "i"), ("ibcast", "q"),
         ("iallreduce1", "i"), ("iallreduce1", "j"), ("iallreduce1", "v"), ("iallreduce1", "w"), ("iallreduce", "i"), ("iallreduce", "j"), ("iallreduce", "v"), ("iallreduce", "w"), ("ibarrier", "0"),
         ("default", "i"), ("default", "0")]


# ----------------------------------------------------------------------------- generator
def color_patterns(P):
    """colourings of P ranks with colours 0/1, rank 0 has colour 0 (split communicators)"""
    return ["0" + "".join(t) for t in itertools.product("01", repeat=P - 1)]


def script_of(act, outs):
    """python side of c19_script (cross-checked against the Coq definition by the model driver)"""
    return ("" if act else "r") + "r".join({"o": "s", "t": "t", "f": "f"}[o] for o in outs)


def guard_programs(P, S_max, rng, sample=None):
    """structured programs: (k-1) clean sections, then every non-empty failure assignment, then arbitrary (never reached) sections"""
    progs = []
    assigns = ["".join(t) for t in itertools.product("otf", repeat=P) if set(t) != {"o"}]
    for S in range(1, S_max + 1):
        progs.append(["o" * S] * P)
        for k in range(S):
            for a in assigns:
                progs.append([("o" * k) + a[r] + "".join(rng.choice("otf") for _ in range(S - k - 1)) for r in range(P)])
    if sample is not None and len(progs) > sample:
        progs = rng.sample(progs, sample)
    return progs


def gen_guard(ctx, P):
    rng = ctx.rng("guard", P)
    q = ctx.quick
    S_max = 3 if q else 4
    cases = []
    for kind in GKINDS:
        if kind in "ST":
            cols = color_patterns(P)
        elif kind in "NXn":
            cols = ["".join(str(i) for i in range(P))]
        else:
            cols = ["0" * P]
        for col in cols:
            for act in ((1,) if kind.islower() else (1, 0)):
                full = kind in ("H", "W") or (kind == "S" and P <= 3)
                n = None if (full or not q) else (60 if kind in "ST" else 150)
                if not q and kind in "ST" and P >= 4:
                    n = 400 if P == 4 else 120
                if not q and P >= 5 and kind not in "ST":
                    n = 4000 if kind == "H" else 1500
                for outs in guard_programs(P, S_max, rng, n):
                    cases.append("G %d %s %d %s S %s %s" % (P, kind, act, col, ",".join(outs), ",".join(script_of(act, o) for o in outs)))
    # unstructured scripts (kept only where the model predicts no deadlock; see run())
    nun = 400 if q else 3000
    for _ in range(nun):
        kind = rng.choice(["H", "C", "W", "S", "N", "X", "h", "w"])
        col = rng.choice(color_patterns(P)) if kind == "S" else ("".join(str(i) for i in range(P)) if kind in "NX" else "0" * P)
        act = 1 if kind.islower() else rng.choice([1, 1, 0])
        if rng.random() < 0.6:
            # same shape on every rank, outcomes vary
            shape = "".join(rng.choice("xxr") for _ in range(rng.randrange(0, 5)))
            scripts = ["".join(rng.choice("sssft") if c == "x" else "r" for c in shape) for _ in range(P)]
        else:
            scripts = ["".join(rng.choice("sftr") for _ in range(rng.randrange(0, 4))) for _ in range(P)]
        cases.append("G %d %s %d %s U - %s" % (P, kind, act, col, ",".join(s or "-" for s in scripts)))
    return cases


def gen_guard_composed(ctx, P):
    """sequential scopes (no synchronisation between them) and nested guards (inner: split communicators, outer: world)"""
    rng = ctx.rng("guard2", P)
    q = ctx.quick
    cases = []
    pool = guard_programs(P, 3, rng)
    for _ in range(250 if q else 2500):
        kind = rng.choice(["H", "W", "C", "S", "T", "X", "N", "M"])
        col = rng.choice(color_patterns(P)) if kind in "ST" else ("".join(str(i) for i in range(P)) if kind in "NX" else "0" * P)
        nsc = rng.choice([2, 2, 3, 4])
        acts = "".join(rng.choice("110") for _ in range(nsc))
        progs = [rng.choice(pool) if rng.random() < 0.8 else ["o" * rng.randrange(1, 4)] * P for _ in range(nsc)]
        outs = [";".join(progs[j][r] for j in range(nsc)) for r in range(P)]
        scr = [";".join(script_of(acts[j] == "1", progs[j][r]) for j in range(nsc)) for r in range(P)]
        cases.append("Q %d %s %s %s %s %s" % (P, kind, acts, col, ",".join(outs), ",".join(scr)))
    cols = color_patterns(P)
    for S in (1, 2, 3):
        progs = guard_programs(P, S, rng)
        progs = [pr for pr in progs if len(pr[0]) == S]
        per = max(1, (40 if q else 400) // max(1, len(cols)))
        for col in cols:
            for outs in (progs if (P <= 2 or (not q and P <= 3 and S <= 2)) else rng.sample(progs, min(per, len(progs)))):
                cases.append("N %d %s %d %s %s" % (P, col, S, ",".join(outs), ",".join(script_of(True, o) for o in outs)))
    for S in (1, 2):      # inner and outer guard on the SAME communicator
        progs = [pr for pr in guard_programs(P, S, rng) if len(pr[0]) == S]
        for outs in (progs if (q and P <= 2) or (not q and P <= 3) else rng.sample(progs, min(30 if q else 300, len(progs)))):
            cases.append("O %d %s %d %s %s" % (P, "0" * P, S, ",".join(outs), ",".join(script_of(True, o) for o in outs)))
    return cases


def all_orders(maxlen, alphabet="vrwg"):
    return ["".join(t) for n in range(1, maxlen + 1) for t in itertools.product(alphabet, repeat=n)]


def multiset_orders():
    """call orders drawn from the multiset {valid, ready, wait, get, get}, length <= 5"""
    res = set()
    for n in range(1, 6):
        for t in itertools.permutations("vrwgg", n):
            res.add("".join(t))
    return sorted(res)


MOVE_ORDERS = ["m", "mv", "mg", "mwg", "vmg", "gm", "rmg", "mm", "wmgv", "gmv", "mgg"]


def dep_of(op, P, late, root):
    """ranks whose operation cannot complete before the late rank started it"""
    d = ["0"] * P
    for r in range(P):
        if r == late:
            continue
        if op in ("ibarrier", "iallreduce", "iallreduce1", "iallgather"):
            d[r] = "1"
        elif op in ("ibcast", "iscatter") and late == root:
            d[r] = "1"
        elif op == "igather" and r == root:
            d[r] = "1"
        elif op == "irecv" and r == (late + 1) % P:
            d[r] = "1"
    return "".join(d)


def gen_future(ctx, P):
    rng = ctx.rng("future", P)
    q = ctx.quick
    cases = []
    short = all_orders(3)
    full4 = all_orders(4)
    ms = multiset_orders()
    salt = [0]

    def add(fam, op, pay, wrap, late, order):
        salt[0] = (salt[0] + 1) % 90
        s = salt[0]
        root = s % (P if fam in "MR" else 1)
        if late == "auto":
            if op in ("ibcast", "iscatter"):
                late = root
            elif op == "igather":
                late = (root + 1) % P
            else:
                late = rng.randrange(P)
        dep = dep_of(op, P, late, root) if late >= 0 else "0" * P
        cases.append("F %d %s %s %s %s %d %d %s %s" % (P, fam, op, pay, wrap, s, late, dep, order))

    for (op, pay) in OPS_M:
        orders = set(["vrwgg", "g", "gg", "wg", "gv", "gw", "rg", "vgv"])
        if q:
            orders |= set(rng.sample(short, 30 if pay in "i0" else 14)) | set(rng.sample(ms, 16 if pay in "i0" else 8))
        else:
            orders |= set(full4) | set(ms)
        for o in sorted(orders):
            add("M", op, pay, "e" if rng.random() < 0.25 else "r", -1, o)
        # delayed start of one rank: `ready` must be false on the dependent ranks before it
        if P >= 2 and op not in ("default", "isend", "mkvalid", "efuture") and pay != "e":   # (an empty message depends on nobody)
            lo = ["r", "rr", "rvr", "rw", "rg", "rrg", "vrwg", "rgg", "rwr", "vrvg", "rrwr", "rgv"]
            for o in (rng.sample(lo, 5) if q else lo):
                add("M", op, pay, "r", "auto", o)
        for o in (rng.sample(MOVE_ORDERS, 3) if q else MOVE_ORDERS):
            add("M", op, pay, "r", -1, o)
        # moves of the type-erased wrapper (unique_ptr: the source is always emptied)
        if op != "efuture":
            for o in (rng.sample(MOVE_ORDERS + ASSIGN_ORDERS, 2) if q else MOVE_ORDERS + ASSIGN_ORDERS):
                add("M", op, pay, "e", -1, o)
        # move assignment (swap) where F is default-constructible: single-buffer futures by value / void
        if pay in "iv0qFL" and op not in HAS_SEND:
            for o in (rng.sample(ASSIGN_ORDERS, 3) if q else ASSIGN_ORDERS):
                add("M", op, pay, "r", -1, o)
        if op in HAS_SEND:
            for o in (rng.sample(SEND_ORDERS, 4) if q else SEND_ORDERS):
                add("M", op, pay, "e" if False else "r", -1, o)
    # dimension audit: target of moves, self assignment, re-use of the object, converting wrapper, reversed communicator
    for (op, pay) in OPS_M:
        if op == "efuture":
            continue
        for o in (rng.sample(TARGET_ORDERS, 3) if q else TARGET_ORDERS):
            add("M", op, pay, rng.choice("rre"), -1, o)
        if pay in "iv0qFLlse" and op not in HAS_SEND:
            for o in (rng.sample(TARGET_ASSIGN_ORDERS, 2) if q else TARGET_ASSIGN_ORDERS):
                add("M", op, pay, "r", -1, o)
        if P >= 2 and op not in ("default", "isend", "mkvalid") and pay != "e":
            for o in (["M", "rMM"] if q else ["M", "rMM", "MrMg", "MMwM"]) + (["A", "MA"] if (pay in "iv0qFLls" and op not in HAS_SEND) else []):
                add("M", op, pay, "r", "auto", o)      # before the late rank starts the TARGET must not be ready either
        if op in COLLECTIVES and not (op == "iallreduce1" and pay in "jw"):   # (in place by reference: the caller's variable already holds the first result)
            for o in (rng.sample(RENEW_ORDERS, 2) if q else RENEW_ORDERS):
                add("M", op, pay, rng.choice("rre"), -1, o)
        if pay in "jw0":
            for o in (rng.sample(short, 3) if q else rng.sample(short, 20)) + ["gg", "vgv", "mg", "ag"]:
                add("M", op, pay, "c", -1, o)
    for (op, pay) in [(op, p) for op in ["isend", "irecv", "ibcast", "igather", "iscatter", "iallgather", "iallreduce", "iallreduce1"] for p in "ijvw"] + [("ibarrier", "0")]:
        orders = set(["vrwgg", "g", "rg", "gg"]) | set(rng.sample(short, 6 if q else 40)) | set(rng.sample(MOVE_ORDERS + TARGET_ORDERS, 2 if q else 8))
        for o in sorted(orders):
            add("R", op, pay, "e" if rng.random() < 0.2 else "r", -1, o)
        if P >= 2 and op != "isend":
            for o in (["r", "rMg"] if q else ["r", "rr", "rMg", "rw", "vrvg", "MrM"]):
                add("R", op, pay, "r", "auto", o)
    if P <= (2 if q else 4):
        for (op, pay) in OPS_N:
            if pay not in "jw":
                # self move assignment of a PseudoFuture holding a std::vector falls under the standard library's "valid but
                # unspecified" rule for self-move (libstdc++ empties the vector): only scalar results are asked to survive it
                scalar = pay in "i0" and op not in ("igather", "iallgather")
                pool = [o for o in TARGET_ORDERS + RENEW_ORDERS if scalar or "S" not in o]
                for o in (rng.sample(pool, 3) if q else pool):
                    add("N", op, pay, rng.choice("rre"), -1, o)
    # documented refusals at the start of the operation
    for o in ("v", "g"):
        add("M", "irecv", "z", "r", -1, o)
        add("N", "isend", "i", "r", -1, o)
        add("N", "irecv", "i", "r", -1, o)
    if P <= (2 if q else 4):
        for (op, pay) in OPS_N:
            orders = set(["vrwgg", "g", "gg", "wg", "gv", "gw", "rg"]) | (set(rng.sample(short, 20)) if q else set(full4) | set(ms))
            for o in sorted(orders):
                add("N", op, pay, "e" if rng.random() < 0.25 else "r", -1, o)
            if pay not in "jw":   # PseudoFuture<T&> is not move-assignable: the harness cannot continue after a move
                for o in (rng.sample(MOVE_ORDERS + ASSIGN_ORDERS, 3) if q else MOVE_ORDERS + ASSIGN_ORDERS):
                    add("N", op, pay, "r", -1, o)
                for o in (rng.sample(MOVE_ORDERS + ASSIGN_ORDERS, 1) if q else MOVE_ORDERS + ASSIGN_ORDERS):
                    add("N", op, pay, "e", -1, o)
    return cases



# ----------------------------------------------------------------------------- several futures of one process / requests posted in MPI
X_DIRECTED = [
    "p0-p0-S-g0-x0", "p0-p0", "p0-p0-p0-S-g0", "p0-p0-S-w0-v0-g0-g0",            # move assignment onto a future whose operation is PENDING
    "p0-x0", "p0-x0-p1-S-g1", "p0-p1-x0-S-g1", "p0-p1-x1-S-g0",                     # destruction of a pending future
    "p0-c01-S-g1", "p0-c01-x0-S-g1", "p0-c01-x1-p0-S-g0", "p0-c01-v0-r1-S-g1-v1",  # move construction from a pending future
    "p0-p1-a01-S-g1-S-g0", "p0-p1-a01-x0-S-g1", "p0-p1-a10-x1-S-g0", "p0-p1-a00-S-g0-S-g1",   # assignment between two pending futures, self assignment
    "p0-S-g0-p0-S-g0", "p0-S-w0-p0-S-g0", "p0-S-g0-p0-p0-S-g0", "p0-S-g0-v0-x0",   # re-use after get() / after completion
    "p0-p1-p0-S-g1-S-g0", "p0-p1-p2-x1-S-g0-S-g2", "p0-c01-p0-S-g1-S-g0",          # matching order after re-posting
    "S-p0-g0-g0", "S-p0-p0", "S-S-p0-g0-p1-g1",                                    # message arrived before the receive was posted
    "q0-q0-g0", "q0-q0", "q0-x0", "q0-p0-S-g0", "p0-q0-g0-x0", "q0-c01-g1-v0", "q0-q1-a01-g1-g0",   # sends
    "p0-c01-a10-S-g0", "p0-c01-a01-v1", "p0-x0-x0-p0-S-g0-g0",
]


def x_random(rng, nslots, maxlen):
    """a random script that respects object lifetimes (which slots hold an object); blocking / racing ones are dropped by the model"""
    live, pend, out, msgs = set(), 0, [], 0
    for _ in range(rng.randrange(2, maxlen + 1)):
        ch = rng.choice("ppppqcaaxxvrwgggSSS")
        s = rng.randrange(nslots)
        if ch in "pq":
            out.append(ch + str(s)); live.add(s)
        elif ch == "c":
            free = [t for t in range(nslots) if t not in live]
            if s in live and free:
                t = rng.choice(free); out.append("c%d%d" % (s, t)); live.add(t)
        elif ch == "a":
            if s in live and len(live) >= 1:
                t = rng.choice(sorted(live)); out.append("a%d%d" % (s, t))
        elif ch == "x":
            if s in live:
                out.append("x%d" % s); live.discard(s)
        elif ch == "S":
            out.append("S")
            if live:
                out.append(rng.choice("gw") + str(rng.choice(sorted(live))))
        elif s in live:
            out.append(ch + str(s))
    return "-".join(out)


def gen_multi(ctx, P):
    rng = ctx.rng("multi", P)
    q = ctx.quick
    cases, salt = [], 0
    for pay in "ijvw":
        for wrap in "re":
            scripts = list(X_DIRECTED) + [x_random(rng, 3, 9) for _ in range(160 if q else (1500 if P <= 4 else 200))]   # (the scripts involve two ranks: large P adds only barrier time)
            for sc in scripts:
                if not sc:
                    continue
                salt = (salt + 1) % 90
                cases.append("X %d M multi %s %s %d 3 %d %s" % (P, pay, wrap, salt, salt % P, sc))
    return cases

# ----------------------------------------------------------------------------- running
def read_rank_outputs(prefix, P, sep):
    """merge out.<r> files: returns the lines of the cases ALL ranks completed"""
    cols = []
    for r in range(P):
        f = "%s.%d" % (prefix, r)
        ls = open(f, errors="replace").read().split("\n") if os.path.exists(f) else []
        if ls and ls[-1] == "":
            ls.pop()            # (an incomplete last line cannot occur: lines are written with one fprintf + fflush)
        cols.append(ls)
    n = min(len(c) for c in cols) if cols else 0
    return [sep(i).join(c[i] for c in cols) for i in range(n)]


def run_mpi(ctx, exe, P, cases, tag, alarm=20, budget=900, env_extra=None):
    """One launch per batch; every rank writes one line per case to its own file.  A launch that stops early (crash, watchdog) is
    attributed to the first case not completed by all ranks; that case is re-run ONCE ALONE with a 10x watchdog before it is
    recorded as HANG/CRASH (a deadlock must reproduce; machine load must not raise an alarm)."""
    res, start, restarts = [], 0, 0
    t_end = time.time() + budget

    def launch(cs, name, al, to):
        cf = ctx.path(name); of = cf + ".out"
        open(cf, "w").write("\n".join(cs) + "\n")
        for r in range(P):
            if os.path.exists("%s.%d" % (of, r)):
                os.remove("%s.%d" % (of, r))
        env = {"C19_ALARM": str(al), "OMPI_MCA_mpi_yield_when_idle": "1"}    # waiting ranks yield the CPU (shared, often overloaded machine)
        env.update(env_extra or {})
        rc, out = V.mpirun(P, exe, [cf, of], timeout=to, env=env)
        return rc, out, read_rank_outputs(of, P, lambda i: " | " if cs[i][0] in "FX" else "|")

    while start < len(cases):
        rc, out, lines = launch(cases[start:], "%s.P%d.cases.%d" % (tag, P, start), alarm, max(60, int(t_end - time.time())))
        need = len(cases) - start
        if rc == 0 and len(lines) >= need:
            res.extend(lines[:need]); break
        lines = lines[:need]
        res.extend(lines); start += len(lines)
        if start >= len(cases):
            break
        rc1, out1, l1 = launch([cases[start]], "%s.P%d.single" % (tag, P), alarm * 10, alarm * 10 + 120)   # 10x budget (DESIGN 2.4): load is not a verdict
        if rc1 == 0 and l1:
            res.append(l1[0])
            ctx.notes.append("case re-run alone succeeded after an interrupted launch (load?): %s" % cases[start])
        else:
            err = [l for l in (out1 or "").split("\n") if "ERROR" in l or "rror" in l or "Assertion" in l or "terminate" in l]
            res.append("HANG" if (rc1 == 86 or "C19-WATCHDOG" in (out1 or "") or rc1 == 124) else "CRASH(%d) %s" % (rc1, (err[0] if err else "")[:160]))
        start += 1; restarts += 1
        if res[-1] == "HANG":
            ctx.c19_hangs = getattr(ctx, "c19_hangs", 0) + 1
        if restarts > (10 if ctx.quick else 40) or time.time() > t_end or getattr(ctx, "c19_hangs", 0) >= (3 if ctx.quick else 8):
            res.extend(["NOT-RUN"] * (len(cases) - start)); break
    return res


def run_model(ctx, model, cases, impl=None, tag="model"):
    cf = ctx.path(tag + ".cases"); open(cf, "w").write("\n".join(cases) + "\n")
    cmd = [model, cf]
    if impl is not None:
        f = ctx.path(tag + ".implout"); open(f, "w").write("\n".join(impl) + "\n"); cmd.append(f)
    rc, out = V.sh(cmd, timeout=900)
    lines = out.split("\n")
    if lines and lines[-1] == "":
        lines.pop()
    if rc != 0 or len(lines) != len(cases):
        raise V.BuildError("model driver failed (rc=%s, %d lines for %d cases): %s" % (rc, len(lines), len(cases), out[-500:]))
    return [tuple(x.strip() for x in l.split(" ## ", 1)) if " ## " in l else (l, "-") for l in lines]


# ----------------------------------------------------------------------------- comparison / oracle
def guard_tokens(line):
    """per rank ('|'), per scope (';' sequential scopes), inner/outer ('/' nested guards)"""
    return [x.strip() for x in re.split(r"[|;/]", line)]


def guard_equal(impl, model):
    a, b = guard_tokens(impl), guard_tokens(model)
    if len(a) != len(b):
        return False
    for x, y in zip(a, b):
        ex, _, cx = x.partition(":"); ey, _, cy = y.partition(":")
        if ex != ey or (cx != "-" and cy != "-" and cx != cy):
            return False
    return True


def strip_nerr(e):
    return re.sub(r"e\d+r\d+$", "", e)


def guard_oracle(case, impl, spec):
    """spec applied to the impl's observation: how each process left the scope (exception class and the section's checkpoint)"""
    if impl.startswith("HANG"):
        return "deadlock", "the guarded scope does not terminate (watchdog, reproduced when run alone)"
    if impl.startswith("CRASH"):
        return "crash", impl
    if spec == "-":
        return None
    a, b = guard_tokens(impl), guard_tokens(spec)
    if len(a) != len(b):
        return "shape", "observation has %d ranks, expected %d" % (len(a), len(b))
    for r, (x, y) in enumerate(zip(a, b)):
        ex = strip_nerr(x.partition(":")[0]); ey = strip_nerr(y.partition(":")[0])
        if ex != ey:
            if ey.startswith("G"):
                return "agreement:missed", "observation %d (ranks|scopes;inner/outer) left with %s but a process failed in that section: MPIGuardError expected at op %s" % (r, ex, ey[1:])
            if ex.startswith("G"):
                return "agreement:spurious", "observation %d threw MPIGuardError (%s) but the property prescribes %s" % (r, ex, ey)
            return "exit", "observation %d left with %s, expected %s" % (r, ex, ey)
    return None


def future_member(impl, model):
    a = [x.strip() for x in impl.split(" | ")]
    b = [set(y.strip() for y in x.split(" / ")) for x in model.split(" | ")]
    return len(a) == len(b) and all(x in s for x, s in zip(a, b))


def future_sig(case, impl, verdict):
    t = case.split()
    fam, op, pay = t[2], t[3], t[4]
    m = re.match(r"REJECT r(\d+) (\S+) item(\d+) (\S*)", verdict)
    if not m:
        return "C19:future:%s:%s:%s:%s" % (fam, op, pay, "hang" if impl.startswith("HANG") else ("crash" if impl.startswith("CRASH") else "unparsable"))
    return "C19:future:%s:%s:%s:%s:%s" % (fam, op, pay, m.group(2), re.sub(r"\[.*\]", "[..]", m.group(4)))


# ----------------------------------------------------------------------------- main
def build(ctx):
    for attempt in range(3):
        try:
            model = V.build_model(ctx)
            break
        except V.BuildError as e:      # same Params_gen.vo race as in the Coq stage (see run())
            if "inconsistent assumptions" in str(e) and attempt < 2:
                time.sleep(2 + 3 * attempt)
                continue
            raise
    impl = V.cxx(ctx, [SRC], ctx.path("impl"), mpi=True, opt="-O1")
    return model, impl


def evaluate(ctx, cases, io, mo, stats):
    """diff + oracle for aligned lists (cases, impl lines, (model, spec/verdict) pairs)"""
    for c, a, (m, s) in zip(cases, io, mo):
        t = c.split()
        if a.startswith("NOT-RUN"):
            stats["not_run"] = stats.get("not_run", 0) + 1
            continue
        if t[0] in "GQNO":
            stats["guard"] += 1
            verdict = guard_oracle(c, a, s)
            gk = {"G": t[2], "Q": "seq:" + t[2], "N": "nested", "O": "nested-same-comm"}[t[0]]
            if verdict is not None:
                stats["oracle_rejections"] += 1
                ctx.violation("C19:guard:%s:%s" % (gk, verdict[0]),
                              {"case": c, "impl": a, "model": m, "spec": s, "oracle": verdict[1], "replay_cmd": "bin/check C19 --replay <this file>"})
            elif not guard_equal(a, m):
                stats["disagreements"] += 1
                ctx.violation("corr:C19/guard:%s" % gk, {"broken": "corr:C19/guard (script semantics / collective count / error count)",
                                                           "case": c, "impl": a, "model": m, "spec": s, "oracle": "accepts impl output"}, found_input=False)
        else:
            stats["future"] += 1
            if s != "ACCEPT":
                stats["oracle_rejections"] += 1
                ctx.violation(future_sig(c, a, s), {"case": c, "impl": a, "model": m, "oracle": s, "replay_cmd": "bin/check C19 --replay <this file>"})
            elif not future_member(a, m):
                stats["disagreements"] += 1
                ctx.violation("corr:C19/future:%s:%s" % (t[2], t[3]), {"broken": "corr:C19/future", "case": c, "impl": a, "model": m,
                                                                       "oracle": "accepts impl output"}, found_input=False)


def params_hook(ctx):
    V.sh([sys.executable, os.path.join(V.VERIF, "tools", "extract_params.py"), ctx.repo], check=True)


def run(ctx):
    ctx.params_hook = params_hook
    for attempt in range(3):
        nv = len(ctx.viol)
        if V.coq_stage(ctx):
            break
        # coq/Params_gen.vo is shared by all properties and regenerated by every check run: a concurrent run of another
        # property between the dependency build and the re-check of Properties_C19.v yields "inconsistent assumptions over
        # library Params_gen", which says nothing about the theorems - rebuild and check again
        log = (ctx.coq or {}).get("log", "")
        if "inconsistent assumptions" in log and "Params_gen" in log and attempt < 2:
            del ctx.viol[nv:]
            ctx.notes.append("coq stage repeated: Params_gen.vo was rebuilt by a concurrent check run")
            time.sleep(2 + 3 * attempt)
            continue
        break
    model, impl = build(ctx)
    Ps = [1, 2, 3, 4] if ctx.quick else [1, 2, 3, 4, 5, 6]
    stats = {"guard": 0, "future": 0, "oracle_rejections": 0, "disagreements": 0}
    allcases, dist, dropped, nontrivial, cases_by_P, predicted_deadlocks = [], {}, 0, set(), {}, []
    xdropped = 0
    xretried = [0]
    corpus = []
    cp = os.path.join(V.VERIF, "corpus", "C19", "cases.txt")
    if os.path.exists(cp):
        corpus = [l.strip() for l in open(cp) if l.strip() and not l.startswith("#")]
    for P in Ps:
        cases = [c for c in corpus if int(c.split()[1]) == P]
        cases += gen_guard(ctx, P)
        cases += gen_guard_composed(ctx, P)
        if P <= 4:
            cases += gen_future(ctx, P)
        elif not ctx.quick:
            cases += [c for c in gen_future(ctx, P) if c.split()[3] in ("ibarrier", "iallreduce", "igather")][:600]
        cases += gen_multi(ctx, P)
        # pass 1: model alone; unstructured guard scripts are run on the impl only where the model predicts termination
        m1 = run_model(ctx, model, cases, tag="model1.P%d" % P)
        keep = []
        for c, (m, s) in zip(cases, m1):
            if c.startswith("G ") and c.split()[5] == "U" and ("STUCK" in m or "OUTOFFUEL" in m):
                dropped += 1
                if "STUCK" in m and P == 2 and c.split()[2] in "HCW" and len(predicted_deadlocks) < 2:
                    predicted_deadlocks.append((c, m))
                continue
            if c.startswith("X ") and "DROP-" in m:      # ill-formed / blocking / racing with a message arrival: not run on the impl
                xdropped += 1
                continue
            if "MODEL-ERROR" in m or "UNKNOWN" in m:
                ctx.violation("corr:C19/model-driver", {"broken": "corr:C19/model-driver", "case": c, "model": m}, found_input=False)
                continue
            keep.append(c)
        cases = keep
        t0 = time.time()
        if getattr(ctx, "c19_hangs", 0) >= (3 if ctx.quick else 8):
            ctx.notes.append("P=%d not run: %d reproduced hangs already reported" % (P, ctx.c19_hangs))
            continue
        io = run_mpi(ctx, impl, P, cases, "impl", alarm=8 if ctx.quick else 20)
        for i, (c, a) in enumerate(zip(cases, io)):     # "T" = MPI_Wait did not return in time: load is not a verdict, repeat alone with 10x the time
            if c.startswith("X ") and re.search(r"\dT/", a) and xretried[0] < (2 if ctx.quick else 6):
                again = run_mpi(ctx, impl, P, [c], "xwait", alarm=60, env_extra={"C19_WAITMS": "20000"})
                if again and not again[0].startswith(("HANG", "CRASH", "NOT-RUN")):
                    io[i] = again[0]
                xretried[0] += 1
                if xretried[0] >= (2 if ctx.quick else 6):
                    break
        ctx.log("P=%d: %d cases, impl %.1fs" % (P, len(cases), time.time() - t0))
        mo = run_model(ctx, model, cases, impl=io, tag="model2.P%d" % P)
        evaluate(ctx, cases, io, mo, stats)
        allcases += cases
        cases_by_P[P] = cases
        for c in cases:
            t = c.split()
            key = ("guard:" + t[2] + ":" + t[5] if t[0] == "G" else "guard-sequential:" + t[2] if t[0] == "Q" else "guard-nested:S%s" % t[3] if t[0] in "NO"
                   else "future:%s:%s:%s" % (t[2], t[3], t[4]))
            dist[key] = dist.get(key, 0) + 1
            if t[0] in "GQNO":
                if re.search(r"[tf]", t[-1]):
                    nontrivial.add(c)
            elif len(t[9]) >= 2:
                nontrivial.add(c)
    # thorough: the model's deadlock predictions are observations too: two unstructured 2-process scripts for which the model
    # says STUCK must block the real guard (watchdog), otherwise the model of the collective matching is wrong
    ndl = 0
    if not ctx.quick:
        saved = getattr(ctx, "c19_hangs", 0)
        for c, m in predicted_deadlocks:
            io = run_mpi(ctx, impl, 2, [c], "deadlock", alarm=5)
            ndl += 1 if io[0] == "HANG" else 0
            if io[0] != "HANG":
                ctx.violation("corr:C19/guard:predicted-deadlock", {"broken": "corr:C19/guard (model predicts a deadlock, the impl terminates)",
                                                                    "case": c, "impl": io[0], "model": m}, found_input=False)
        ctx.c19_hangs = saved
        ctx.notes = [n for n in ctx.notes if "re-run alone" not in n or not any(c in n for c, _ in predicted_deadlocks)]
    # thorough: the same cases (subsample) on an ASan/UBSan build of the harness: dangling buffers / use after move in the futures
    nsan = 0
    if not ctx.quick:
        try:
            impl_san = V.cxx(ctx, [SRC], ctx.path("impl_san"), mpi=True, san=True)
            for P in (1, 2, 3):
                sub = cases_by_P.get(P, [])[::4]
                io = run_mpi(ctx, impl_san, P, sub, "san", alarm=60, env_extra={"ASAN_OPTIONS": "detect_leaks=0", "UBSAN_OPTIONS": "print_stacktrace=1"})
                mo = run_model(ctx, model, sub, impl=io, tag="model3.P%d" % P)
                before = len(ctx.viol)
                evaluate(ctx, sub, io, mo, stats)
                for i in range(before, len(ctx.viol)):
                    sig, rep, found = ctx.viol[i]
                    if sig.endswith(":crash") or sig.endswith("unparsable"):
                        ctx.viol[i] = (sig + ":sanitizer", rep, found)
                nsan += len(sub)
        except V.BuildError as e:
            ctx.notes.append("sanitizer build of the harness failed (evidence downgraded, not a violation): %s" % str(e)[-300:])
    ctx.viol.sort(key=lambda v: (not v[2], v[0].startswith("corr:")))      # concrete failing inputs are reported first
    ctx.coverage.update({
        "evaluations": len(allcases), "distinct_nontrivial": len(nontrivial),
        "rule": "per process count P in %s (one mpirun launch each): guard scopes = structured section programs (S<=%d sections: clean prefix, then EVERY "
                "non-empty assignment of {ok,throws,reports failure} to the P ranks, then arbitrary unreachable sections; exhaustive for kinds H,W and small "
                "split communicators, seeded samples otherwise) x 7 communicator kinds x all 2-colourings for split communicators x initially active/inactive "
                "guard, plus random unstructured scripts kept where the model predicts termination; futures = 8 non-blocking operations x payload kinds "
                "(int, int&, vector<double>, vector<double>&, void) x call orders over {valid,ready,wait,get[,move]} (quick: seeded subset of all orders of "
                "length<=3 and of the permutations of {v,r,w,g,g}; thorough: all orders of length<=4), raw and type-erased, with a delayed rank making "
                "'not ready before completion' observable, same on PseudoFuture via Communication<No_Comm>.  Non-trivial: guard case with at least one failing "
                "op; future case with at least two calls.  Distinct = distinct case lines." % (Ps, 3 if ctx.quick else 4),
        "samples": allcases[:2] + allcases[len(allcases) // 3: len(allcases) // 3 + 2] + allcases[-2:],
        "case_distribution": dist, "process_counts": Ps, "unstructured_scripts_dropped_model_predicts_deadlock": dropped,
        "multi_future_scripts_dropped_blocking_or_racy": xdropped, "multi_future_cases": sum(1 for c in allcases if c.startswith("X ")),
        "guard_cases": stats["guard"], "future_cases": stats["future"],
        "impl_model_disagreements": stats["disagreements"], "cases_not_run_after_hangs": stats.get("not_run", 0), "oracle_rejections": stats["oracle_rejections"],
        "traces_validated_against_impl": len(allcases), "exhaustive": False, "sanitizer_cases": nsan, "model_predicted_deadlocks_confirmed_on_impl": ndl,
    })
    ctx.assumptions += ["MPI: a collective on a communicator returns on all its processes once all have entered it, with the sum of the contributions; "
                        "collectives on disjoint communicators do not interact; MPI_Test/MPI_Wait semantics of requests (null request: flag = true)",
                        "data delivered by each non-blocking operation as in C19_Spec.c19_spec_data (collective semantics, cf. C07)",
                        "completion time of an operation is not controllable: the model yields the set of traces over all completion points, the impl's trace must be a member; "
                        "'ready before the operation can have completed' is made observable by delaying the start on one rank"]


def replay(ctx, path):
    rep = json.load(open(path))
    case = rep["case"]
    P = int(case.split()[1])
    model, impl = build(ctx)
    io = run_mpi(ctx, impl, P, [case], "replay", alarm=30)
    mo = run_model(ctx, model, [case], impl=io, tag="replay.model")
    m, s = mo[0]
    print("case  :", case); print("impl  :", io[0]); print("model :", m)
    if case[0] in "GQNO":
        v = guard_oracle(case, io[0], s)
        print("spec  :", s); print("oracle:", v[1] if v else "accepts")
        return 1 if v else 0
    print("oracle:", s)
    return 0 if s == "ACCEPT" else 1
