"""C20 — Python views of dense vectors agree with the C++ objects they wrap (DESIGN.md section 4, C20)."""
import os, sys, re, json, hashlib, shutil, subprocess, time
from fractions import Fraction
import vcheck as V

META = {
    "level": "proof",
    "technique": "Coq proof on the glue model (construction, index/slice normalisation, aliasing over a heap, operators as entry-list "
                 "functions; all sizes, sources, indices, op sequences) + extracted model vs real dune.common objects on identical op "
                 "scripts, judged by an independent Python-semantics oracle",
    "text": "Theorems in coq/Properties_C20.v about coq/C20_Model.v (a transcription of the constructors of fvector.hh, the bounds-checked "
            "__getitem__/__setitem__ of densevector.hh, the Python wrapper of python/dune/common/__init__.py with its NumPy fallback, "
            "CPython slice adjustment, the overload sets of the copying/in-place operators incl. the n=1 and int/float special cases, "
            "str/repr, norms) over a heap of cells so that views and copies are distinguishable; the buffer requests of the NumPyVector and "
            "FieldVector constructors against the exporter's flags (read-only / format / dimension: c20_npv_gate, c20_xstep).  The model is tied to the code on every "
            "run: FieldVector classes are generated just-in-time from the binding headers of the checked tree (sizes 1-5, thorough: +7), "
            "wrapped by the checked tree's python/dune/common/__init__.py, and driven by the same op scripts as the extracted model.",
    "note": "Trusted: pybind11 argument conversion and overload resolution, NumPy, the buffer protocol, C++ <-> Python number conversion, "
            "double arithmetic on dyadic values (exact), the DenseVector kernels themselves (C01).  _common.so and libdunecommon.a "
            "come from /repo/_build (not rebuilt); FieldVector bindings are header-only and always compiled from the checked tree.",
    "design_ref": "DESIGN.md section 4 C20",
}

REAL_REPO = "/repo"
REAL_BUILD = "/repo/_build"
HARNESS = os.path.join(V.VERIF, "harness", "C20")
MUTATING = {"set", "iadd", "isub", "iaddl", "imuls", "idivs", "iadds", "isubs", "assign", "setslice", "isubl", "assignl", "setnp",
            "setslicefrom", "arriadd", "arrisub", "arrimuls", "arriadds", "nx", "iaddro", "isubro", "assignro"}
BAD_KINDS = ("npint", "npf32", "np2d", "bytearray", "arrayi", "npbe", "bytes", "arrayf", "np0d", "npro2d")
RO_KINDS = ("npro", "npfrombytes", "mvro")          # read-only exporters of doubles: accepted by the copying FieldVector constructor
NX_RO = ("ro", "romv", "rob", "robc")               # read-only one-dimensional exporters handed to a NumPyVector
REFUSALS = ("!ValueError", "!BufferError")          # how an exporter refuses a writable request (NumPy: ValueError; PEP 3118: BufferError)


# ----------------------------------------------------------------------------------------- environment
def setup_env(ctx):
    """Shadow copy of /repo/_build/python whose links into /repo/python point into ctx.repo/python instead (so that the
    Python half of the bindings is the checked tree's), a private dune-py (JIT cache) whose compile command includes the
    checked tree's headers, both under build/C20/env-<hash of ctx.repo>."""
    key = hashlib.sha1(ctx.repo.encode()).hexdigest()[:10]
    base = ctx.path("env-" + key)
    shadow = os.path.join(base, "py")
    if os.path.isdir(shadow):
        shutil.rmtree(shadow)
    src_root = os.path.join(REAL_BUILD, "python")
    relinked = 0
    for root, dirs, files in os.walk(src_root):
        dirs[:] = [d for d in dirs if d != "CMakeFiles" and not d.endswith(".egg-info")]
        rel = os.path.relpath(root, src_root)
        os.makedirs(os.path.join(shadow, rel), exist_ok=True)
        for f in files:
            p = os.path.join(root, f)
            target = p
            if os.path.islink(p):
                t = os.readlink(p)
                if t.startswith(REAL_REPO + "/python/"):
                    cand = os.path.join(ctx.repo, t[len(REAL_REPO) + 1:])
                    if os.path.exists(cand):
                        target = cand; relinked += 1
                    else:
                        target = t
                else:
                    target = t
            os.symlink(target, os.path.join(shadow, rel, f))
    env = {"PYTHONPATH": shadow, "DUNE_PY_DIR": os.path.join(base, "dpy"), "DUNE_LOG_LEVEL": "warning", "C20_OUT_FD": "3"}
    run = ["bash", os.path.join(HARNESS, "run.sh")]
    bs = os.path.join(base, "dpy", "dune-py", "python", "dune", "generated", "buildScript.sh")
    if not os.path.exists(bs):
        ctx.log("configuring a private dune-py (JIT cache) for %s" % ctx.repo)
        rc, out = V.sh(run + ["-c", "from dune.generator import builder; builder.initialize()"], env=env, timeout=600)
        if not os.path.exists(bs):
            raise V.BuildError("dune-py could not be configured:\n" + out[-3000:])
    jit_headers = REAL_REPO
    s = open(bs).read()
    if os.path.abspath(ctx.repo) != REAL_REPO:
        pat = "-isystem %s " % REAL_REPO
        if pat in s:
            s = s.replace(pat, "-isystem %s " % ctx.repo)
            open(bs, "w").write(s)
        if "-isystem %s " % ctx.repo in s:
            jit_headers = ctx.repo
        else:
            ctx.notes.append("LIMITATION: could not point the JIT include path at %s; binding headers come from %s" % (ctx.repo, REAL_REPO))
    return env, run, {"shadow_package": shadow, "python_files_from_checked_tree": relinked, "jit_headers": jit_headers,
                      "dune_py": os.path.join(base, "dpy", "dune-py")}


def prebuild(ctx, env, run, sizes):
    """JIT-compile (or load from the cache; the build script re-checks header dependencies) one class per size, in parallel."""
    t0 = time.time()
    ps = [subprocess.Popen(run + [os.path.join(HARNESS, "impl.py"), "--prebuild", str(n)], env=dict(os.environ, **env),
                           stdout=subprocess.PIPE, stderr=subprocess.STDOUT, text=True) for n in sizes]
    for n, p in zip(sizes, ps):
        try:
            out, _ = p.communicate(timeout=900)
        except subprocess.TimeoutExpired:
            p.kill(); out = "timeout"
        if p.returncode != 0:
            raise V.BuildError("binding for %s (FieldVector size / NumPyVector algorithm) does not compile against %s:\n%s" % (n, ctx.repo, out[-4000:]))
    ctx.log("JIT modules %s ready (%.1fs)" % (sizes, time.time() - t0))


# ----------------------------------------------------------------------------------------- oracle (spec, Python semantics)
def fr(x):
    x = Fraction(x)
    return str(x.numerator) if x.denominator == 1 else "%d/%d" % (x.numerator, x.denominator)


def qlist(s):
    return [] if s == "-" else [Fraction(t) for t in s.split(",")]


class Obj:
    __slots__ = ("kind", "store", "idx")

    def __init__(self, kind, store, idx):
        self.kind, self.store, self.idx = kind, store, idx

    def vals(self):
        return [self.store[i] for i in self.idx]

    def put(self, vals):
        for i, v in zip(self.idx, vals):
            self.store[i] = v

    def __len__(self):
        return len(self.idx)


class Exc(Exception):
    pass


def fmt6(x):
    s = "%f" % float(x)        # C printf semantics, correctly rounded; the generated values are exact doubles
    return s


class Oracle:
    """The property read literally, with Python's own list semantics for indices and slices: a vector is the list of its
    entries; a view addresses the same storage; construction = first n, zero filled; operators act entry-wise."""

    def __init__(self, npv=False, dyn=False, f32=False):
        self.f32 = f32           # `f32` scripts: FieldVector<float,n>; float64 buffers are rejected, float32 ones accepted
        self.R = []
        self.dropped = set()
        self.dyn = dyn           # `dyn`/`dynj` scripts: DynamicVector (size = number of entries given; operands must have equal size)
        self.npv = npv           # `npv` scripts: the registers are NumPy arrays accessed through a C++ NumPyVector

    def fresh(self, kind, vals):
        vals = list(vals)
        o = Obj(kind, vals, list(range(len(vals))))
        self.R.append(o)
        return "%s[%s]" % (kind, ",".join(fr(v) for v in vals))

    def shared(self, kind, store, idx):
        o = Obj(kind, store, idx)
        self.R.append(o)
        return "%s[%s]" % (kind, ",".join(fr(v) for v in o.vals()))

    def conv(self, n, vals):
        if self.dyn:
            if len(vals) != n:
                raise Exc("UNSPECIFIED")      # operands of different size: outside the property (never generated in judged streams)
            return list(vals)
        return (list(vals) + [Fraction(0)] * n)[:n]

    def dump(self):
        return "{" + "|".join("x" if i in self.dropped else "%s[%s]" % (o.kind, ",".join(fr(v) for v in o.vals())) for i, o in enumerate(self.R)) + "}"

    @staticmethod
    def broadcast(n, vals):
        """NumPy: operand of equal length, or one entry repeated; else ValueError"""
        if len(vals) == n:
            return list(vals)
        if len(vals) == 1:
            return list(vals) * n
        raise Exc("ValueError")

    def step(self, t, hint=""):
        op = t[0]
        if op == "bad2d":
            return "!RuntimeError"            # NumPyVector around a two-dimensional array: Dune exception
        if op == "crossbad":
            return "!ValueError"
        if op == "nx":
            # seeding round 6: an access through a NumPyVector around an EXPORTER of register r.  A writable one-dimensional
            # exporter shares the register's memory; a read-only exporter promises no writable memory: a write access MUST be
            # refused (by the exporter's own exception) and nothing may change; a read may be refused as well (NumPyVector has
            # no read-only mode) or return the right value; not one-dimensional: the documented Dune exception.
            kind, acc = t[1], [t[3], t[2]] + t[4:]
            if kind == "ro2d":
                return "!RuntimeError"
            if kind in ("w", "warr"):
                return self.step(acc)
            refused = hint.split("{")[0] if hint.split("{")[0] in REFUSALS else "!ValueError"
            if acc[0] in ("set", "imuls", "iadds") or hint == "" or hint.split("{")[0] in REFUSALS:
                return refused                    # (no impl observation at hand: what the code documents, i.e. what the model does)
            if kind == "robc":
                x0 = self.R[int(t[2])].vals()[0]
                return {"len": "i:3", "get": "s:" + fr(x0), "norm22": "s:" + fr(3 * x0 * x0)}[acc[0]]
            return self.step(acc)
        if op == "newfromx":
            if t[1] in ("rof32", "ro2d"):
                return "!ValueError"
            return self.fresh("v", self.conv(int(t[2]), self.R[int(t[3])].vals()))
        if op in ("addro", "subro", "dotro", "eqro", "iaddro", "isubro", "assignro"):
            return self.step([op[:-2]] + t[1:], hint)        # the operand conversion copies: a read-only exporter is an operand like any other
        if op == "new" and self.f32 and t[2] in ("np", "nprev", "npstride", "array", "npcol", "memview", "npint"):
            return "!ValueError"
        if op == "new" and t[2] in BAD_KINDS and not (self.f32 and t[2] == "npf32"):
            return "!ValueError"              # documented rejection: "Incompatible buffer format." / not one-dimensional
        if op == "new":
            if self.dyn:
                return self.fresh("d", qlist(t[3]))
            return self.fresh("a" if self.npv else "v", self.conv(int(t[1]), qlist(t[3])))
        if op == "newfrom":
            return self.fresh("v", self.conv(int(t[1]), self.R[int(t[2])].vals()))
        if op == "newv":
            return self.fresh("v", self.conv(int(t[1]), qlist(t[3])))
        if op == "drop":
            self.dropped.add(int(t[1]))
            return "ok"
        if op == "setslicefrom":            # the right-hand side is read before anything is written (storage may overlap)
            t = ["setslice", t[1], t[2], t[3], t[4], ",".join(fr(v) for v in self.R[int(t[5])].vals()) or "-"]
            op = "setslice"
        if op in ("arriadd", "arrisub", "arradd"):
            x, y = self.R[int(t[1])], self.R[int(t[2])].vals()
            xv = x.vals()
            if op == "arradd" and len(xv) == 1 and len(y) not in (0, 1):
                xv = xv * len(y)               # out of place NumPy broadcasts both ways
            elif op == "arradd" and len(xv) == 1 and len(y) == 0:
                xv = []
            y = self.broadcast(len(xv), y)
            res = [a + b for a, b in zip(xv, y)] if op != "arrisub" else [a - b for a, b in zip(xv, y)]
            if op == "arradd":
                return self.fresh("a", res)
            x.put(res); return "ok"
        if op in ("arrimuls", "arriadds"):
            x = self.R[int(t[1])]; sc = Fraction(t[2])
            x.put([a * sc for a in x.vals()] if op == "arrimuls" else [a + sc for a in x.vals()]); return "ok"
        x = self.R[int(t[1])]
        n = len(x)
        xv = x.vals()
        vec = lambda vals: self.fresh("d" if self.dyn else "v", vals)
        if op in ("view", "ellipsis"):
            return self.shared("a", x.store, list(x.idx))
        if op == "copyargs":
            return self.fresh("v", self.conv(n, qlist(t[2])))
        if op == "float":
            return "s:" + fr(xv[0])
        if op in ("bufinfo", "bufinfo32"):
            return "i:%d" % n
        if op == "setslice":
            o = lambda s: None if s == "_" else int(s)
            try:
                idx = x.idx[slice(o(t[2]), o(t[3]), o(t[4]))]
            except ValueError:
                return "!ValueError"
            vals = qlist(t[5])
            if len(vals) == 1:
                vals = vals * len(idx)
            if len(vals) != len(idx):
                return "!ValueError"
            for i, v in zip(idx, vals):
                x.store[i] = v
            return "ok"
        if op in ("getc", "getva", "getcopy", "getnp"):
            op = "get"
        if op == "setnp":
            op = "set"
        if op == "eqf":
            return "b:%d" % (1 if xv == [Fraction(t[2])] else 0)
        op = {"addt": "addl", "eqt": "eql", "rdotl": "dotl", "norm1r": "norm1", "norminfr": "norminf", "div2": "divs"}.get(op, op)
        if op == "slice":
            o = lambda s: None if s == "_" else int(s)
            try:
                idx = x.idx[slice(o(t[2]), o(t[3]), o(t[4]))]
            except ValueError:
                return "!ValueError"
            return self.shared("a", x.store, idx)
        if op in ("copyctor", "copymeth"):
            return self.fresh(x.kind, xv)
        if op == "get":
            try:
                return "s:" + fr(x.store[x.idx[int(t[2])]])
            except IndexError:
                return "!IndexError"
        if op == "set":
            try:
                x.store[x.idx[int(t[2])]] = Fraction(t[3])
                return "ok"
            except IndexError:
                return "!IndexError"
        if op == "len":
            return "i:%d" % n
        if op == "iter":
            return "l[" + ",".join(fr(v) for v in xv) + "]"
        if self.dyn and op in ("str", "repr"):
            return '"Dune::DynamicVector: (' + ", ".join(fmt6(v) for v in xv) + ')"'
        if self.dyn and op == "assign":        # DynamicVector assignment takes the size of the right-hand side: a fresh storage
            y = self.R[int(t[2])].vals()
            x.store[:] = list(y); x.idx[:] = list(range(len(y)))
            return "ok"
        if op == "str":
            return '"(' + ", ".join(fmt6(v) for v in xv) + ')"'
        if op == "repr":
            return '"Dune::FieldVector<%d>(' % n + ", ".join(fmt6(v) for v in xv) + ')"'
        cmpop = self.dyn and op in ("eq", "ne", "eql")
        if op in ("add", "sub", "dot", "eq", "ne", "iadd", "isub", "assign") and not cmpop:
            y = self.conv(n, self.R[int(t[2])].vals())
        elif op in ("addl", "raddl", "subl", "rsubl", "dotl", "eql", "iaddl", "nel", "isubl", "assignl") and not cmpop:
            y = self.conv(n, qlist(t[2]))
        if op == "nel": return "b:%d" % (0 if xv == y else 1)
        if op == "isubl": x.put([a - b for a, b in zip(xv, y)]); return "ok"
        if op == "assignl": x.put(y); return "ok"
        if op in ("add", "addl", "raddl"): return vec([a + b for a, b in zip(xv, y)])
        if op in ("sub", "subl"): return vec([a - b for a, b in zip(xv, y)])
        if op == "rsubl": return vec([b - a for a, b in zip(xv, y)])
        if op in ("dot", "dotl"): return "s:" + fr(sum((a * b for a, b in zip(xv, y)), Fraction(0)))
        if self.dyn and op in ("eq", "ne", "eql"):      # vectors of different size are unequal (no exception from ==)
            y = self.R[int(t[2])].vals() if op != "eql" else qlist(t[2])
        if op in ("eq", "eql"): return "b:%d" % (1 if xv == y else 0)
        if op == "ne": return "b:%d" % (0 if xv == y else 1)
        if op in ("iadd", "iaddl"): x.put([a + b for a, b in zip(xv, y)]); return "ok"
        if op == "isub": x.put([a - b for a, b in zip(xv, y)]); return "ok"
        if op == "assign": x.put(y); return "ok"
        if op in ("muls", "rmuls", "divs", "addf", "subf", "raddf", "rsubf", "imuls", "idivs", "iadds", "isubs"):
            s = Fraction(t[2])
            if op in ("muls", "rmuls"): return vec([a * s for a in xv])
            if op == "divs": return vec([a / s for a in xv])
            if op == "imuls": x.put([a * s for a in xv]); return "ok"
            if op == "idivs": x.put([a / s for a in xv]); return "ok"
            if op == "iadds": x.put([a + s for a in xv]); return "ok"
            if op == "isubs": x.put([a - s for a in xv]); return "ok"
            # scalar +/- vector is defined for one-entry vectors only
            if n != 1: return "!TypeError"
            if op == "addf": return vec([xv[0] + s])
            if op == "subf": return vec([xv[0] - s])
            if op == "raddf": return vec([s + xv[0]])
            if op == "rsubf": return vec([s - xv[0]])
        if op in ("muli", "rmuli"):
            k = int(t[2])
            if n == 1 and not self.dyn and not hint.startswith("v["):
                return "s:" + fr(xv[0] * k)          # for n = 1 the product may come back as the scalar
            return vec([a * k for a in xv])
        if op in ("addi", "subi", "raddi", "rsubi"):
            k = int(t[2])
            if n == 1:
                return vec([{"addi": xv[0] + k, "subi": xv[0] - k, "raddi": k + xv[0], "rsubi": k - xv[0]}[op]])
            if k != 0:
                return "!ValueError"              # documented rejection: "Cannot add k to multidimensional dense vector"
            if op == "rsubi":
                return vec([-a for a in xv])
            self.R.append(x)
            return "=r%s" % t[1]
        if op == "neg": return vec([-a for a in xv])
        if op == "pos":
            self.R.append(x)
            return "=r%s" % t[1]
        if op == "norm1": return "s:" + fr(sum((abs(a) for a in xv), Fraction(0)))
        if op == "norm22": return "s:" + fr(sum((a * a for a in xv), Fraction(0)))
        if op == "norminf": return "s:" + fr(max([abs(a) for a in xv] + [Fraction(0)]))
        return "UNKNOWN-OP"


def split_case(case):
    return [s.split() for s in case.split(";") if s.strip() and s.strip() not in ("npv", "dyn", "dynj", "f32")]


def is_dyn(case):
    return case.startswith("dyn")


def prefix_of(case):
    h = case.split(";", 1)[0].strip()
    return h + " ; " if h in ("npv", "dyn", "dynj", "f32") else ""


def is_npv(case):
    return case.startswith("npv")


def spec_line(case, impl_line=""):
    return tv_oracle(case) if is_tv(case) else oracle_line(case, impl_line)


def is_tv(case):
    return case.startswith("tv")


def tv_oracle(case):
    """TupleVector: element types and values preserved, len, IndexError at n, copy() independent of the original"""
    elems = []
    for part in case.split(";")[1:]:
        t = part.split()
        if t:
            elems.append((t[0], qlist(t[1]) if t[0] == "v" else Fraction(t[1])))
    show = lambda k, v: ("v[%s]" % ",".join(fr(x) for x in v)) if k == "v" else (("i:" if k == "i" else "s:") + fr(v))
    bump = lambda k, v: [x + 1 for x in v] if k == "v" else v + 1
    n = len(elems)
    out = ["len=%d" % n] + ["%d:%s" % (i, show(*e)) for i, e in enumerate(elems)] + ["get%d:!IndexError" % n]
    out += ["set%d:ok" % i for i in range(n)]
    out.append("copy=" + ",".join(show(k, bump(k, v)) for k, v in elems))
    out.append("orig=" + ",".join(show(k, v) for k, v in elems))
    out.append("neg:!TypeError")                       # size_t index: no negative indices for tuple vectors
    out += ["bad%d:!RuntimeError" % i for i in range(n)]   # a value of another type is rejected (cast_error)
    out.append("assign=" + ",".join(show(k, v) for k, v in elems))
    out.append("self=" + ",".join(show(k, v) for k, v in elems))
    ty = lambda e: ("v", len(e[1])) if e[0] == "v" else e[0]
    pair = next(((a, b) for a in range(n) for b in range(a + 1, n) if ty(elems[a]) == ty(elems[b])), None)
    out.append("xfer=-" if pair is None else "xfer=" + ",".join(show(*(elems[pair[1]] if i == pair[0] else elems[i])) for i in range(n)))
    k0 = next((i for i, (k, v) in enumerate(elems) if k == "v"), 0)
    out.append("keep=" + show(*elems[k0]))
    j = next((i for i, (k, v) in enumerate(elems) if k == "v"), None)
    out.append("alias=-" if j is None else "alias=" + show("v", [Fraction(99)] + elems[j][1][1:]))
    return " | ".join(out)


def oracle_line(case, impl_line):
    """Run the oracle on the script, taking from the impl's line only the hint whether an n=1 integer product came back as a vector."""
    ops = split_case(case)
    itoks = impl_line.split(" # ")[0].split(" ; ") if impl_line else []
    O, toks = Oracle(is_npv(case), is_dyn(case), case.startswith("f32")), []
    for j, t in enumerate(ops):
        hint = itoks[j] if j < len(itoks) else ""
        try:
            o = O.step(t, hint)
        except Exc as e:
            o = "!" + str(e)
        except (IndexError, KeyError, ValueError, ZeroDivisionError) as e:
            o = "ORACLE-UNDEFINED(%s)" % type(e).__name__
        if t[0] in MUTATING:
            o += O.dump()
        toks.append(o)
    return " ; ".join(toks) + " # " + O.dump()


def judge(case, impl_line):
    """None if the oracle accepts the impl's observation; else (signature, reason, shrunk case)."""
    if is_tv(case):
        exp = tv_oracle(case)
        if exp == impl_line:
            return None
        bad = [a for a, b in zip(impl_line.split(" | "), exp.split(" | ")) if a != b][:1]
        return "C20:tv:" + (bad[0].split(":")[0].split("=")[0].rstrip("0123456789") if bad else "shape"), "TupleVector: impl gives `%s`, the property requires `%s`" % (impl_line, exp), case
    exp = oracle_line(case, impl_line)
    if exp == impl_line:
        return None
    if impl_line.startswith(("CRASH", "HANG", "NOT-RUN", "DRIVER-ERROR")):
        kind = "crash"
        return "C20:%s%s" % (prefix_of(case).replace(" ; ", ":"), kind), "the interpreter did not survive the script: %s; the property requires %s" % (impl_line[:160], exp), case
    ops = split_case(case)
    et = exp.split(" # ")[0].split(" ; ")
    it = impl_line.split(" # ")[0].split(" ; ")
    for j, t in enumerate(ops):
        a = it[j] if j < len(it) else "(missing)"
        if a != et[j]:
            sig = "C20:" + prefix_of(case).replace(" ; ", ":") + t[0]
            if is_dyn(case):
                if t[0] in ("get", "set") and int(t[2]) < 0:
                    sig = "C20:%snegative-index" % prefix_of(case).replace(" ; ", ":")
            elif is_npv(case):
                if t[0] == "nx":
                    sig += ":" + t[1]
            elif t[0] == "set" and int(t[2]) < 0 and a.startswith("!TypeError"):
                sig += ":negative-index"
            elif t[0] == "new":
                sig += ":" + t[2]
            elif t[0] == "newfromx":
                sig += ":" + t[1]
            elif a.startswith("!") or et[j].startswith("!"):
                sig += ":exception"
            shrunk = prefix_of(case) + " ; ".join(" ".join(x) for x in ops[:j + 1])
            return sig, "op %d `%s`: impl gives %s, the property requires %s" % (j, " ".join(t), a, et[j]), shrunk
    return "C20:final-dump", "final register contents differ: impl %s, required %s" % (impl_line.split(" # ")[-1], exp.split(" # ")[-1]), case


# ----------------------------------------------------------------------------------------- generator
VALS = [Fraction(v) for v in (0, 1, 2, 3, -1, -2, 5, 7, -4, 9)] + [Fraction(1, 2), Fraction(-3, 2), Fraction(1, 4), Fraction(100), Fraction(-1, 128), Fraction(5, 128)]
SCAL = [Fraction(v) for v in (2, -1, 3, 0, 1, 4, -2)] + [Fraction(1, 2), Fraction(-1, 4)]
DIVS = [Fraction(v) for v in (2, -1, 4, 1, -2)] + [Fraction(1, 2), Fraction(-1, 4), Fraction(8)]
KINDS = ["list", "listf", "tuple", "args", "np", "nprev", "npstride", "array", "npcol", "memview"]


TV_CASES = ["tv ; f 17 ; v 2,2 ; f 3 ; v 1,2,3", "tv ; v 1,2,3 ; v 1,2", "tv ; f 1/2 ; i 5 ; v 7", "tv ; v 4,5", "tv ; v 1,2 ; v 3,4 ; v 5,6"]


# NOT judged (no violation, no known finding): DynamicVector arithmetic with operands of different size is a C++ precondition
# violation the property text does not speak about (its memory clause is about indices outside [-n, n)).  What the bindings do
# in that case is only recorded in the evidence (coverage.unjudged_notes) and in ctx.notes.
NOTE_CASES = ["dyn ; " + b for b in ("new 3 list 1,2,3 ; new 1 list 1 ; add 0 1", "new 1 list 1 ; new 3 list 1,2,3 ; sub 0 1", "new 3 list 1,2,3 ; addl 0 1",
                                     "new 3 list 1,2,3 ; new 2 list 1,2 ; dot 0 1", "new 3 list 1,2,3 ; new 2 list 1,2 ; iadd 0 1",
                                     "new 3 list 1,2,3 ; new 2 list 1,2 ; eq 0 1")] + ["dynj ; new 3 list 1,2,3 ; new 2 list 1,2 ; dot 0 1"]


def ql(vals):
    return ",".join(fr(v) for v in vals) if vals else "-"


def gen(ctx, sizes):
    cases = []
    cp = os.path.join(V.VERIF, "corpus", "C20", "cases.txt")
    if os.path.exists(cp):
        cases += [l.strip() for l in open(cp) if l.strip() and not l.startswith("#")]
    rng = ctx.rng("gen")
    rv = lambda: rng.choice(VALS) if rng.random() < 0.85 else Fraction(rng.randrange(-64, 65), rng.choice([1, 1, 2, 4, 8]))
    rvals = lambda k: [rv() for _ in range(k)]
    # (1) construction: every source kind x every length 0..n+2
    for n in sizes:
        for kind in KINDS + ["noarg", "fact", "factgen"] + list(BAD_KINDS):
            for k in range(0, n + 3):
                if kind == "noarg" and k > 0: continue
                if kind in ("fact", "factgen") and k != n: continue
                if kind in BAD_KINDS:
                    if k in (0, n + 2): cases.append("new %d %s %s" % (n, kind, ql([Fraction(i + 1) for i in range(k)])))
                    continue
                if kind == "args" and k == 1 and n == 1: pass
                cases.append("new %d %s %s ; iter 0 ; len 0 ; str 0 ; repr 0" % (n, kind, ql(rvals(k))))
    # (2) indices -n-2 .. n+1: get, set on the vector, set/get through a view, after-state
    for n in sizes:
        vals = [Fraction(i + 1) for i in range(n)]
        cases.append("new %d list %s ; " % (n, ql(vals)) + " ; ".join("get 0 %d" % i for i in range(-n - 2, n + 2)))
        cases.append("new %d list %s ; view 0 ; " % (n, ql(vals)) + " ; ".join("get 1 %d" % i for i in range(-n - 2, n + 2)))
        for i in range(-n - 2, n + 2):
            cases.append("new %d list %s ; view 0 ; set 0 %d 50 ; get 0 %d ; get 1 %d" % (n, ql(vals), i, i, i))
            cases.append("new %d list %s ; view 0 ; set 1 %d 50 ; get 0 %d ; copyctor 0 ; set 0 0 7 ; set 2 %d 9" % (n, ql(vals), i, i, n - 1))
        for i in (10 ** 6, -10 ** 6, 2 ** 31, -2 ** 31 - 1, 2 ** 32, 2 ** 61, -2 ** 61):
            cases.append("new %d list %s ; get 0 %d ; set 0 %d 1" % (n, ql(vals), i, i))
    # (3) slices: all (start, stop, step) over the boundary alphabet, several per case; writes through a slice
    for n in [s for s in sizes if s <= (3 if ctx.quick else 5)] + ([5] if ctx.quick and 5 in sizes else []):
        vals = [Fraction(i + 1) for i in range(n)]
        bnd = ["_"] + [str(i) for i in range(-n - 1, n + 2)]
        steps = ["_", "1", "2", "-1", "-2", "3", "-3", "0"]
        if ctx.quick and n == 5:
            bnd = ["_", "-6", "-5", "-1", "0", "2", "5", "6"]; steps = ["_", "-1", "2", "-2", "0"]
        for a in bnd:
            for c in steps:
                cases.append("new %d list %s ; " % (n, ql(vals)) + " ; ".join("slice 0 %s %s %s" % (a, b, c) for b in bnd))
        for a in bnd[::2]:
            for c in ["_", "-1", "2"]:
                cases.append("new %d list %s ; slice 0 %s _ %s ; set 1 0 77 ; set 1 -1 88 ; slice 1 _ _ -1 ; set 2 0 99 ; get 0 0 ; get 0 -1" % (n, ql(vals), a, c))
    # (4) operator table: every op kind x operand sizes / kinds
    for n in sizes:
        for m in sizes:
            x, y = rvals(n), rvals(m)
            pre = "new %d list %s ; new %d tuple %s ; " % (n, ql(x), m, ql(y))
            cases.append(pre + "add 0 1 ; sub 0 1 ; dot 0 1 ; eq 0 1 ; ne 0 1 ; eq 0 0 ; copyctor 0 ; eq 0 4 ; ne 0 4 ; set 4 0 1000 ; eq 0 4 ; ne 0 4")
            cases.append(pre + "view 1 ; slice 1 _ _ -1 ; add 0 2 ; sub 0 3 ; dot 0 3 ; iadd 0 3 ; isub 0 2 ; assign 0 3 ; eq 0 3")
            cases.append(pre + "iadd 0 1 ; isub 0 1 ; isub 0 0 ; iadd 1 1 ; assign 0 1 ; assign 1 0")
        for k in range(0, n + 2):
            l = rvals(k)
            cases.append("new %d np %s ; addl 0 %s ; raddl 0 %s ; subl 0 %s ; rsubl 0 %s ; dotl 0 %s ; eql 0 %s ; iaddl 0 %s" % ((n, ql(rvals(n))) + (ql(l),) * 7))
        x = rvals(n)
        cases.append("new %d list %s ; eql 0 %s ; eql 0 %s" % (n, ql(x), ql(x), ql(x[:-1] + [x[-1] + 1])))
        for s in SCAL:
            cases.append("new %d args %s ; muls 0 %s ; rmuls 0 %s ; imuls 0 %s ; iadds 0 %s ; isubs 0 %s" % ((n, ql(rvals(n))) + (fr(s),) * 5))
            if s.denominator == 1:
                cases.append("new %d args %s ; muli 0 %d ; rmuli 0 %d ; addi 0 %d ; subi 0 %d ; raddi 0 %d ; rsubi 0 %d ; set 0 0 33" % ((n, ql(rvals(n))) + (int(s),) * 6))
            cases.append("new %d list %s ; addf 0 %s ; subf 0 %s ; raddf 0 %s ; rsubf 0 %s" % ((n, ql(rvals(n))) + (fr(s),) * 4))
        for s in DIVS:
            cases.append("new %d list %s ; divs 0 %s ; idivs 0 %s ; str 0" % (n, ql(rvals(n)), fr(s), fr(s)))
        cases.append("new %d list %s ; neg 0 ; pos 0 ; set 2 0 41 ; get 0 0 ; addi 0 0 ; set 0 -1 42 ; norm1 0 ; norm22 0 ; norminf 0" % (n, ql(rvals(n))))
        for _ in range(4):
            cases.append("new %d list %s ; norm1 0 ; norm22 0 ; norminf 0 ; str 0 ; repr 0 ; neg 0 ; str 1" % (n, ql(rvals(n))))
        cases.append("new %d list %s ; copymeth 0 ; set 0 0 5 ; set 1 0 6 ; view 0 ; copymeth 2 ; copyctor 2 ; set 2 -1 8" % (n, ql(rvals(n))))
    # (6) NumPyVector (numpyvector.hh): a C++ dense vector wrapped around a NumPy array / view without copying; every access
    #     goes through the C++ object, the array is observed from Python (model: C20_N* ops, theorem C20_numpy_view).
    for n in (1, 2, 3, 6):
        base = [Fraction(i + 1) for i in range(n)]
        for (a, b, c) in [("_", "_", "_"), ("_", "_", "2"), ("1", "_", "_"), ("_", "_", "-1"), ("-2", "_", "_"), ("_", "-1", "2"), ("_", "_", "-2"), ("1", "1", "_")]:
            m = len(range(n)[slice(*[None if t == "_" else int(t) for t in (a, b, c)])])
            pre = ["npv", "new %d list %s" % (n, ql(base)), "slice 0 %s %s %s" % (a, b, c)]
            # read-only script (run first) and a writing script (see run(): not run through negative strides while F-C20-3 is present)
            cases.append(" ; ".join(pre + ["len 1"] + ["get 1 %d" % i for i in range(m)] + ["norm22 1", "norm1 1", "norminf 1"]))
            if m:
                cases.append(" ; ".join(pre + ["set 1 %d 50" % (m - 1), "set 1 0 -7/2", "imuls 1 2", "norm22 1", "iadds 1 1", "isubs 1 1/2", "idivs 1 4", "get 1 0"]))
    # (8) DynamicVector: `dyn` = dune.common.DynamicVector from the PREBUILT _common.so of /repo/_build (a test of that
    #     extension, not of the checked tree's C++), `dynj` = DynamicVector<float> bound just-in-time with the checked tree's
    #     dynvector.hh/densevector.hh; both wrapped by the checked tree's python/dune/common/__init__.py.  Oracle-judged TEST.
    for pre in ("dyn", "dynj"):
        for n in (1, 3):
            vals = [Fraction(i + 1) for i in range(n)]
            cases.append("%s ; new %d list %s ; " % (pre, n, ql(vals)) + " ; ".join("get 0 %d" % i for i in range(-n - 2, n + 2)))
            for i in range(-n - 1, n + 1):
                cases.append("%s ; new %d list %s ; set 0 %d 50 ; get 0 %d ; iter 0" % (pre, n, ql(vals), i, i))
            w = [Fraction(10 * (i + 1)) for i in range(n)]
            cases.append("%s ; new %d list %s ; new %d list %s ; len 0 ; iter 0 ; repr 0 ; str 0 ; add 0 1 ; sub 0 1 ; dot 0 1 ; eq 0 1 ; ne 0 1 ; eq 0 0 ; "
                         "iadd 0 1 ; isub 1 0 ; muls 0 2 ; rmuls 0 1/2 ; divs 0 4 ; muli 0 3 ; neg 0 ; pos 0 ; imuls 0 2 ; idivs 0 4 ; iadds 0 1 ; isubs 0 1/2 ; "
                         "norm1 0 ; norm22 0 ; norminf 0 ; assign 0 1 ; set 0 0 7 ; get 1 0" % (pre, n, ql(vals), n, ql(w)))
            cases.append("%s ; new %d list %s ; addl 0 %s ; raddl 0 %s ; subl 0 %s ; rsubl 0 %s ; dotl 0 %s ; eql 0 %s ; iaddl 0 %s" % ((pre, n, ql(vals)) + (ql(w),) * 7))
        cases.append("%s ; new 0 list - ; len 0 ; iter 0 ; get 0 0 ; get 0 -1 ; norm1 0" % pre)
        cases.append("%s ; new 3 list 1,2,3 ; iadd 0 0 ; isub 0 0 ; iadd 0 0 ; assign 0 0 ; dot 0 0 ; eq 0 0 ; ne 0 0 ; add 0 0 ; pos 0 ; iadd 0 2 ; imuls 2 2 ; iter 0" % pre)
        cases.append("%s ; new 0 noarg - ; len 0 ; iter 0 ; get 0 0 ; repr 0 ; new 2 list 1,2 ; assign 0 1 ; iter 0" % pre)
        cases.append("%s ; new 3 list 1,2,3 ; new 2 list 5,6 ; assign 0 1 ; len 0 ; set 0 0 9 ; get 1 0" % pre)
    # (7) TupleVector (every type tuple is a JIT module: one in quick, three in thorough): model c20_tv_*, theorem C20_tuple
    cases += TV_CASES[:1] if ctx.quick else TV_CASES
    # (9) API-coverage round: the remaining bound entry points (see mutants/C20/API_COVERAGE.md)
    for n in sizes:
        x = rvals(n)
        pre = "new %d list %s ; " % (n, ql(x))
        for k in (1, n, n + 1):
            cases.append(pre + "copyargs 0 %s ; set 1 0 5 ; get 0 0" % ql(rvals(k)))
        if n == 1:
            cases.append(pre + "float 0 ; eqf 0 %s ; eqf 0 %s" % (fr(x[0]), fr(x[0] + 1)))
        for k in sorted({0, max(n - 1, 0), n, n + 1}):
            l = rvals(k)
            cases.append(pre + "nel 0 %s ; nel 0 %s ; addt 0 %s ; eqt 0 %s ; eqt 0 %s ; rdotl 0 %s ; isubl 0 %s ; assignl 0 %s ; get 0 -1" % (ql(l), ql(x), ql(l), ql(l), ql(x), ql(l), ql(l), ql(l)))
        cases.append(pre + "norm1r 0 ; norminfr 0 ; div2 0 4 ; bufinfo 0 ; ellipsis 0 ; set 2 0 44 ; get 0 0 ; view 0 ; bufinfo 3")
        cases.append(pre + " ; ".join("getnp 0 %d" % i for i in range(-n - 1, n + 1)) + " ; " + " ; ".join("setnp 0 %d 6" % i for i in (-n - 1, -1, 0, n)))
        bnd = ["_", "0", "1", "-1", str(n), str(-n - 1)]
        for a in bnd:
            for b in bnd:
                for c in ("_", "2", "-1"):
                    m = len(range(n)[slice(*[None if t == "_" else int(t) for t in (a, b, c)])])
                    for vals in ([Fraction(7)], [Fraction(10 + i) for i in range(m)], [Fraction(1), Fraction(2), Fraction(3)][:m + 1] + [Fraction(4)] * (m + 1 > 3)):
                        if rng.random() < (0.5 if ctx.quick else 1.0):
                            cases.append(pre + "view 0 ; setslice %d %s %s %s %s ; get 0 0" % (rng.randrange(2), a, b, c, ql(vals)))
        cases.append(pre + "setslice 0 _ _ 0 1")
    for n in (1, 3, 6):
        base = [Fraction(i + 1) for i in range(n)]
        for (a, b, c) in [("_", "_", "_"), ("_", "_", "2"), ("_", "_", "-1"), ("_", "_", "-2")]:
            m = len(range(n)[slice(*[None if t == "_" else int(t) for t in (a, b, c)])])
            cases.append(" ; ".join(["npv", "new %d list %s" % (n, ql(base)), "slice 0 %s %s %s" % (a, b, c)] +
                                    [o % i for i in range(m) for o in ("getc 1 %d", "getva 1 %d", "getcopy 1 %d")]))
    # (10) deepening round: FieldVector_n( R[r] ) through the buffer constructor from vectors of other sizes, views, reversed and
    #      stepped slices and slices of slices (stride loop of C20_construct_buffer); iteration over views
    for n in sizes:
        for m in sizes:
            y = rvals(m)
            cases.append("new %d list %s ; newfrom %d 0 ; slice 0 _ _ -1 ; newfrom %d 2 ; slice 0 _ _ 2 ; newfrom %d 4 ; slice 2 1 _ 2 ; newfrom %d 6 ; "
                         "set 0 0 77 ; iter 1 ; iter 2 ; iter 6 ; view 0 ; newfrom %d 8 ; slice 4 _ _ -1 ; newfrom %d 10 ; iter 10" % (m, ql(y), n, n, n, n, n, n))
    # (11) cross-cutting audit (mutants/C20/API_COVERAGE.md, "Dimension audit"): aliasing operands, views as receivers,
    #      slice assignment from overlapping storage, dropped owners, NumPyVector over a FieldVector's buffer
    for n in sizes:
        x = rvals(n)
        pre = "new %d list %s ; " % (n, ql(x))
        cases.append(pre + "iadd 0 0 ; isub 0 0 ; iadd 0 0 ; assign 0 0 ; dot 0 0 ; eq 0 0 ; ne 0 0 ; add 0 0 ; sub 0 0 ; view 0 ; iadd 0 3 ; assign 0 3 ; eq 0 3 ; "
                           "slice 0 _ _ -1 ; iadd 0 4 ; isub 0 4 ; assign 0 4 ; dot 0 4 ; pos 0 ; iadd 0 5 ; isub 5 0 ; imuls 5 2 ; get 0 -1")
        cases.append(pre + "slice 0 1 _ _ ; setslicefrom 0 _ -1 _ 1 ; slice 0 _ _ -1 ; setslicefrom 0 _ _ _ 2 ; setslicefrom 0 _ _ _ 0 ; setslicefrom 2 _ _ _ 0 ; "
                           "setslicefrom 0 _ _ 2 2 ; view 0 ; setslicefrom 3 _ _ -1 3 ; copyctor 0 ; setslicefrom 4 _ _ _ 2 ; get 0 0")
        for m in sorted({1, n, n + 1}):
            cases.append(pre + "view 0 ; new %d tuple %s ; arriadd 1 2 ; arrisub 1 0 ; arriadd 1 2 ; slice 0 _ _ -1 ; arriadd 1 3 ; arrisub 3 1 ; arrimuls 1 2 ; arriadds 3 1/2 ; "
                               "arradd 1 0 ; arradd 3 2 ; arriadd 3 3 ; view 2 ; arriadd 1 %d ; get 0 0 ; iter 2" % (m, ql(rvals(m)), 6 if (m in (1, n) or n == 1) else 5))
        cases.append(pre + "view 0 ; slice 0 _ _ 2 ; slice 0 _ _ -1 ; drop 0 ; set 1 0 5 ; get 2 0 ; iter 3 ; arriadd 1 3 ; copyctor 1 ; newfrom %d 3 ; drop 1 ; iter 2 ; set 3 -1 8 ; iter 2" % n)
        cases.append("npv ; newv %d list %s ; view 0 ; len 1 ; " % (n, ql(x)) + " ; ".join("get 1 %d" % i for i in range(n)) +
                     " ; set 1 %d 50 ; imuls 1 2 ; norm22 1 ; iadds 1 1 ; slice 0 _ _ -1 ; set 2 0 9 ; getc 2 %d ; idivs 2 2 ; norm1 1" % (n - 1, n - 1))
    # (12) another instance of the binding template: Dune::FieldVector<float,n> (format 'f'); float32 buffers accepted, float64
    #      ones rejected, conversion between the float and the double class rejected; dyadic values of few bits only
    for n in ([3] if ctx.quick else [1, 2, 3]):
        v = [Fraction(i + 1) for i in range(n)]; w = [Fraction(3 * i - 2, 2) for i in range(n)]
        for kind in ("list", "listf", "tuple", "args", "npf32", "nprev32", "noarg", "np", "nprev", "array", "npint"):
            for k in sorted({0, n - 1, n, n + 1}):
                if kind == "noarg" and k: continue
                tail = "" if kind in ("np", "nprev", "array", "npint") else " ; iter 0 ; str 0 ; repr 0 ; len 0"
                cases.append("f32 ; new %d %s %s%s" % (n, kind, ql(v[:k] + [Fraction(7)] * max(0, k - n)), tail))
        cases.append("f32 ; new %d list %s ; " % (n, ql(v)) + " ; ".join("get 0 %d" % i for i in range(-n - 1, n + 1)) + " ; " + " ; ".join("set 0 %d 9" % i for i in (-n - 1, -1, n)))
        cases.append("f32 ; new %d list %s ; new %d npf32 %s ; view 0 ; bufinfo32 0 ; set 2 0 50 ; slice 0 _ _ -1 ; set 3 0 60 ; add 0 1 ; sub 0 3 ; dot 0 1 ; eq 0 2 ; iadd 0 1 ; "
                     "isub 0 3 ; muls 0 2 ; divs 0 4 ; imuls 0 1/2 ; neg 0 ; copyctor 0 ; copymeth 0 ; set 8 0 1 ; norm1 0 ; norm22 0 ; norminf 0 ; addl 0 %s ; eql 0 %s ; "
                     "newfrom %d 3 ; crossbad 0 ; crossbad 2 ; assign 0 3 ; arriadd 2 1 ; setslicefrom 0 _ _ _ 3 ; str 0" % (n, ql(v), n, ql(w), ql(w), ql(v), n))
    # (13) seeding round 6: kind / flags of the EXPORTING BUFFER for every entry point that takes a buffer
    #      (a) FieldVector constructor: read-only exporters of doubles (flag cleared, over a bytes object, read-only memoryview, broadcast)
    #          x every length 0..n+2; the rejected kinds (byte order, raw bytes, itemsize, 0-d, read-only 2-d) run with BAD_KINDS in (1)
    for n in sizes:
        for kind in RO_KINDS:
            for k in range(0, n + 3):
                cases.append("new %d %s %s ; iter 0 ; len 0" % (n, kind, ql(rvals(k))))
        for k in range(0, n + 3):
            cases.append("new %d npbc %s ; iter 0" % (n, ql([rv()] * k)))
    #      (b) FieldVector_n( exporter of another object ) and read-only exporters as operands of every operand-taking op
    for n in sizes:
        for m in sizes:
            cases.append("new %d list %s ; newfromx ro %d 0 ; view 0 ; newfromx romv %d 2 ; slice 0 _ _ -1 ; newfromx ro %d 4 ; slice 0 _ _ 2 ; newfromx ro %d 6 ; "
                         "newfromx w %d 6 ; newfromx rof32 %d 0 ; newfromx ro2d %d 2 ; newfromx romv %d 0 ; addro 1 4 ; subro 1 6 ; dotro 1 2 ; eqro 1 2 ; iaddro 1 4 ; isubro 1 6 ; "
                         "assignro 1 2 ; eqro 1 0 ; set 1 0 77 ; iter 0 ; iter 2 ; dotro 0 0 ; iaddro 0 0" % ((m, ql(rvals(m))) + (n,) * 8))
    #      (c) NumPyVector( buffer ) x exporter flags x access: read-only exporters (flag, read-only memoryview, bytes object,
    #          broadcast) must refuse every write and change nothing; writable ones (view, array.array) share; over contiguous,
    #          stepped, reversed and empty views and over the buffer view of a FieldVector
    for n in (1, 2, 3, 6):
        base = [Fraction(i + 1) for i in range(n)]
        for (a, b, c) in [("_", "_", "_"), ("_", "_", "2"), ("1", "_", "_"), ("_", "_", "-1"), ("_", "-1", "2"), ("_", "_", "-2"), ("1", "1", "_")]:
            m = len(range(n)[slice(*[None if t == "_" else int(t) for t in (a, b, c)])])
            pre = ["npv", "new %d list %s" % (n, ql(base)), "slice 0 %s %s %s" % (a, b, c)]
            for kind in NX_RO:
                if kind == "robc" and m == 0: continue
                acc = (["set 0 50", "set %d -7/2" % (m - 1)] if m else []) + ["imuls 2", "iadds 1"] + (["get 0"] if m else []) + ["len", "norm22"]
                cases.append(" ; ".join(pre + ["nx %s 1 %s" % (kind, x) for x in acc]))
            cases.append(" ; ".join(pre + ["nx ro2d 1 len", "nx ro2d 1 imuls 2"]))
            if m:
                cases.append(" ; ".join(pre + ["nx w 1 set %d 50" % (m - 1), "nx warr 1 set 0 -7/2", "nx ro 1 imuls 3", "nx w 1 imuls 2", "nx warr 1 iadds 1", "nx rob 1 set 0 9",
                                               "nx w 1 get 0", "nx warr 1 len", "nx w 1 norm22", "nx romv 1 iadds 5", "get 1 0"]))
    for n in sizes:
        cases.append("npv ; newv %d list %s ; view 0 ; nx ro 1 imuls 2 ; nx romv 1 set 0 9 ; nx w 1 imuls 2 ; nx rob 1 iadds 1 ; nx robc 1 imuls 2 ; nx w 1 set %d 5 ; nx ro 1 get 0 ; "
                     "slice 0 _ _ -1 ; nx ro 2 set 0 1 ; nx w 2 set 0 4 ; norm1 1" % (n, ql(rvals(n)), n - 1))
    # boundary: the zero-size instance Dune::FieldVector<double,0>
    cases.append("new 0 list - ; len 0 ; iter 0 ; str 0 ; repr 0 ; get 0 0 ; get 0 -1 ; set 0 0 1 ; set 0 -1 1 ; view 0 ; len 1 ; iter 1 ; slice 0 _ _ -1 ; add 0 0 ; dot 0 0 ; eq 0 0 ; "
                 "norm22 0 ; norm1 0 ; norminf 0 ; neg 0 ; iadd 0 0 ; imuls 0 2 ; copyctor 0 ; copymeth 0 ; new 0 list 1,2 ; new 0 np 3 ; new 0 noarg - ; addl 0 1,2 ; eql 0 - ; eql 0 5 ; "
                 "new 3 list 1,2,3 ; newfrom 0 11 ; newfrom 3 0 ; add 11 0 ; iadd 11 1 ; assign 11 0 ; setslice 0 _ _ _ - ; setslice 0 _ _ _ 1,2 ; bufinfo 0 ; addi 0 0 ; addi 0 1 ; muli 0 2")
    cases.append("npv ; bad2d")
    cases.append("tva ; f 17 ; v 2,2 ; f 3 ; v 1,2,3")
    # (5) random op sequences mixing views, copies and writes: a weighted walk over the shape of the registers
    N = 1500 if ctx.quick else 20000
    for _ in range(N):
        regs, ops = [], []
        n0 = rng.choice(sizes)
        ops.append("new %d %s %s" % (n0, rng.choice(KINDS), ql(rvals(rng.choice([n0, n0, n0, max(n0 - 1, 0), n0 + 1])))))
        regs.append(("v", n0))
        L = rng.randrange(2, 9)
        neg_ok = rng.random() < 0.15           # scripts that may write a FieldVector at a negative index (F-C20-1)
        while len(ops) < L:
            vecs = [i for i, (k, _) in enumerate(regs) if k == "v"]
            r = rng.choice(vecs)
            any_r = rng.randrange(len(regs))
            n = regs[r][1]
            z = rng.random()
            if z < 0.10:
                m = rng.choice(sizes); ops.append("new %d %s %s" % (m, rng.choice(KINDS), ql(rvals(rng.choice([m, m, m + 1, max(m - 1, 0)]))))); regs.append(("v", m))
            elif z < 0.18:
                ops.append("view %d" % r); regs.append(("a", n))
            elif z < 0.28:
                k, m = regs[any_r]
                a, b = (rng.choice(["_"] + [str(i) for i in range(-m - 1, m + 2)]) for _ in range(2))
                c = rng.choice(["_", "_", "1", "-1", "2", "-2"])
                ops.append("slice %d %s %s %s" % (any_r, a, b, c))
                regs.append(("a", len(range(m)[slice(*[None if t == "_" else int(t) for t in (a, b, c)])])))
            elif z < 0.295:
                arrs = [i for i, (k, _) in enumerate(regs) if k == "a"]
                if not arrs: continue
                a = rng.choice(arrs); o = rng.choice(["arriadd", "arrisub", "arradd", "arrimuls", "setslicefrom"])
                if o == "arrimuls": ops.append("arrimuls %d %s" % (a, fr(rng.choice(SCAL))))
                elif o == "setslicefrom": ops.append("setslicefrom %d %s _ %s %d" % (any_r, rng.choice(["_", "0", "1", "-2"]), rng.choice(["_", "-1", "2"]), rng.randrange(len(regs))))
                else:
                    ops.append("%s %d %d" % (o, a, any_r))
                    if o == "arradd" and (regs[any_r][1] in (1, regs[a][1]) or regs[a][1] == 1):
                        regs.append(("a", regs[any_r][1] if regs[a][1] == 1 else regs[a][1]))
            elif z < 0.31:
                m = rng.choice(sizes)
                ops.append(rng.choice(["newfrom %d %d", "newfromx ro %d %d", "newfromx romv %d %d"]) % (m, any_r)); regs.append(("v", m))
            elif z < 0.34:
                ops.append("copyctor %d" % any_r); regs.append(regs[any_r])
            elif z < 0.36 and neg_ok:
                ops.append("copymeth %d" % any_r); regs.append(regs[any_r])
            elif z < 0.50:
                k, m = regs[any_r]
                lo = -m - 1 if (k == "a" or neg_ok) else 0
                i = rng.randrange(lo, m + 1) if m + 1 > lo else 0
                ops.append("set %d %d %s" % (any_r, i, fr(rv())))
            elif z < 0.56:
                k, m = regs[any_r]; ops.append("get %d %d" % (any_r, rng.randrange(-m - 1, m + 1)))
            elif z < 0.60:
                ops.append(rng.choice(["iter", "len"]) + " %d" % any_r)
            elif z < 0.72:
                o = rng.choice(["add", "sub", "dot", "eq", "ne", "addro", "dotro"]); ops.append("%s %d %d" % (o, r, any_r))
                if o == "addro": regs.append(("v", n))
                if o in ("add", "sub"): regs.append(("v", n))
            elif z < 0.80:
                ops.append("%s %d %d" % (rng.choice(["iadd", "isub", "assign"]), r, any_r))
            elif z < 0.85:
                o = rng.choice(["addl", "raddl", "subl", "rsubl", "iaddl", "dotl", "eql"]); ops.append("%s %d %s" % (o, r, ql(rvals(rng.choice([n, n, n - 1 if n else 0, n + 1])))))
                if o in ("addl", "raddl", "subl", "rsubl"): regs.append(("v", n))
            elif z < 0.91:
                o = rng.choice(["muls", "rmuls", "divs", "imuls", "idivs", "iadds", "isubs"])
                ops.append("%s %d %s" % (o, r, fr(rng.choice(DIVS if "div" in o else SCAL))))
                if o in ("muls", "rmuls", "divs"): regs.append(("v", n))
            elif z < 0.95:
                o = rng.choice(["neg", "pos", "addi", "rsubi", "muli"])
                if o in ("neg", "pos"):
                    ops.append("%s %d" % (o, r)); regs.append(("v", n))
                elif o == "muli":
                    if n == 1: continue          # register numbering after it depends on the result kind
                    ops.append("muli %d %d" % (r, rng.choice([2, -1, 0, 3]))); regs.append(("v", n))
                else:
                    k = 0 if n > 1 else rng.choice([0, 1, -2]); ops.append("%s %d %d" % (o, r, k)); regs.append(("v", n))
            else:
                ops.append(rng.choice(["str", "repr", "norm1", "norm22", "norminf"]) + " %d" % r)
        cases.append(" ; ".join(ops))
    return cases


# ----------------------------------------------------------------------------------------- run
def sizes_of(ctx):
    return [1, 2, 3, 4, 5] if ctx.quick else [1, 2, 3, 4, 5, 7]


def impl_cmd(run):
    return run + [os.path.join(HARNESS, "impl.py")]


def params_hook(ctx):
    """re-read the literals of the binding sources (tools/params.d/C20.py) into coq/Params_gen.v"""
    V.sh([sys.executable, os.path.join(V.VERIF, "tools", "extract_params.py"), ctx.repo], check=True)
    try:
        rep = json.load(open(os.path.join(V.VERIF, "build", "params_report.json")))
        ctx.coverage["source_literals"] = {k: v for k, v in rep.items() if k.startswith("c20_")}
    except Exception:
        pass


def run(ctx):
    ctx.params_hook = params_hook
    for attempt in range(3):
        if V.coq_stage(ctx):
            break
        # coq/Params_gen.v(.vo) is shared by all properties and regenerated by every check (also from --repo trees): when another
        # check rebuilds it between this check's dependency build and its coqc of Properties_C20.v, coqc reports "inconsistent
        # assumptions over library DuneV.Params_gen".  That is a build race, not a broken theorem: rebuild and try again.
        log = (ctx.coq or {}).get("log", "")
        if "inconsistent assumptions" in log and attempt < 2:
            ctx.viol[:] = [v for v in ctx.viol if not v[0].startswith("coq:")]
            ctx.notes.append("Coq stage repeated: Params_gen.vo was rebuilt concurrently by another check (attempt %d)" % (attempt + 1))
            time.sleep(3)
            continue
        break
    for attempt in range(3):
        try:
            model = V.build_model(ctx)
            break
        except V.BuildError as e:            # same race during extraction
            if "inconsistent assumptions" in str(e) and attempt < 2:
                time.sleep(3)
                continue
            raise
    env, runner, origin = setup_env(ctx)
    sizes = sizes_of(ctx)
    prebuild(ctx, env, runner, [0] + sizes + ["npv", "dynj"] + (["f32:3"] if ctx.quick else ["f32:1", "f32:2", "f32:3"]) + (TV_CASES[:1] if ctx.quick else TV_CASES))
    rc, info = V.sh(impl_cmd(runner) + ["--info"], env=env, timeout=120)
    origin["resolved"] = [l for l in info.split("\n") if " = " in l]
    cases = gen(ctx, sizes)
    ctx.log("generated %d cases" % len(cases))
    mo = V.run_cases(ctx, [model], cases, tag="model", timeout=600)
    mo_cur = V.run_cases(ctx, [model], cases, tag="model_cur", timeout=600, env={"C20_CFG": "current"})   # the code before fixes C20-1/2
    # impl: the FieldVector/TupleVector scripts and the NumPyVector scripts run in separate processes; NumPyVector scripts that
    # write run only after the read-only ones, and -- as long as those show that strides are ignored (F-C20-3) -- not through
    # negative-stride views, where the unrepaired code would write outside the array and corrupt the interpreter's heap.
    writes = lambda c: any(t[0] in MUTATING for t in split_case(c))
    negstep = lambda c: any(t[0] == "slice" and t[4].startswith("-") for t in split_case(c))
    only_npv = lambda c: c.startswith("npv")
    groups = {"main": [i for i, c in enumerate(cases) if not only_npv(c) and not is_dyn(c)],
              "dyn": [i for i, c in enumerate(cases) if is_dyn(c)],
              "npv_ro": [i for i, c in enumerate(cases) if only_npv(c) and not writes(c)]}
    io = [None] * len(cases)
    tmo = 240 if ctx.quick else 1200
    env = dict(env, C20_INNER_TIMEOUT=str(tmo - 10))      # run.sh reaps a hung interpreter (and its dune-py lock) by itself
    for g in ("main", "dyn", "npv_ro"):
        for i, o in zip(groups[g], V.run_cases(ctx, impl_cmd(runner), [cases[i] for i in groups[g]], tag="impl_" + g, timeout=tmo, env=env)):
            io[i] = o
    strides_ignored = any(judge(cases[i], io[i]) is not None for i in groups["npv_ro"])
    rw = [i for i, c in enumerate(cases) if only_npv(c) and writes(c)]
    skipped = [i for i in rw if strides_ignored and negstep(cases[i])]
    rw = [i for i in rw if i not in skipped]
    for i, o in zip(rw, V.run_cases(ctx, impl_cmd(runner), [cases[i] for i in rw], tag="impl_npv_rw", timeout=tmo, env=env)):
        io[i] = o
    note_obs = V.run_cases(ctx, impl_cmd(runner), NOTE_CASES, tag="impl_notes", timeout=120, env=env)
    unjudged = ["%s  =>  %s" % (c, o.split(" # ")[0][:160]) for c, o in zip(NOTE_CASES, note_obs)]
    ctx.notes.append("UNJUDGED observation (outside the property: operand-size mismatch is a C++ precondition): %d DynamicVector scripts with operands of "
                     "different size were run and only recorded, see coverage.unjudged_notes" % len(NOTE_CASES))
    if skipped:
        ctx.notes.append("%d NumPyVector scripts writing through negative-stride views were NOT run because the read-only scripts show "
                         "that NumPyVector ignores strides (F-C20-3): they would write outside the array" % len(skipped))
    keep = [i for i in range(len(cases)) if io[i] is not None]
    cases, mo, io, mo_cur = [cases[i] for i in keep], [mo[i] for i in keep], [io[i] for i in keep], [mo_cur[i] for i in keep]
    modelled = [i for i, c in enumerate(cases) if not (is_dyn(c) and mo[i] == "-")]
    agree_fixed = sum(1 for i in modelled if mo[i] == io[i])
    agree_cur = sum(1 for i in modelled if mo_cur[i] == io[i])
    nviol = ndis = nms = 0
    ops, exc_hits, alias_cases = {}, {}, 0
    for c, m, a in zip(cases, mo, io):
        for t in split_case(c):
            ops[t[0]] = ops.get(t[0], 0) + 1
        for e in re.findall(r"!(\w+)", m):
            exc_hits[e] = exc_hits.get(e, 0) + 1
        if re.search(r"\b(view|slice|pos)\b", c) and re.search(r"\b(set|iadd|isub|assign|imuls|iadds)\b", c):
            alias_cases += 1
        v = judge(c, a)
        if v is not None:
            nviol += 1
            if nviol <= 300:
                sig, reason, shrunk = v
                ctx.violation(sig, {"case": shrunk, "full_case": c, "impl": a, "model": m, "oracle": reason,
                                    "replay_cmd": "bin/check C20 --replay <this file>"})
        elif a != m and not (is_dyn(c) and m == "-"):
            ndis += 1
            if ndis <= 20:
                ctx.violation("corr:C20/script", {"broken": "corr:C20/script", "case": c, "impl": a, "model": m,
                                                  "oracle": "accepts impl output"}, found_input=False)
        # the model itself must satisfy the spec interpreter (sanity of the theorems' reading)
        if not (is_dyn(c) and m == "-") and "?" not in m and spec_line(c) != m:
            nms += 1
            if nms <= 5:
                ctx.notes.append("model/spec-oracle mismatch on `%s`: model %s / oracle %s" % (c, m, spec_line(c)))
    if nms:
        ctx.violation("corr:C20/model-vs-oracle", {"broken": "corr:C20/model-vs-oracle: extracted model and Python oracle disagree on %d cases" % nms,
                                                   "examples": ctx.notes[-5:]}, found_input=False)
    unmodelled = sum(1 for c, m in zip(cases, mo) if not is_tv(c) and not is_dyn(c) and "?" in m.split(" # ")[0])
    n_npv = sum(1 for c in cases if is_npv(c))
    ctx.coverage.update({
        "evaluations": len(cases), "distinct_nontrivial": len(set(cases)),
        "rule": "one case = one op script run on fresh objects; cases = corpus + every constructor kind x source length 0..n+2 + all indices -n-2..n+1 "
                "(get/set, on the vector and through a view) + huge indices + all (start,stop,step) slices over the boundary alphabet + operator table "
                "(all operand sizes/kinds, n=1 and int/float special cases) + seeded random scripts (<= 9 ops) mixing views, copies and writes + exporter "
                "flags (read-only flag / read-only memoryview / bytes object / broadcast / byte order / itemsize / 0-d / 2-d) x entry point taking a buffer "
                "(FieldVector constructor and operand conversion, NumPyVector) x access x view shape; sizes %s; "
                "distinct = distinct script lines; every script constructs non-zero vectors" % sizes,
        "samples": cases[:1] + cases[len(cases) // 3: len(cases) // 3 + 2] + cases[-2:],
        "op_distribution": ops, "model_exception_kinds_hit": exc_hits, "scripts_writing_through_or_beside_an_alias": alias_cases,
        "sizes": sizes, "impl_model_disagreements": ndis, "oracle_rejections": nviol, "model_oracle_mismatches": nms,
        "scripts_leaving_the_model": unmodelled, "numpyvector_scripts": n_npv, "tuplevector_scripts": sum(1 for c in cases if is_tv(c)),
        "dynamicvector_scripts_oracle_only_TEST": {"dyn (prebuilt /repo/_build _common.so, DynamicVector<double>)": sum(1 for c in cases if c.startswith("dyn ;")),
                                                   "dynj (DynamicVector<float> bound just-in-time from the checked tree's headers)": sum(1 for c in cases if c.startswith("dynj"))}, "exhaustive": False, "traces_validated_against_impl": len(cases),
        "impl_origin": origin, "unjudged_notes": unjudged,
        "modelled_scripts": len(modelled), "impl_equals_model_with_fixes_C20_1_2": agree_fixed,
        "impl_equals_model_of_code_as_it_stands": agree_cur,
    })
    if agree_cur != len(modelled) and agree_fixed != len(modelled):
        ctx.notes.append("the impl agrees with neither the model of the repaired code (%d/%d scripts) nor the model of the code as it stands (%d/%d): "
                         "partially fixed tree or drift" % (agree_fixed, len(modelled), agree_cur, len(modelled)))
    ctx.assumptions += ["pybind11 argument conversion / overload resolution, NumPy indexing and the buffer protocol are trusted (modelled, not verified)",
                        "entries are dyadic rationals of small magnitude: double arithmetic on them is exact, so Q models it",
                        "sign of zero is not observed (str/repr: '-0.000000' of a zero entry is canonicalised)",
                        "dune.common._common.so and libdunecommon.a are the ones built in /repo/_build; the FieldVector bindings are header-only and "
                        "compiled just-in-time from the checked tree (see coverage.impl_origin)"]


def replay(ctx, path):
    rep = json.load(open(path))
    case = rep["case"]
    model = V.build_model(ctx)
    env, runner, origin = setup_env(ctx)
    ns = ["f32:%s" % t[1] for t in split_case(case) if t[0] == "new"] if case.startswith("f32") else [case] if is_tv(case) else ["npv"] if is_npv(case) else ["dynj"] if is_dyn(case) else sorted(set(int(t[1]) for t in split_case(case) if t[0] == "new"))
    prebuild(ctx, env, runner, ns)
    mo = V.run_cases(ctx, [model], [case], tag="rmodel")
    io = V.run_cases(ctx, impl_cmd(runner), [case], tag="rimpl", timeout=120, env=env)
    print("case  :", case); print("impl  :", io[0]); print("model :", mo[0]); print("spec  :", spec_line(case, io[0]))
    v = judge(case, io[0])
    print("oracle:", ("REJECTS [%s] %s" % (v[0], v[1])) if v else "accepts")
    return 1 if v else 0
