(* Extraction of the C01 model and spec (oracle) for the correspondence check.  ExtrOcamlBasic only:
   bool/option/list/prod map to OCaml's; Z, positive, nat stay Coq inductives. *)
From Coq Require Import Extraction ExtrOcamlBasic.
From Coq Require Import List ZArith.
From DuneV Require Import Params_gen C01_Model C01_Model2 C01_Spec.
Extraction Language OCaml.
Extraction "c01_model.ml"
  c01_upd c01_for c01_at c01_row c01_get c01_set2 c01_rows c01_cols c01_vzero c01_mzero
  c01_mv c01_mtv c01_umv c01_umtv c01_umhv c01_mmv c01_mmtv c01_mmhv c01_usmv c01_usmtv c01_usmhv
  c01_vadd c01_vsub c01_vplus c01_vminus c01_vadds c01_vsubs c01_vscale c01_vdiv c01_vaxpy c01_vneg_from c01_veq
  c01_vdotT c01_vdot c01_fv_muls c01_fv_smul c01_fv_divs
  c01_madd c01_msub c01_mscale c01_mdiv c01_maxpy c01_meq c01_mneg_from
  c01_leftmultiply c01_rightmultiply c01_fm_mul c01_leftmultiplyany c01_rightmultiplyany
  c01_mul_via_mtv c01_col c01_setcol c01_mul_via_mv c01_mul_by_transposed c01_transposed
  c01_fm_plus c01_fm_minus c01_fm_muls c01_fm_smul c01_fm_divs
  c01_fm11_mul_row c01_fm11_leftmultiplyany c01_fm11_rightmultiply c01_fm11_rightmultiplyany
  c01_fm11_binop c01_fm11_scalar_r c01_fm11_scalar_l c01_fm11_transposed
  c01_dg_mv c01_dg_mtv c01_dg_umv c01_dg_umtv c01_dg_umhv c01_dg_mmv c01_dg_mmtv c01_dg_mmhv
  c01_dg_usmv c01_dg_usmtv c01_dg_usmhv c01_dg_mul c01_dg_transposed c01_dg_to_dense c01_assign_dense
  c01_tw_mv c01_tw_mtv c01_tw_asdense
  c01_copy_into c01_assign_dense_into c01_assign_diag_into c01_dm_prepare c01_dm_assign_dense c01_dm_assign_diag c01_fm_assign_rows
  c01_copy_assign c01_fv1_assign c01_cell_assign c01_cell_fill c01_param_diag_assign_zerofill
  c01_fill c01_vassign c01_mfill c01_mult_transposed c01_norm_sum c01_norm_max c01_mnorm_sum c01_mnorm_inf
  c01_Z_abs c01_Z_abs2 c01_G_absreal c01_G_abs2 c01_Z_cmp4
  c01_kdesc_of c01_kernel_gen c01_kernel_objs c01_dg_kernel_gen c01_rightmultiply_self_literal c01_leftmultiply_self_literal
  c01_cell_leftmultiply_literal c01_cell_rightmultiply_literal c01_cell_leftmultiply c01_cell_rightmultiply c01_cell_inplace
  c01_cell_neg_literal c01_cell_neg c01_cell_binop c01_vec_elem_literal c01_vec_elem
  c01_vec_inplace_objs c01_vec_inplace c01_vec_inplace_self c01_view_binop c01_resize c01_mresize c01_dg_exists
  c01_rightmultiply_self c01_leftmultiply_self c01_fv1_op c01_fv1_op_l c01_fv1_conv c01_fm11_conv
  c01_param_dense_mv c01_param_diag_mv
  c01_param_dense_mtv c01_param_diag_mtv
  c01_param_dense_umv c01_param_diag_umv
  c01_param_dense_umtv c01_param_diag_umtv
  c01_param_dense_umhv c01_param_diag_umhv
  c01_param_dense_mmv c01_param_diag_mmv
  c01_param_dense_mmtv c01_param_diag_mmtv
  c01_param_dense_mmhv c01_param_diag_mmhv
  c01_param_dense_usmv c01_param_diag_usmv
  c01_param_dense_usmtv c01_param_diag_usmtv
  c01_param_dense_usmhv c01_param_diag_usmhv
  c01_Z_ops c01_G_ops c01_P_ops
  c01s_map2 c01s_sum c01s_dot c01s_hdot c01s_mat_vec c01s_transpose c01s_conjm c01s_herm
  c01s_vadd c01s_vsub c01s_vscale c01s_vopp c01s_mat_mul c01s_diag c01s_madd c01s_msub c01s_mscale c01s_mopp
  c01s_wfb c01s_op c01s_assign c01s_plus c01s_minus c01s_plus_scaled c01s_vdiv c01s_mdiv c01s_veqb c01s_meqb.
